"""Verification of the advection schemes of the set-up model (coq/Model/Setup.v: s_adv, adv, no_clip) against the
real code, outside `check`: NSET generated set-ups with the scheme forced in turn (RK2, RK4, RK2, RK4, EF, ...; both
release modes, both directions, RK2 with and without land): setup_impl.eval_setup (mirror and shift) and
eval_restart; the integer cases are evaluated with Corr.SysRun.check_case in generated .v files.  Sensitivity: the
base cases of the Runge-Kutta set-ups are re-evaluated with another scheme number in the description (RK -> EF,
RK4 -> RK2); they must be rejected whenever the scheme mattered in the real run.

  PYTHONPATH=/repo:$W/harness:$W/harness/lib:$W/harness/props PYTHONHASHSEED=0 /venv/bin/python -W ignore
      $W/harness/verify_setup_rk.py $W [NSET=60] [SEED] [OUTDIR]      ($W = root of the checkout, with coq/ built)
"""
import json
import random
import shutil
import subprocess
import sys
import tempfile
from pathlib import Path

import setup_impl as su
import sim_impl as si

W = sys.argv[1]
NSET = int(sys.argv[2]) if len(sys.argv) > 2 else 60
SEED = int(sys.argv[3]) if len(sys.argv) > 3 else 20261001
out = Path(sys.argv[4]) if len(sys.argv) > 4 else Path(tempfile.mkdtemp()) / "gen"
out.mkdir(parents=True, exist_ok=True)
rng = random.Random(SEED)
cases, labels, problems = [], [], []
stats = {"EF": 0, "RK2": 0, "RK4": 0, "RK2+land": 0, "cont": 0, "rev": 0, "restarts": 0, "nontrivial": 0,
         "left_grid_or_died": 0, "particles": 0}
ADV_IX = 7  # position of the scheme in a tag-1 case: tag S stop dt rev period cont adv ...
for q in range(NSET):
    adv = [1, 2, 1, 2, 0][q % 5]
    desc = su.gen_setup(rng, rev=(q % 2 == 0), cont_mode=(q % 4 >= 2), land_mode=(None if adv != 1 else q % 10 >= 5), adv=adv)
    assert desc["adv"] == adv and su.respects_no_clip(desc) and not (adv == 2 and desc["land"])
    stats[su.ADV[adv]] += 1
    stats["RK2+land"] += bool(adv == 1 and desc["land"]); stats["cont"] += bool(desc["cont"]); stats["rev"] += desc["rev"]
    d = Path(tempfile.mkdtemp())
    shift = rng.choice([si.DT, 3 * si.DT, 7 * si.DT, 1000, -777, 86400])
    cs, pr, nt = su.eval_setup(desc, d, [(1, 0), (2, shift)])
    stats["nontrivial"] += bool(nt)
    # particles that disappear from the records although no lifetime is set have left the grid
    recs = su.run(d, "base", desc, su.physical(desc), desc["rev"])
    seen = {p for r in recs for p, *_ in r["rows"]}
    stats["particles"] += len(seen)
    if recs and desc["life"] < 0:
        stats["left_grid_or_died"] += len(seen - {p for p, *_ in recs[-1]["rows"]})
    for i, c in enumerate(cs):
        cases.append(c); labels.append((q, "setup", i, adv, desc["land"], desc["cont"], desc["rev"]))
    problems += [(q, p) for p in pr]
    d2 = Path(tempfile.mkdtemp())
    cs, pr, nt = su.eval_restart(desc, d2, rng.choice([1, 2, 2, 3]))
    stats["restarts"] += len(cs) - 1
    for i, c in enumerate(cs):
        cases.append(c); labels.append((q, "restart", i, adv, desc["land"], desc["cont"], desc["rev"]))
    problems += [(q, p) for p in pr]
    shutil.rmtree(d); shutil.rmtree(d2)

print("set-ups", NSET, stats, "cases", len(cases), "oracle problems", len(problems))
for p in problems[:10]:
    print("PROBLEM", p)


def coq_eval(name, cs, expr):
    f = out / name
    body = ";\n ".join("[" + "; ".join(str(x) if x >= 0 else f"({x})" for x in c) + "]" for c in cs)
    f.write_text("From Coq Require Import ZArith List.\nImport ListNotations.\nOpen Scope Z_scope.\n"
                 "From Ladim Require Import Corr.Run Corr.SysRun.\n"
                 f"Definition cases : list (list Z) := [\n {body}\n].\n"
                 f"Eval vm_compute in ({expr}).\n")
    p = subprocess.run(["bash", "-c", 'ulimit -s unlimited 2>/dev/null; exec coqc -Q "$0" Ladim "$1"', W + "/coq", str(f)],
                       capture_output=True, text=True, cwd=str(out))
    return p.returncode, (p.stdout + p.stderr).strip()


fails = []
SH = 40
for k in range(0, len(cases), SH):
    rc, txt = coq_eval(f"rk_{k:05d}.v", cases[k:k + SH], "failing check_case cases")
    ok = rc == 0 and "= []" in txt
    print(f"rk_{k:05d}.v", "OK" if ok else "FAIL", txt[:300].replace("\n", " "))
    if not ok:
        fails.append((k, txt, [labels[i] for i in range(k, min(k + SH, len(cases)))]))
# sensitivity: another scheme number in the description
for what, frm, to in (("RK2 described as EF", 1, 0), ("RK4 described as EF", 2, 0), ("RK4 described as RK2", 2, 1)):
    mut = []
    for c, l in zip(cases, labels):
        if l[1] == "setup" and l[2] == 0 and l[3] == frm:
            assert c[0] == 1 and c[ADV_IX] == frm
            mut.append(c[:ADV_IX] + [to] + c[ADV_IX + 1:])
    if mut:
        rc, txt = coq_eval(f"mut_{frm}{to}.v", mut, "length cases, length (failing check_case cases)")
        print(f"{what} (cases, rejected):", txt.replace("\n", " "))
print("RESULT", "all true" if not fails and not problems else "FAILURES", len(fails), len(problems))
json.dump({"labels": labels, "fails": fails}, open(out / "labels.json", "w"))
