#!/bin/bash
# usage: round3.sh Cnn ...  -- confirm round-17 seeds (a->s) and run the property's quick check on each
for ID in "$@"; do
  /verif/harness/confirm_seed.sh $ID a /tmp/mut20 s
  [ -d /verif/seeded/${ID}s ] || continue
  r=$(/verif/harness/try_mutant.sh /verif/seeded/${ID}s/patch.diff $ID 2>&1)
  if echo "$r" | grep -q "^VIOLATION property=$ID"; then echo "${ID}s CAUGHT $(echo "$r" | grep -m1 -E 'oracle:|differ on|broken:' | cut -c1-220)";
  else echo "${ID}s MISSED $(echo "$r" | tail -1 | cut -c1-160)"; fi
done
