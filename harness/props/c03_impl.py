"""Drive the real TimeKeeper/Grid/Forcing over a generated frame/file layout and record,
per model step, the velocity in force at fractions 0, 1/2, 1 and the scalar field value.

A layout is a dict:
  dt: int seconds, start: int, stop: int (seconds after EPOCH; start > stop when reversed),
  reversed: bool,
  files: list of lists of [time_seconds, uvalue, tvalue]   (frames per file, globally increasing time)
Field values are uniform in space, so the sampled velocity at any particle equals the field value.
"""
from __future__ import annotations

import numpy as np

import romsfiles as rf


def write_layout(d, layout, dtype="f8"):
    names = []
    vvals = layout.get("vvals")  # v of every frame (in frame order over all files); default v = 2 u
    pos = 0
    for k, frames in enumerate(layout["files"]):
        times = [f[0] for f in frames]
        u = np.array([f[1] for f in frames], dtype=float).reshape(-1, 1, 1, 1)
        vv = 2 * u if vvals is None else np.array(vvals[pos:pos + len(frames)], dtype=float).reshape(-1, 1, 1, 1)
        pos += len(frames)
        t = np.array([f[2] for f in frames], dtype=float).reshape(-1, 1, 1, 1)
        p = d / f"forcing_{k:03d}.nc"
        # each file carries its own time reference: the frames are what the decoded times say
        rf.write_roms(p, imax=6, jmax=5, N=2, times=times, u=u, v=vv, extra={"temp": t}, dtype=dtype,
                      time_ref_shift=[0, -86400, 900, 86400][k % 4], time_unit=["s", "d", "h", "s"][(k + len(frames)) % 4])
        names.append(p)
    return names


def trace(d, layout, fractions=(0.0, 0.5, 1.0), scalar=True):
    from ladim.ROMS import Forcing, Grid
    from ladim.state import State
    from ladim.timekeeper import TimeKeeper

    names = write_layout(d, layout)
    tk = TimeKeeper(start=rf.iso(layout["start"]), stop=rf.iso(layout["stop"]), dt=layout["dt"],
                    time_reversal=bool(layout["reversed"]))
    st = State(instance_variables={"temp": float} if scalar else None)
    grid = Grid(filename=names[0])
    mods = {"time": tk, "state": st, "grid": grid}
    st.append(X=np.array([2.25]), Y=np.array([2.5]), Z=np.array([10.0]), **({"temp": 0.0} if scalar else {}))
    force = Forcing(mods, filename=str(d / "forcing_*.nc"), extra_forcing=["temp"] if scalar else None)
    mods["forcing"] = force
    out = []
    try:
        for n in range(tk.Nsteps):
            tk.update()
            force.update()
            row = {"step": n, "u": [], "v": []}
            for f in fractions:
                U, V = force.velocity(st.X, st.Y, st.Z, fractional_step=f)
                row["u"].append(float(U[0]))
                row["v"].append(float(V[0]))
            row["uvar"] = float(force.variables["u"][0])
            if scalar:
                row["temp"] = float(force.variables["temp"][0])
            out.append(row)
    finally:
        try:
            force.close()
        except Exception:
            pass
    return out


def spec(layout, fractions=(0.0, 0.5, 1.0)):
    """The property text: linear interpolation between bracketing frames; scalar = latest frame
    at or before (after, when reversed) the model time.  Pure Python floats (exact for dyadic data)."""
    frames = [f for fl in layout["files"] for f in fl]
    dt = layout["dt"]
    rev = bool(layout["reversed"])
    sgn = -1.0 if rev else 1.0
    n = abs(layout["stop"] - layout["start"]) // dt
    out = []

    vvals = layout.get("vvals")
    vframes = [[f[0], 2 * f[1] if vvals is None else vvals[j]] for j, f in enumerate(frames)]

    def lerp(t, frames=frames):
        for a, b in zip(frames[:-1], frames[1:]):
            if a[0] <= t <= b[0]:
                return a[1] + (b[1] - a[1]) * (t - a[0]) / (b[0] - a[0])
        if t == frames[0][0]:
            return frames[0][1]
        raise ValueError("time not covered")

    for k in range(n):
        t = layout["start"] + (-k if rev else k) * dt
        row = {"step": k, "u": [sgn * lerp(t + (-f if rev else f) * dt) for f in fractions]}
        row["v"] = [sgn * lerp(t + (-f if rev else f) * dt, vframes) for f in fractions]
        if rev:
            cand = [f for f in frames if f[0] >= t]
            row["temp"] = cand[0][2]
        else:
            cand = [f for f in frames if f[0] <= t]
            row["temp"] = cand[-1][2]
        out.append(row)
    return out
