"""Whole set-ups for coq/Model/Setup.v (checker coq/Corr/SetupRun.v): a clock, forcing FILES with frames at
irregular times, a release TABLE with times and multiplicities, output period, IBM lifetime — realised on
disk, run through ladim.main.main, and described to Coq by times and values (not by steps: the step of
every time, the bracketing frames, the interpolation and the release schedule are computed by the model).

desc = {N, rev, S, p, life, fsteps[], u[], temp[], cuts[], rows[[step, mult, x, cls]], outside[...], cont, land[], adv}
cont = continuous-release frequency in seconds (0 / absent: discrete release).
adv = advection scheme of the tracker (0 / absent: EF, 1: RK2, 2: RK4; config key tracker.advection).  The model
leaves out the clip of the Runge-Kutta stage positions and demands instead (Setup.no_clip) that no frame moves a
particle by more than 98/100 (RK2) / 49/100 (RK4) of a cell per step: RK set-ups get the flow of the EF generator
scaled by 1/4 (RK2) / 1/8 (RK4), and some of their particles are released close to the ends of the valid region
so that particles still leave the grid.  EXACTNESS under RK: all stage velocities and positions are dyadic; the
division by 6 of RK4 is exact for a spatially uniform flow with linear time interpolation (U1 + 2 U2 + 2 U3 + U4 =
3 (u(n) + u(n + 1)) * factor) but not next to land, where the felt flow varies with the stage position: RK4
set-ups get NO land.  Under RK2 next to land the number of significant bits of a position grows by (bits of U1 +
bits of U2 + 3) per step (the stage position enters the interpolation weight of the second velocity): RK2 set-ups
with land run at most 4 steps in a flow on the coarse lattice 1/4 (u and u + dU/2 multiples of 1/4, at most 9
more bits per step), so that every position fits into a float exactly.
land = x-cells whose whole column is land in the grid / forcing files (absent: none): the real code masks the
u-faces next to them (the flow a particle feels is interpolated between its two u-faces), cancels every move
onto them; no particle is released in one.
Physical layout: 20 x 8 grid, three unstretched levels; class c (depth 100/60/20 m) feels the velocity of
level c = u(t) * CFAC[c]; the scalar field is uniform.  All values are dyadic and the increments per step are
multiples of the frame spacing, so that the float arithmetic of the run is exact.
"""
from __future__ import annotations

import numpy as np

import romsfiles as rf
import run_ladim as rl
import sim_impl as si
from coqbridge import fl

DT, DX = si.DT, si.DX
CFAC = [1.0, 0.5, 2.0]
ADV = ["EF", "RK2", "RK4"]
# Setup.no_clip: largest |u| * factor * dt/dx over all frames (the factor 1 of an unknown class included)
NO_CLIP = {0: None, 1: 0.98, 2: 0.49}
USCALE = {0: 1.0, 1: 0.25, 2: 0.125}


def respects_no_clip(desc):
    lim = NO_CLIP[int(desc.get("adv", 0))]
    return lim is None or max(abs(x) for x in desc["u"]) * max(CFAC + [1.0]) * DT / DX <= lim


def edge_x(rng):
    """a release position within one cell of an end of the valid region (LO, HI), on the 1/64 lattice"""
    k = rng.randint(1, 64)
    return (si.LO * 64 + k) / 64 if rng.random() < 0.5 else (si.HI * 64 - k) / 64


def gen_setup(rng, rev=None, cont_mode=None, land_mode=None, adv=None):
    """adv: None = about 40% EF, 30% RK2, 30% RK4; 0 / 1 / 2 (or "EF" / "RK2" / "RK4") forces the scheme"""
    if adv is None:
        q = rng.random()
        adv = 0 if q < 0.4 else (1 if q < 0.7 else 2)
    elif isinstance(adv, str):
        adv = ADV.index(adv)
    # land is decided first: it limits the length and the flow lattice of an RK2 set-up, and RK4 set-ups get none
    want_land = (rng.random() < 0.5) if land_mode is None else bool(land_mode)
    if adv == 2:
        want_land = False
    coarse = adv == 1 and want_land
    N = rng.randint(3, 4) if coarse else rng.randint(3, 9)
    rev = (rng.random() < 0.5) if rev is None else rev
    first = rng.choice([0, 0, -1, -3])
    last = N + rng.choice([0, 0, 1, 2])
    inner = sorted(set(rng.randint(1, N - 1) for _ in range(rng.randint(0, 4)))) if N > 1 else []
    if rng.random() < 0.25:
        inner = list(range(1, N))
    fsteps = [first] + [s for s in inner if first < s < last] + [last]
    if coarse:
        # u and the half-step values u + dU/2 on the lattice 1/4, |u| <= 3/4
        u = [rng.choice([0.0, 0.25, 0.5, -0.25, 0.75])]
        for a, b in zip(fsteps[:-1], fsteps[1:]):
            m = rng.choice([-1, 0, 0, 1])
            nxt = u[-1] + (b - a) * m / 2
            if abs(nxt) > 0.75:
                nxt = u[-1] - (b - a) * m / 2
            if abs(nxt) > 0.75:
                nxt = u[-1]
            u.append(nxt)
    else:
        # the EF generator (increments per step multiples of 1/4, |u| <= 3), scaled for the Runge-Kutta schemes
        sc = USCALE[adv]
        u = [rng.choice([0.0, 0.5, 1.0, -0.5, 1.5])]
        for a, b in zip(fsteps[:-1], fsteps[1:]):
            m = rng.choice([-3, -2, -1, 0, 1, 2, 3])
            nxt = u[-1] + (b - a) * m / 4
            if abs(nxt) > 3.0:
                nxt = u[-1] - (b - a) * m / 4
            if adv and abs(nxt) > 3.0:  # a long gap: under no_clip the flow must stay bounded
                nxt = u[-1]
            u.append(nxt)
        u = [x * sc for x in u]
    temp = [float(rng.randint(1, 30)) for _ in fsteps]
    nfiles = rng.randint(1, min(3, len(fsteps)))
    cuts = sorted(rng.sample(range(1, len(fsteps)), nfiles - 1)) if nfiles > 1 else []
    cont = 0
    # the slow flow of the Runge-Kutta set-ups carries few particles out of the grid: release 40% of them near the ends
    relx = lambda: edge_x(rng) if (adv and rng.random() < 0.4) else rng.randint(2 * 64, 15 * 64) / 64  # noqa: E731
    if (rng.random() < 1 / 3) if cont_mode is None else cont_mode:
        # continuous release (Release.cont_ok): frequency k * DT; the part of the table before the stop time holds a
        # few file times on the frequency grid anchored at the first one — which may lie before the start (its
        # rows are then forward-filled into the window) and need not be a whole number of periods from the
        # start —, in simulation order; rows at / after the stop time are unconstrained (filtered first)
        k = rng.choice([1, 2, 2, 3])
        cont = k * DT
        f0 = rng.choice([0, 0, 0, -1, -2, -3])
        rows, n = [], f0
        while n < N:
            if n == f0 or rng.random() < 0.5:
                for _ in range(rng.randint(1, 3)):
                    rows.append([n, rng.choice([1, 1, 1, 2, 0]), relx(), rng.randrange(3)])
            n += k
        if not any(r[1] > 0 for r in rows):
            rows[0][1] = 1
        outside = []
        if rng.random() < 0.5:
            outside.append([N + rng.randint(0, 2), 2, 6.0, 1])
    else:
        rows = []
        for n in range(N):
            if n == 0 or rng.random() < 0.45:
                for _ in range(rng.randint(1, 3)):
                    rows.append([n, rng.choice([1, 1, 1, 2, 0]), relx(), rng.randrange(3)])
        if not any(r[1] > 0 for r in rows):
            rows[0][1] = 1
        # rows outside the simulated window: before the start, at / after the stop (never released)
        outside = []
        if rng.random() < 0.4:
            outside.append([-rng.randint(1, 3), 1, 5.0, 0])
        if rng.random() < 0.4:
            outside.append([N + rng.randint(0, 2), 2, 6.0, 1])
    desc = {"N": N, "rev": bool(rev), "S": 50000 + 64 * rng.randint(0, 500), "p": rng.choice([1, 1, 2, 3]),
            "life": rng.choice([-1, -1, 2, 3, 5]), "fsteps": fsteps, "u": u, "temp": temp, "cuts": cuts,
            "rows": rows, "outside": outside, "cont": cont, "adv": adv}
    assert respects_no_clip(desc), desc
    # land: in about half of the set-ups 0-3 cells strictly inside the valid region, never a release cell
    land = []
    if want_land:
        used = {round(r[2]) for r in rows + outside}
        free = [i for i in range(2, 17) if i not in used]
        # mostly next to a release cell, so that particles reach the masked faces within the few steps of a run
        near = [i for i in free if (i - 1) in used or (i + 1) in used or (i - 2) in used or (i + 2) in used]
        for _ in range(rng.randint(0, 3) if land_mode is None else rng.randint(1, 3)):
            pool = near if (near and rng.random() < 0.7) else free
            if pool:
                land.append(rng.choice(pool))
        land = sorted(set(land))
    desc["land"] = land
    return desc


def physical(desc):
    """times of the set-up: (start, stop, chronological frame list [(time, u, temp)], files, release rows in
    simulation order [(time, mult, x, cls)])"""
    S, N, sg = desc["S"], desc["N"], (-1 if desc["rev"] else 1)
    t = lambda k: S + sg * k * DT  # noqa: E731
    frames = [(t(s), uu, tt) for s, uu, tt in zip(desc["fsteps"], desc["u"], desc["temp"])]
    # cut into files in step order, then put into chronological order (what a sorted glob yields)
    files, k = [], 0
    for c in desc["cuts"] + [len(frames)]:
        files.append(frames[k:c])
        k = c
    if desc["rev"]:
        files = [list(reversed(f)) for f in reversed(files)]
    rows = sorted(desc["rows"] + desc["outside"], key=lambda r: r[0])  # simulation order = step order (stable)
    rel = [(t(r[0]), r[1], r[2], r[3]) for r in rows]
    return S, t(N), files, rel


def transform(phys, kind, d, rev):
    """the mirrored (kind 1) / shifted by d seconds (kind 2) physical set-up; returns (phys', rev')"""
    S, stop, files, rel = phys
    if kind == 2:
        return (S + d, stop + d, [[(x + d, u, tt) for x, u, tt in f] for f in files],
                [(x + d, m, xx, c) for x, m, xx, c in rel]), rev
    mx = lambda x: 2 * S - x  # noqa: E731
    files2 = [[(mx(x), -u, tt) for x, u, tt in reversed(f)] for f in reversed(files)]
    return (S, mx(stop), files2, [(mx(x), m, xx, c) for x, m, xx, c in rel]), (not rev)


def set_release_mode(conf, desc):
    """continuous release with the frequency of the description (seconds), else discrete (the default)"""
    if desc.get("cont", 0):
        conf["release"]["continuous"] = True
        conf["release"]["release_frequency"] = int(desc["cont"])


def run(d, name, desc, phys, rev):
    S, stop, files, rel = phys
    for f in d.glob(f"f_{name}_*.nc"):
        f.unlink()
    for k, fr in enumerate(files):
        ul = [[u * CFAC[lev] for lev in range(si.NLEV)] for _, u, _ in fr]
        tl = [[tt] * si.NLEV for _, _, tt in fr]
        si.write_forcing(d, f"f_{name}_{k:03d}.nc", [x for x, _, _ in fr], ul, tl, land=desc.get("land"))
    rf.write_release(d / f"r_{name}.rls", [[x, m, xx, 4.0, si.ZCLS[c]] for x, m, xx, c in rel])
    env = {"p": desc["p"], "life": desc["life"]}
    conf = si.config(d, env, S, stop, f"o_{name}.nc", f"r_{name}.rls", f"f_{name}_*.nc", rev=rev, adv=ADV[int(desc.get("adv", 0))])
    conf["release"]["names"] = ["release_time", "mult", "X", "Y", "Z"]
    set_release_mode(conf, desc)
    conf["grid"] = {"module": "ladim.ROMS", "filename": str(d / f"f_{name}_000.nc")}
    rl.run_main(conf, d)
    return si.records([d / f"o_{name}.nc"], S, rev=rev)


def enc_setup(desc, phys, rev):
    S, stop, files, rel = phys
    ints = [S, stop, DT, 1 if rev else 0, desc["p"], int(desc.get("cont", 0)), int(desc.get("adv", 0))] + fl(DT / DX) + fl(si.LO) + fl(si.HI) + [desc["life"], len(CFAC)]
    for c in CFAC:
        ints += fl(c)
    land = [int(i) for i in desc.get("land", [])]
    ints += [len(land)] + land
    ints += [len(files)]
    for f in files:
        ints += [len(f)]
        for x, u, tt in f:
            ints += [int(x)] + fl(float(u)) + fl(float(tt))
    ints += [len(rel)]
    for i, (x, m, xx, c) in enumerate(rel):
        code = xx * 1024
        assert code == int(code)
        ints += [int(x), int(m), i, int(code), int(c)]
    return ints


def enc_records(recs):
    out = [len(recs)]
    for r in recs:
        out += [r["step"], len(r["rows"])]
        for q, x, a, tt in r["rows"]:
            out += [q] + fl(x) + [a] + fl(tt)
    return out


def same_records(a, b, what):
    if len(a) != len(b):
        return [f"{what}: {len(b)} records, the original run wrote {len(a)}"]
    out = []
    for ra, rb in zip(a, b):
        if ra["step"] != rb["step"] or ra["rows"] != rb["rows"]:
            out.append(f"{what}: record of step {ra['step']}: {rb['rows']} != original {ra['rows']}")
    return out


def eval_setup(desc, d, kinds, indep=False):
    """runs the set-up and its images under the transformations in `kinds` ((1, 0) mirror, (2, seconds) shift);
    returns (list of Coq cases for Corr.SetupRun [tag-prefixed by the caller], problems, non-trivial?)"""
    phys = physical(desc)
    base = run(d, "base", desc, phys, desc["rev"])
    cases = [[1] + enc_setup(desc, phys, desc["rev"]) + enc_records(base)]
    problems = []
    for kind, dd in kinds:
        phys2, rev2 = transform(phys, kind, dd, desc["rev"])
        name = "mir" if kind == 1 else "shf"
        recs = run(d, name, desc, phys2, rev2)
        what = "mirrored forward/backward run" if kind == 1 else f"run shifted by {dd} s"
        problems += same_records(base, recs, what)
        # the model of the transformed set-up (Setup.mirror_setup / shift_setup) against the real transformed run,
        # and the plain model on the description of the transformed files
        cases.append([2, kind, dd] + enc_setup(desc, phys, desc["rev"]) + enc_records(recs))
        cases.append([1] + enc_setup(desc, phys2, rev2) + enc_records(recs))
    # independence: the same set-up without the rows of the earliest release instant in the window (the first release
    # then comes later, possibly between two forcing frames, after steps with no particles at all): every other
    # particle must do exactly what it does in the full run; the model is evaluated on the reduced table as well
    if indep and not desc.get("cont", 0):
        S, stop, files, rel = phys
        sg = -1 if desc["rev"] else 1
        stepof = lambda x: sg * (x - S) / DT  # noqa: E731
        inwin = [r for r in rel if 0 <= stepof(r[0]) < desc["N"]]
        if inwin:
            t0 = inwin[0][0]
            rest = [r for r in rel if r[0] != t0]
            k = sum(r[1] for r in rel if r[0] == t0)
            if any(0 <= stepof(r[0]) < desc["N"] and r[1] > 0 for r in rest):
                phys_sub = (S, stop, files, rest)
                sub = run(d, "sub", desc, phys_sub, desc["rev"])
                cases.append([1] + enc_setup(desc, phys_sub, desc["rev"]) + enc_records(sub))
                want = [{"step": r["step"], "rows": [[q - k, x, a, tt] for q, x, a, tt in r["rows"] if q >= k]} for r in base]
                problems += same_records(want, sub, f"run without the {k} particle(s) released first (independence)")
    moved = len({tuple(x for _, x, _, _ in r["rows"]) for r in base if r["rows"]}) > 1
    times = len({r[0] for r in desc["rows"] if r[1] > 0}) > 1
    irregular = len(set(b - a for a, b in zip(desc["fsteps"][:-1], desc["fsteps"][1:]))) > 1 or len(desc["fsteps"]) == 2
    return cases, problems, (moved and times and irregular)


def eval_restart(desc, d, numrec):
    """split run of the set-up (numrec records per file) and a restart from every file boundary.
    Returns (Coq cases [tag 3: restart r + description + records of the restarted run in ITS numbering; tag 1:
    the uninterrupted run], problems of the oracle (restarted records = the uninterrupted run's records after
    the restart step), non-trivial?)"""
    phys = physical(desc)
    S, stop, files, rel = phys
    rev = desc["rev"]
    sg = -1 if rev else 1
    name = "cold"
    for f in d.glob(f"f_{name}_*.nc"):
        f.unlink()
    for k, fr in enumerate(files):
        ul = [[u * CFAC[lev] for lev in range(si.NLEV)] for _, u, _ in fr]
        tl = [[tt] * si.NLEV for _, _, tt in fr]
        si.write_forcing(d, f"f_{name}_{k:03d}.nc", [x for x, _, _ in fr], ul, tl, land=desc.get("land"))
    rf.write_release(d / f"r_{name}.rls", [[x, m, xx, 4.0, si.ZCLS[c]] for x, m, xx, c in rel])
    env = {"p": desc["p"], "life": desc["life"]}
    conf = si.config(d, env, S, stop, f"o_{name}.nc", f"r_{name}.rls", f"f_{name}_*.nc", rev=rev, numrec=numrec,
                     adv=ADV[int(desc.get("adv", 0))])
    conf["release"]["names"] = ["release_time", "mult", "X", "Y", "Z"]
    set_release_mode(conf, desc)
    conf["grid"] = {"module": "ladim.ROMS", "filename": str(d / f"f_{name}_000.nc")}
    rl.run_main(conf, d)
    cfiles = sorted(d.glob(f"o_{name}_*.nc"), key=lambda p: int(p.stem.split("_")[-1]))
    cold = si.records(cfiles, S, rev=rev)
    cases = [[1] + enc_setup(desc, phys, rev) + enc_records(cold)]
    problems, nontrivial = [], False
    for fi in range(len(cfiles) - 1):
        last = [r for r in cold if r["file"] == cfiles[fi].name][-1]
        r = last["step"]
        wconf = {k: (dict(v) if isinstance(v, dict) else v) for k, v in conf.items()}
        wconf["time"] = dict(wconf["time"]); del wconf["time"]["start"]
        wconf["output"] = dict(wconf["output"]); wconf["output"]["filename"] = str(d / f"w{fi}_{fi + 1:03d}.nc")
        wconf["warm_start"] = {"filename": str(cfiles[fi]), "variables": ["age", "temp", "release_time"]}
        try:
            rl.run_main(wconf, d)
        except BaseException as e:  # noqa: BLE001
            problems.append(f"restart after {cfiles[fi].name} (step {r}) failed: {type(e).__name__}: {e}")
            continue
        wfiles = sorted(d.glob(f"w{fi}_*.nc"), key=lambda p: int(p.stem.split("_")[-1]))
        t_restart = S + sg * r * DT
        warm = si.records(wfiles, t_restart, rev=rev)  # steps counted from the restart
        want = [x for x in cold if x["step"] > r]
        if len(warm) != len(want):
            problems.append(f"restart after step {r}: {len(warm)} records, the uninterrupted run writes {len(want)} after it")
        for a, b in zip(want, warm):
            if a["step"] != b["step"] + r or a["rows"] != b["rows"]:
                problems.append(f"restart after step {r}: record {b['step']}+{r}: {b['rows']} != uninterrupted (step {a['step']}) {a['rows']}")
        cases.append([3, r] + enc_setup(desc, phys, rev) + enc_records(warm))
        p0 = {q for q, *_ in last["rows"]}
        pw = {q for x in want for q, *_ in x["rows"]}
        if (p0 - pw) and (pw - p0):
            nontrivial = True  # particles die and are released after the restart
    return cases, problems, nontrivial
