"""C02 at the float level — the binary64 arithmetic of `ladim.ROMS.trilinear`, bit for bit.

Self-contained (NOT registered in the harness).  Companion of
    coq/Model/TrilinearFloat.v          the executable binary64 model (Coq primitive floats)
    coq/Proofs/TrilinearFloatProofs.v   error bound |result - exact| <= 11 * 2^-53 * M + 7 * 2^-1075, ...
    coq/Corr/C02F.v                     check_case : list Z -> bool  (bit-for-bit comparison + side conditions)

A case is ONE particle in ONE cell: position (X, Y) in [0, 6)^2, vertical weight A in [0, 1], the eight node values
    d00 u00 d01 u01 d10 u10 d11 u11      dXY = F[k-1, j+Y, i+X] (weight a),  uXY = F[k, j+Y, i+X] (weight 1-a)
The REAL numba-compiled kernel is called on a small 3-D array (2 x 8 x 8, NaN everywhere except the eight nodes, so
a wrong index shows up as NaN), and its `.py_func` as well (must give the same bits).

Floats travel as their IEEE-754 bit pattern: int.from_bytes(struct.pack(">d", x), "big").
The case handed to Coq (layout of Corr/C02F.check_case, 15 integers):
    [Xb, i, Yb, j, Ab, d00, u00, d01, u01, d10, u10, d11, u11, Mb, Rb]
i = int(X), j = int(Y) as the kernel forms them, Mb = bits of max |node value|, Rb = bits of the kernel's result.

Run:  PYTHONPATH=/repo /venv/bin/python /verif/harness/props/c02_float.py [--words] [n] [seed ...]
      (--words: the fast input path check_case_w, primitive integer literals)
"""
from __future__ import annotations

import math
import os
import random
import shutil
import struct
import subprocess
import sys
import tempfile
import time
from fractions import Fraction

import numpy as np

PROP = "C02"
CHECKER = "Corr.C02F"
COQ_ROOT = os.environ.get("VERIF_COQ", os.path.join(os.path.dirname(os.path.abspath(__file__)), "..", "..", "coq"))

# the proved bound (Proofs/TrilinearFloatProofs.v, trilinear_f_error): delta M = C1 * U * M + C2 * ETA
C1, C2 = 11, 7
U = Fraction(1, 2 ** 53)
ETA = Fraction(1, 2 ** 1075)
ORDER = ["d00", "u00", "d01", "u01", "d10", "u10", "d11", "u11"]
NJ = NI = 8  # the small array: 2 levels x 8 x 8


def bits(x: float) -> int:
    return int.from_bytes(struct.pack(">d", float(x)), "big")


def unbits(b: int) -> float:
    return struct.unpack(">d", int(b).to_bytes(8, "big"))[0]


def delta(M: Fraction) -> Fraction:
    return C1 * U * M + C2 * ETA


# ---------------------------------------------------------------------------------------------- generation
def _next(x, up=True):
    return math.nextafter(x, math.inf if up else -math.inf)


def _rand_double(rng, lo_exp=-1074, hi_exp=996):
    """a random double with a random binary exponent (subnormals when the exponent is below -1022)"""
    e = rng.randint(lo_exp, hi_exp)
    m = 1.0 + rng.random()
    s = rng.choice([-1.0, 1.0])
    return s * math.ldexp(m, e)  # ldexp rounds correctly into the subnormal range


def _gen_pos(rng):
    """a coordinate in [0, 6) and the name of its category"""
    x, cat = _gen_pos0(rng)
    return min(x, _next(6.0, up=False)), cat


def _gen_pos0(rng):
    c = rng.randrange(10)
    k = rng.randrange(0, 6)
    if c == 0:
        return float(k), "node"                                   # p = 0 exactly
    if c == 1:
        return _next(float(k + 1), up=False), "below-node"        # p = 1 - ulp: as close to 1 as it gets
    if c == 2:
        return (_next(float(k)) if k else 5e-324), "above-node"   # p = one ulp (k = 0: the smallest subnormal)
    if c == 3:
        return k + math.ldexp(1.0, -rng.randint(30, 52)) if k else math.ldexp(1.0 + rng.random(), -rng.randint(30, 1070)), "tiny-p"
    if c == 4:
        return k + 1 - math.ldexp(1.0, -rng.randint(20, 50)), "p-near-1"
    if c == 5:
        return k + rng.choice([0.5, 0.25, 0.75, 0.125]), "dyadic"
    return min(k + rng.random(), _next(float(k + 1), up=False)), "general"


def _gen_weight(rng):
    c = rng.randrange(10)
    if c == 0:
        return 0.0, "a0"
    if c == 1:
        return 1.0, "a1"
    if c == 2:
        return rng.choice([5e-324, math.ldexp(1.0, -1022), math.ldexp(1.0, -60), math.ldexp(1.0 + rng.random(), -rng.randint(54, 1000))]), "a-tiny"
    if c == 3:
        return rng.choice([_next(1.0, up=False), 1.0 - math.ldexp(1.0, -rng.randint(10, 52))]), "a-near-1"
    if c == 4:
        return rng.choice([0.5, 0.25, 0.75]), "a-dyadic"
    return rng.random(), "a-general"


def _gen_values(rng):
    c = rng.randrange(10)
    if c == 0:    # every magnitude, both signs, zeros
        vs = [rng.choice([0.0, -0.0]) if rng.random() < 0.15 else _rand_double(rng) for _ in range(8)]
        return vs, "wild"
    if c == 1:    # neighbours in the last bit
        base = _rand_double(rng, -1000, 900)
        vs = []
        for _ in range(8):
            v = base
            for _ in range(rng.randint(0, 2)):
                v = _next(v, up=rng.random() < 0.5)
            vs.append(v)
        return vs, "last-bit"
    if c == 2:    # subnormals and zeros only
        vs = [rng.choice([0.0, -0.0, 5e-324, -5e-324]) if rng.random() < 0.3 else _rand_double(rng, -1074, -1023) for _ in range(8)]
        return vs, "subnormal"
    if c == 3:    # huge, up to 1e300, mixed signs
        vs = [rng.choice([-1.0, 1.0]) * rng.choice([1e300, 1e300 * rng.random(), _rand_double(rng, 900, 995)]) for _ in range(8)]
        return [max(-1e300, min(1e300, v)) for v in vs], "huge"
    if c == 4:    # cancellation: the two levels (or two corners) are opposite
        v = _rand_double(rng, -300, 300)
        vs = [v * rng.choice([1.0, -1.0]) * rng.choice([1.0, 1.0, 1.0 + 2 ** -52]) for _ in range(8)]
        return vs, "cancel"
    if c == 5:    # around the underflow threshold: products w * v fall into the subnormal range
        vs = [_rand_double(rng, -1060, -960) for _ in range(8)]
        return vs, "underflow"
    if c == 6:    # a few zeros of both signs among ordinary numbers
        vs = [rng.choice([0.0, -0.0]) if rng.random() < 0.5 else rng.uniform(-1, 1) for _ in range(8)]
        return vs, "zeros"
    if c == 7:    # a constant field (the result should be that constant up to rounding)
        v = _rand_double(rng, -500, 500)
        return [v] * 8, "constant"
    scale = 10.0 ** rng.randint(-3, 3)
    return [rng.uniform(-1, 1) * scale for _ in range(8)], "ordinary"


def gen_float_cases(rng, n):
    """n JSON-serialisable case descriptions; `rng` is a random.Random"""
    out = []
    for t in range(n):
        X, cx = _gen_pos(rng)
        Y, cy = _gen_pos(rng)
        A, ca = _gen_weight(rng)
        vs, cv = _gen_values(rng)
        # every 16th case pins the two extreme corner combinations down deterministically (by index, not by chance)
        if t % 16 == 0:
            X, cx = _next(float(rng.randrange(1, 6)), up=False), "below-node"
            Y, cy = rng.choice([(5e-324, "above-node"), (float(rng.randrange(0, 6)), "node")])
        if t % 16 == 8:
            A, ca = [(0.0, "a0"), (1.0, "a1")][(t // 16) % 2]
        out.append({"k": "c02f", "X": bits(X), "Y": bits(Y), "A": bits(A), "vals": [bits(v) for v in vs],
                    "cat": [cx, cy, ca, cv]})
    return out


# ---------------------------------------------------------------------------------------------- evaluation
_kernel = None


def _get_kernel():
    global _kernel
    if _kernel is None:
        from ladim.ROMS import trilinear

        _kernel = trilinear
    return _kernel


def exact_combination(X: Fraction, i: int, Y: Fraction, j: int, a: Fraction, v: dict) -> Fraction:
    """the property text in exact arithmetic: eight products weight * value"""
    p, q = X - i, Y - j
    return ((1 - p) * (1 - q) * (a * v["d00"] + (1 - a) * v["u00"]) + p * (1 - q) * (a * v["d10"] + (1 - a) * v["u10"])
            + (1 - p) * q * (a * v["d01"] + (1 - a) * v["u01"]) + p * q * (a * v["d11"] + (1 - a) * v["u11"]))


def eval_float_case(desc):
    kern = _get_kernel()
    X, Y, A = unbits(desc["X"]), unbits(desc["Y"]), unbits(desc["A"])
    vals = dict(zip(ORDER, (unbits(b) for b in desc["vals"])))
    i, j = int(X), int(Y)
    F = np.full((2, NJ, NI), np.nan)
    for name, v in vals.items():
        lev = 0 if name[0] == "d" else 1          # d = level k-1 = index 0, u = level k = index 1 (K = 1)
        di, dj = int(name[1]), int(name[2])       # fXY: X = offset in i, Y = offset in j
        F[lev, j + dj, i + di] = v
    Xa, Ya, Ka, Aa = np.array([X]), np.array([Y]), np.array([1]), np.array([A])
    r = float(kern(F, Xa, Ya, Ka, Aa)[0])
    with np.errstate(all="ignore"):
        r_py = float(kern.py_func(F, Xa, Ya, Ka, Aa)[0])
    M = max(abs(v) for v in vals.values())
    ints = [desc["X"], i, desc["Y"], j, desc["A"]] + list(desc["vals"]) + [bits(M), bits(r)]

    # ---- the independent oracle, exact rational arithmetic
    problems = []
    if bits(r) != bits(r_py):
        problems.append(f"compiled kernel {r!r} ({bits(r):#x}) and py_func {r_py!r} ({bits(r_py):#x}) differ")
    if math.isnan(r) or math.isinf(r):
        problems.append(f"non-finite result {r!r}")
    else:
        fv = {k: Fraction(v) for k, v in vals.items()}
        E = exact_combination(Fraction(X), i, Fraction(Y), j, Fraction(A), fv)
        d = delta(Fraction(M))
        err = abs(Fraction(r) - E)
        if err > d:
            problems.append(f"|result - exact| = {float(err):.3e} exceeds the proved bound {float(d):.3e}")
        lo, hi = min(fv.values()), max(fv.values())
        if not (lo - d <= Fraction(r) <= hi + d):
            problems.append(f"result {r!r} outside [min, max] +- delta = [{float(lo)!r}, {float(hi)!r}] +- {float(d):.3e}")
        # T4: the fractional parts the kernel forms are exact and in [0, 1)
        for name, x, c in (("p", X, i), ("q", Y, j)):
            fl = float(np.float64(x) - c)
            if Fraction(fl) != Fraction(x) - c or not (0 <= fl < 1):
                problems.append(f"{name} = X - i is not exact: {fl!r} for X = {x!r}, i = {c}")
        rel = float(err / d) if d else 0.0
    same = len(set(desc["vals"])) == 1
    return {"ints": ints, "oracle": problems[0] if problems else None,
            "nontrivial": None if same else tuple(desc["cat"]) + (desc["X"] % 97, desc["A"] % 97),
            "kind": "c02f-" + desc["cat"][3],
            "observed": {"result": r, "result_hex": float(r).hex(), "result_bits": bits(r), "py_func_same_bits": bits(r) == bits(r_py),
                         "i": i, "j": j, "err_over_bound": (rel if not problems and not (math.isnan(r) or math.isinf(r)) else None)}}


# ---------------------------------------------------------------------------------------------- Coq bridge
def to_words(case):
    """the fast input path of Corr/C02F.check_case_w: every number as (hi, lo) with value hi * 2^32 + lo"""
    out = []
    for z in case:
        out += [z >> 32, z & 0xFFFFFFFF]
    return out


def write_cases_v(path, cases, mode="z"):
    """mode "z": `failing cases` on list (list Z) (hexadecimal literals: elaborated twice as fast as decimal ones);
    mode "words": `failing_w cases` on list (list int), primitive integer literals (parsed natively)"""
    with open(path, "w") as f:
        f.write("From Coq Require Import ZArith List Uint63.\nRequire Import Ladim.Corr.C02F.\nImport ListNotations.\n")
        if mode == "z":
            f.write("Open Scope Z_scope.\nDefinition cases : list (list Z) := [\n")
            f.write(";\n".join("  [" + "; ".join(hex(z) for z in c) + "]" for c in cases))
            f.write("\n].\nEval vm_compute in (failing cases).\n")
        else:
            f.write("Open Scope uint63_scope.\nDefinition cases : list (list int) := [\n")
            f.write(";\n".join("  [" + "; ".join(str(z) for z in to_words(c)) + "]" for c in cases))
            f.write("\n].\nEval vm_compute in (failing_w cases).\n")


def run_coq(cases, timeout=600, keep=None, mode="z"):
    """returns (list of failing indices or None on error, seconds, raw output)"""
    d = tempfile.mkdtemp(prefix="c02f_")
    try:
        vf = os.path.join(d, "Scratch_flt_cases.v")
        write_cases_v(vf, cases, mode)
        t0 = time.time()
        pr = subprocess.run(["coqc", "-Q", os.path.abspath(COQ_ROOT), "Ladim", vf], cwd=d, capture_output=True, text=True, timeout=timeout)
        dt = time.time() - t0
        out = pr.stdout + pr.stderr
        if keep:
            shutil.copy(vf, keep)
        if pr.returncode != 0:
            return None, dt, out
        flat = " ".join(out.split())
        a = flat.index("= [") + 2
        lst = flat[a + 1: flat.index("]", a)]
        failing = [int(t.replace("%Z", "")) for t in lst.replace(";", " ").split()] if lst.strip() else []
        return failing, dt, out
    finally:
        shutil.rmtree(d, ignore_errors=True)


def selftest(n=300, seed=1, verbose=True, mode="z"):
    rng = random.Random(seed)
    t0 = time.time()
    descs = gen_float_cases(rng, n)
    res = [eval_float_case(d) for d in descs]
    t_py = time.time() - t0
    cases = [r["ints"] for r in res]
    oracle_bad = [(k, r["oracle"]) for k, r in enumerate(res) if r["oracle"]]
    py_bad = [k for k, r in enumerate(res) if not r["observed"]["py_func_same_bits"]]
    nontriv = len({r["nontrivial"] for r in res if r["nontrivial"] is not None})
    worst = max((r["observed"]["err_over_bound"] or 0.0) for r in res)
    failing, t_coq, out = run_coq(cases, mode=mode)
    allok = failing == []
    # negative control: flip the last bit of every 7th result, turn +0 into -0 (or v.v.) where the result is a zero
    tampered, expect = [], []
    for k, c in enumerate(cases):
        c = list(c)
        if k % 7 == 3:
            c[-1] ^= (1 << 63) if (c[-1] & ((1 << 63) - 1)) == 0 else 1
            expect.append(k)
        tampered.append(c)
    failing_t, t_coq2, out2 = run_coq(tampered, mode=mode)
    ok = (failing == [] and allok is True and not oracle_bad and not py_bad and failing_t == expect)
    if verbose:
        kinds = {}
        for r in res:
            kinds[r["kind"]] = kinds.get(r["kind"], 0) + 1
        print(f"seed {seed}: {n} cases ({nontriv} distinct non-trivial), kinds {dict(sorted(kinds.items()))}")
        print(f"  kernel + oracle in Python: {t_py:.2f} s; oracle failures: {len(oracle_bad)}; compiled != py_func: {len(py_bad)}; "
              f"largest observed error / proved bound: {worst:.3f}")
        for k, m in oracle_bad[:5]:
            print(f"    oracle case {k}: {m}\n      {descs[k]}")
        if failing is None:
            print("  coqc FAILED:\n" + out[-2000:])
        else:
            print(f"  Coq (Corr.C02F.{'check_case' if mode == 'z' else 'check_case_w'}, vm_compute): {n - len(failing)}/{n} cases agree BIT FOR BIT and satisfy "
                  f"the side conditions in {t_coq:.2f} s incl. coqc start-up ({n / t_coq:.0f} cases/s); failing indices: {failing[:20]}")
            for k in failing[:5]:
                print(f"    failing case {k}: {descs[k]} observed {res[k]['observed']}")
        if failing_t is None:
            print("  negative control: coqc FAILED:\n" + out2[-2000:])
        else:
            print(f"  negative control (result off by one ulp / sign of zero in {len(expect)} cases): rejected exactly those: {failing_t == expect}")
        print("  RESULT:", "OK" if ok else "PROBLEM")
    return ok


if __name__ == "__main__":
    words = "--words" in sys.argv
    args = [int(a) for a in sys.argv[1:] if a != "--words"]
    n = args[0] if args else 300
    seeds = args[1:] or [1, 2, 3]
    good = all([selftest(n, s, mode="words" if words else "z") for s in seeds])
    print("ALL OK" if good else "SOME PROBLEM")
    sys.exit(0 if good else 1)
