"""C11 under re-arrangement — orders, names and spellings of the inputs that must not matter (oracle only).

The property speaks of "the random displacement added in a step" of a particle: independent, mean 0, variance 2*D*dt.
It does not depend on WHERE in the state a particle stands, on which other particles are inactive (settled) next to
it, on the order of the rows / columns of the release file, or on whether the column names come from a header line or
from the configuration.  The fixed cases here run the REAL code with the same physical set-up arranged in several
legal ways and decide, for every arrangement,

  moving     every particle that is active during a step receives a random horizontal displacement of mean 0 and
             variance 2*D*dt (metres squared, with the spacing of the cell the particle is in; 6 sigma), none of them
             is left exactly in place (a continuous variate is 0 with probability 0), and — vertical coefficient
             positive — the same in depth with 2*Dz*dt;
  resting    a particle that is inactive during a step keeps its horizontal position exactly;
  agreement  METAMORPHIC: the variance per step found for two arrangements of the same set-up agree with each other
             within the sampling error of their difference (both are estimates of the same 2*D*dt).

Nothing here knows how the numbers are drawn: drawing for the active particles only and handing the deviates out by
the active FLAG is fine, and so is drawing for everybody.

  k = "order"      State + Tracker on the stub grid of c11.py; the `active` flags of a point cloud arranged in several
                   ways (none inactive, active first / last, alternating, scattered, runs, a single inactive particle
                   first / last, scattered particles settling in the middle of the run) x the cloud's lanes (cells of
                   different spacing) interleaved or sorted in the state; each against the "active rows first" run.
  k = "ordermain"  ladim.main: a release file with a column `active`; rows of equal release time with active and
                   inactive rows first / alternating / in runs, the columns in two orders, the names in a header line
                   or in the configuration, the time spelled in full / as the date alone / without seconds, numbers as 30.0 / 30 / 3.0e1; and an IBM
                   plug-in that settles scattered particles after the first step (from the second step on they rest).
"""
from __future__ import annotations

import math
from pathlib import Path

import numpy as np

N_STATE = 8192
ARRANGEMENTS = ["none-inactive", "active-last", "alternating", "scattered", "runs", "one-first", "one-last", "settling", "thirds"]
PARAMS = [  # D, Dz, dt, dx0, dy0
    (1.0, 0.0, 600, 800.0, 800.0),
    (100.0, 1.0e-2, 3600, 160.0, 200.0),
    (0.1, 0.0, 60, 4.0, 4.0),
]


def order_cases(quick=True):
    out = []
    for i, arr in enumerate(ARRANGEMENTS):
        D, Dz, dt, dx0, dy0 = PARAMS[i % len(PARAMS)]
        out.append({"k": "order", "arr": arr, "lanes": ["interleaved", "sorted", "reversed"][i % 3], "D": D, "Dz": Dz, "dt": dt,
                    "dx0": dx0, "dy0": dy0, "n": N_STATE, "steps": 3, "seed": 1100 + i})
    for j, (rows, cols, header) in enumerate([("alternating", "usual", False), ("alternating", "reversed", True),
                                              ("runs", "mixed", True), ("active-last", "usual", True)]):
        out.append({"k": "ordermain", "how": "release", "rows": rows, "cols": cols, "header": header, "spell": j % 3,
                    "D": 2.0, "dt": 60, "dx": 100.0, "block": 500, "nblocks": 16, "steps": 3})
    out.append({"k": "ordermain", "how": "ibm", "rows": "settling", "cols": "usual", "header": False, "spell": 0,
                "D": 2.0, "dt": 60, "dx": 100.0, "block": 500, "nblocks": 16, "steps": 3})
    return out


def flags(arr, n):
    """the active flags of n particles in arrangement `arr`; about half of them inactive (except where named otherwise)"""
    p = np.arange(n)
    if arr == "none-inactive":
        return np.ones(n, dtype=bool)
    if arr == "active-first":
        return p < n // 2
    if arr == "active-last":
        return p >= n // 2
    if arr == "alternating":
        return p % 2 == 1
    if arr == "scattered":
        return np.random.default_rng(20201).random(n) < 0.5
    if arr == "runs":
        return (p % 137) < 100
    if arr == "thirds":
        return (p < n // 3) | (p >= 2 * (n // 3))
    if arr == "one-first":
        return p != 0
    if arr == "one-last":
        return p != n - 1
    raise ValueError(arr)


# ---- the judgement, shared by both kinds ---------------------------------------------------------------------------
def judge_step(label, s, e, act, sig2, problems, stats):
    """e: {direction: displacement in metres of every particle in step s}; act: active during the step"""
    m = int(act.sum())
    for d, x in e.items():
        v2 = sig2[d]
        if d in "XY" and (~act).any() and np.any(x[~act] != 0):
            k = int(np.flatnonzero(~act & (x != 0))[0])
            problems.append(f"{label}: step {s}: inactive particle in slot {k} moved by {x[k]:.6g} m in {d}")
        if v2 <= 0 or m < 100:
            continue
        a = x[act]
        frozen = int((a == 0).sum())
        if frozen:
            problems.append(f"{label}: step {s}: {frozen} of the {m} active particles received no random {d} displacement at all "
                            f"(first: slot {int(np.flatnonzero(act & (x == 0))[0])})")
        mean, var = float(a.mean()), float((a * a).mean())
        stats.setdefault(d, []).append((var / v2, m))
        if abs(mean) > 6 * math.sqrt(v2 / m):
            problems.append(f"{label}: step {s}: mean {d} displacement of the active particles {mean:.6g} m outside +-{6 * math.sqrt(v2 / m):.6g} (6 sigma)")
        if abs(var - v2) > 6 * v2 * math.sqrt(2.0 / m):
            problems.append(f"{label}: step {s}: variance of the {d} displacement of the {m} active particles is {var / v2:.4f} times 2*D*dt = {v2:.6g} m2")


def agree(label_a, label_b, sa, sb, problems):
    for d in sa:
        for s, ((ra, ma), (rb, mb)) in enumerate(zip(sa[d], sb.get(d, []))):
            if abs(ra - rb) > 6.5 * math.sqrt(2.0 / ma + 2.0 / mb):
                problems.append(f"step {s}: the {d} variance over 2*D*dt is {ra:.4f} for [{label_a}] but {rb:.4f} for [{label_b}]: "
                                f"the same set-up in another order")


# ---- State + Tracker ------------------------------------------------------------------------------------------------
def run_state(desc, arr, problems):
    import c11

    D, Dz, dt, n, steps = desc["D"], desc["Dz"], desc["dt"], desc["n"], desc["steps"]
    dxt = desc["dx0"] * np.array([1.0, 1.25, 1.5, 1.75])
    dyt = desc["dy0"] * np.array([1.0, 1.5, 2.0, 2.5])
    sdz = math.sqrt(2 * Dz / dt) if Dz > 0 else 0.0
    z0 = 16.0 * sdz * dt * math.sqrt(steps) if sdz > 0 else 5.0
    h = np.full(n, 4.0 * z0 + 10.0)
    zero = np.zeros(n)
    p = np.arange(n)
    lane = {"interleaved": p % 4, "sorted": (4 * p) // n, "reversed": 3 - (4 * p) // n}[desc["lanes"]]
    label = f"order case, {n} particles in one point per cell, lanes {desc['lanes']}, active flags {arr}"
    tr, state = c11.make_tracker(D, Dz, dt, False, False, dxt, dyt, h, zero, zero, zero, desc["seed"])
    late = flags("scattered", n) if arr == "settling" else None
    act0 = np.ones(n, dtype=bool) if arr == "settling" else flags(arr, n)
    state.append(X=c11.LANE * lane + c11.LANE / 2, Y=np.full(n, 0.5), Z=np.full(n, z0), active=act0)
    sig2 = {"X": 2 * D * dt, "Y": 2 * D * dt, "Z": 2 * Dz * dt}
    stats = {}
    for s in range(steps):
        if late is not None and s == 1:  # what an IBM does when particles settle
            state["active"] = np.asarray(state.active, dtype=bool) & late
        act = np.array(state.active, dtype=bool)
        b = {d: np.array(state[d], dtype=float) for d in "XYZ"}
        mdx, mdy = c11.metric_at(dxt, dyt, b["X"], b["Y"])
        tr.update()
        if len(state.X) != n or not np.asarray(state.alive).all():
            problems.append(f"{label}: particles lost in step {s}")
            break
        e = {"X": (np.asarray(state.X, dtype=float) - b["X"]) * mdx, "Y": (np.asarray(state.Y, dtype=float) - b["Y"]) * mdy}
        if Dz > 0:
            e["Z"] = np.asarray(state.Z, dtype=float) - b["Z"]
        judge_step(label, s, e, act, sig2, problems, stats)
        if len(problems) > 4:
            break
    return label, stats


def eval_order(desc, ctx):
    problems = []
    la, sa = run_state(desc, "active-first" if desc["arr"] != "settling" else "none-inactive", problems)
    lb, sb = run_state(desc, desc["arr"], problems)
    if not problems:
        agree(la, lb, sa, sb, problems)
    return {"ints": None, "oracle": "; ".join(problems[:3]) or None,
            "nontrivial": ("order", desc["arr"], desc["lanes"], desc["D"], desc["Dz"], desc["dt"]), "kind": "order-state",
            "observed": {"var_over_2Ddt": {d: [round(r, 4) for r, _ in v] for d, v in sb.items()}}}


# ---- ladim.main -------------------------------------------------------------------------------------------------------
ZACT, ZINACT = 5.0, 7.0  # the depth tells active from inactive rows in the output (no vertical movement configured)
COLS = {"usual": ["release_time", "mult", "X", "Y", "Z", "active"],
        "reversed": ["active", "Z", "Y", "X", "mult", "release_time"],
        "mixed": ["mult", "Y", "active", "release_time", "Z", "X"]}


def run_main_arr(desc, rows_arr, cols, header, spell, d, problems):
    import romsfiles as rf
    import run_ladim as rl
    from netCDF4 import Dataset

    for f in d.glob("*"):
        f.unlink()
    D, dt, dx, steps, blk, nb = desc["D"], desc["dt"], desc["dx"], desc["steps"], desc["block"], desc["nblocks"]
    n = blk * nb
    ibm = desc["how"] == "ibm"
    rowact = np.ones(nb, dtype=bool) if ibm else flags(rows_arr, nb)
    rf.write_roms(d / "f.nc", imax=60, jmax=40, N=2, times=[0, (steps + 2) * dt], u=0.0, v=0.0, h=100.0, dx=dx)
    t0 = rf.iso(0)  # midnight: "2000-01-01T00:00:00", the date alone, without the seconds
    tspell = [t0, t0[:10], t0[:16]][spell]
    xs, ys = [("30.0", "20.0"), ("30", "20"), ("3.0e1", "2.0e1")][spell]
    names = COLS[cols]
    with (d / "r.rls").open("w") as f:
        if header:
            f.write(" ".join(names) + "\n")
        for r in range(nb):
            val = {"release_time": tspell, "mult": str(blk), "X": xs, "Y": ys, "Z": repr(ZACT if rowact[r] else ZINACT),
                   "active": "True" if rowact[r] else "False"}  # read as booleans, the declared type of `active`
            f.write(" ".join(val[c] for c in names if not (ibm and c == "active")) + "\n")
    use = [c for c in names if not (ibm and c == "active")]
    conf = rf.base_config(start=0, stop=(steps + 1) * dt, dt=dt, forcing_file=d / "f.nc", release_file=d / "r.rls", out_file=d / "out.nc",
                          names=use, advection="", output_period=dt)
    if header:
        del conf["release"]["names"]
    conf["tracker"]["diffusion"] = D
    label = (f"ladim.main, {nb} release rows of {blk} particles in one point at one time, rows {rows_arr}, columns {' '.join(use)} "
             f"({'header line' if header else 'names in the configuration'})")
    settle = None
    if ibm:
        settle = np.flatnonzero(~flags("scattered", n))
        plug = str(Path(rf.__file__).resolve().parents[1] / "plugins" / "kill_ibm.py")
        conf["ibm"] = {"module": plug, "settle": {0: [int(q) for q in settle]}}
        label = f"ladim.main, {n} particles released in one point, an IBM settling {len(settle)} scattered particles after the first step"
    rl.run_main(conf, d)
    with Dataset(d / "out.nc") as nc:
        nc.set_auto_mask(False)
        pc = np.asarray(nc.variables["particle_count"][:], dtype=int)
        pid = np.asarray(nc.variables["pid"][:], dtype=int)
        X = np.asarray(nc.variables["X"][:], dtype=float)
        Y = np.asarray(nc.variables["Y"][:], dtype=float)
        Z = np.asarray(nc.variables["Z"][:], dtype=float)
    for f in d.glob("*"):
        f.unlink()
    if len(pc) != steps + 1 or not (pc == n).all():
        problems.append(f"{label}: particle counts of the records {pc.tolist()[:6]}, expected {steps + 1} records of {n}")
        return label, {}
    pos = []
    for k in range(steps + 1):
        sl = slice(k * n, (k + 1) * n)
        o = np.argsort(pid[sl], kind="stable")
        if not np.array_equal(pid[sl][o], np.arange(n)):
            problems.append(f"{label}: record {k} does not hold the particles 0..{n - 1} once each")
            return label, {}
        pos.append((X[sl][o], Y[sl][o], Z[sl][o]))
    z = pos[0][2]
    if not np.array_equal(np.sort(z), np.sort(np.repeat(np.where(rowact, ZACT, ZINACT), blk))):
        problems.append(f"{label}: the depths of the first record are not those of the release file")
        return label, {}
    stats = {}
    sig2 = {"X": 2 * D * dt, "Y": 2 * D * dt}
    for s in range(steps):
        # the record k is written after k steps; the IBM call of step 0 comes after the tracker's, its settling holds from step 1 on
        act = (z == ZACT) if not ibm else (np.ones(n, dtype=bool) if s < 1 else ~np.isin(np.arange(n), settle))
        e = {"X": (pos[s + 1][0] - pos[s][0]) * dx, "Y": (pos[s + 1][1] - pos[s][1]) * dx}
        judge_step(label, s, e, act, sig2, problems, stats)
    return label, stats


def eval_ordermain(desc, ctx):
    d = ctx.subdir("c11order")
    problems = []
    if desc["how"] == "ibm":
        la, sa = run_main_arr(desc, desc["rows"], desc["cols"], desc["header"], desc["spell"], d, problems)
        sb, lb = sa, la
    else:
        la, sa = run_main_arr(desc, "active-first", "usual", False, 0, d, problems)
        lb, sb = run_main_arr(desc, desc["rows"], desc["cols"], desc["header"], desc["spell"], d, problems)
        if not problems:
            agree(la, lb, sa, sb, problems)
    return {"ints": None, "oracle": "; ".join(problems[:3]) or None,
            "nontrivial": ("ordermain", desc["how"], desc["rows"], desc["cols"], desc["header"], desc["spell"]), "kind": "order-main",
            "observed": {"var_over_2Ddt": {k: [round(r, 4) for r, _ in v] for k, v in sb.items()}}}
