"""C20 — impossible set-ups are refused before the simulation starts.

Per case the harness writes a complete set-up (synthetic ROMS forcing file(s), grid file, release file,
YAML configuration) from an explicit description, injects nothing else, and runs it through
`ladim.main.main` with `ladim.main.Model.update` wrapped so that the calls of the time loop are counted.
Observed: did start-up stop with an exception (`SystemExit` or any other) before the first `update()`,
which constructor raised (read off the traceback), the number of `update()` calls and the number of records
in every output file that exists afterwards.  The Coq model (Corr.C20.check_case -> Model/Startup.v `main_run`)
is evaluated on the same description.  The oracle recomputes the fault list of the property text directly
from the description: a faulty set-up must stop during start-up (no update() call) and leave no output
record; a set-up without any fault must run all its steps.
"""
from __future__ import annotations

import copy
import traceback
from pathlib import Path

import romsfiles as rf

PROP = "C20"
THEOREM_FILE = "Props/C20.v"
CHECKER = "Corr.C20"
SHARD = 120
RULE = ("8 base scenarios (forward/reversed x single/multi-file forcing x discrete/continuous release), each once with a "
        "duration of whole time steps and once with a ragged duration (Nsteps*dt + dt/3 or + dt - 1 s; quick: a subset of "
        "the injections there), with random time step, frame spacing, pre-roll, file split, release table, grid size and optional legal subgrid; every "
        "single fault of the list injected into every base scenario: forcing starting one step after the minimum time "
        "/ ending one step before the maximum time, first / last frame one second inside the window [min(start, stop), "
        "max(start, stop)], last frame at min + Nsteps*dt (inside the sub-dt gap of a ragged duration) (and the tight valid neighbours: first frame exactly at the minimum "
        "time, last exactly at the maximum), two adjacent frames swapped (inside a file, across a file boundary), a "
        "frame duplicated (across a file boundary when multi-file), start / stop / dt removed, dt = 0, direction flag "
        "flipped, start = stop, all release rows before the start / after the stop / exactly at the stop (and the valid "
        "neighbours: a row exactly at the start, a row one step before the stop), release file without position "
        "columns, a release row with a missing Y value, release file missing, release_file '', release_file key "
        "missing, forcing pattern matching nothing (grid file given / inferred), forcing file without frames, grid file "
        "missing, each of the sections time/forcing/release/tracker/output removed or given without content, "
        "forcing.filename / forcing.module / grid.filename keys removed, output.filename / output_period / "
        "instance_variables removed, configuration file missing / not YAML / wrong "
        "version, subgrid with i0 >= i1, j0 >= j1, beyond the grid, 0, negative beyond the grid, legal negative; "
        "plus random pairs of injections (2 per base scenario in quick; thorough: 3 rounds of base scenarios and 40 "
        "pairs each) and the regression set-ups of corpus/C20; first of all a fixed family at scale (c20_scale.py, "
        "not drawn at random): series of 13 to 1025 forcing files (well-formed with the window early / in the middle / "
        "late; names whose order is not the order in time: unpadded or too narrowly padded numbers; one swap, "
        "duplicate, exchanged or stale file anywhere in the series, far from or next to the window), files of 125 / 1500 "
        "frames with a fault deep inside, windows of 3000 to 5000 steps with 1440 steps between frames and forcing "
        "one step short at either end, release tables of 4096 to 10000 rows (all outside the window, only the last "
        "inside, the last without position); those with an encoding of more than 400 integers are decided by the "
        "oracle alone.  Each case runs ladim.main.main; compared with the Coq model: refused/started, "
        "the refusing constructor, number of update() calls, number of records.  Non-trivial = distinct (scenario, "
        "fault list) with at least one fault or a tight valid neighbour.")
TRUSTED = ["Coq 8.16.1 kernel + vm_compute", "hand-written model coq/Model/Startup.v (reusing Model/Time.v tk_init and "
           "Model/Release.v rel_init) tied by this correspondence",
           "synthetic ROMS files written by harness/lib/romsfiles.py; netCDF4, pandas, PyYAML as run",
           "the refusing stage is read off the traceback (a frame of ladim.configure; local main_class_name of "
           "ladim.model.init_module; loop variable of ladim.model.Model.__init__ for config[name])"]
ASSUMPTIONS = ["cold start, configuration format version 2, default modules (ladim.ROMS, ladim.release, ladim.out_netcdf)",
               "times are whole seconds; forcing files are well-formed ROMS files apart from their list of frame times",
               "release rows have mult = 1 (a mult = 0 row counts as a row for the code; see the report)",
               "continuous release: frequency > 0; output period >= dt (a shorter period is accepted by the code: numpy "
               "integer division by zero, a record at every step)"]

STAGES = ["Config", "State", "Time", "Grid", "Forcing", "Release", "Tracker", "Ibm", "Output"]
CLASS2STAGE = {"State": 1, "TimeKeeper": 2, "Grid": 3, "Forcing": 4, "ParticleReleaser": 5, "Tracker": 6, "IBM": 7,
               "Output": 8}
NAME2STAGE = {"state": 1, "time": 2, "grid": 3, "forcing": 4, "release": 5, "tracker": 6, "ibm": 7, "output": 8}
SEC = {"missing": 0, "null": 1, "present": 2}
REF_SHIFTS = [0, -86400, 43200, 1800]
_SLOT = 0
SCALE_COQ_MAX = 400  # scale cases whose encoding is longer than this are oracle-only (ints = None)
CF = {"ok": 0, "missing": 1, "badsyntax": 2, "badversion": 3}


# ------------------------------------------------------------------------------------------------
# realisation of a description on disk
# ------------------------------------------------------------------------------------------------
def realize(desc, d: Path):
    """write all files of the set-up into the (fresh) directory d -> path of the configuration file"""
    imax, jmax = desc["imax"], desc["jmax"]
    # forcing and grid files are shared between the cases that have the same ones (read-only for ladim)
    import hashlib
    import json

    # the forcing files of successive cases are written under the SAME few paths (a directory re-used and its
    # files regenerated from case to case, as when an experiment is re-run after the forcing was re-made):
    # what a run sees is what the files hold NOW
    global _SLOT
    _SLOT = (_SLOT + 1) % 3
    fdir = d.parent / "forcing_cache" / f"slot{_SLOT}"
    fdir.mkdir(parents=True, exist_ok=True)
    for old in fdir.glob("*.nc"):
        old.unlink()
    if desc.get("scale"):
        # long series: hard links into a pool of files (see c20_scale), under the names the description gives
        import c20_scale

        c20_scale.link_forcing(desc, fdir)
    for k, times in enumerate([] if desc.get("scale") else desc["files"]):
        # every file has its own time reference (as files produced by different model runs have)
        rf.write_roms(fdir / f"ocean_{k:03d}.nc", imax=imax, jmax=jmax, N=2, times=times, u=0.0, v=0.0,
                      time_ref_shift=REF_SHIFTS[k % len(REF_SHIFTS)],
                      time_unit="s" if desc.get("tunit") == "s" else ["s", "h", "d"][(k + len(times)) % 3])
    if desc["forcing_single_name"] and len(desc["files"]) == 1:
        fpattern = str(fdir / "ocean_000.nc")
    else:
        fpattern = str(fdir / "ocean_*.nc")
    if not desc["forcing_matches"]:
        fpattern = str(fdir / "nothing_*.nc") if "*" in fpattern else str(fdir / "nothing.nc")
    gfile = d / "grid.nc"  # does not exist
    if desc["grid_file"]:
        gfile = d.parent / "forcing_cache" / f"grid_{imax}x{jmax}.nc"
        if not gfile.exists():
            rf.write_roms(gfile, imax=imax, jmax=jmax, N=2, times=[], grid_only=True)
    rfile = d / "release.rls"
    if desc["rel_file"]:
        pos = desc["rel_pos"]
        rows = []
        for j, t in enumerate(desc["rel_times"]):
            x, y = 2.0 + 0.25 * (j % 3), 2.0 + 0.25 * (j % 2)
            if pos == "xy":
                r = [t, x, y, 1.0]
            elif pos == "lonlat":
                r = [t, 0.01 * x, 60 + 0.01 * y, 1.0]
            elif pos == "rowgap":  # the LAST row lacks its Y (and Z) value
                r = [t, x, y, 1.0] if j + 1 < len(desc["rel_times"]) else [t, x]
            elif pos == "llgap":  # positions by longitude / latitude, the LAST row lacks its latitude (and Z)
                r = [t, 0.01 * x, 60 + 0.01 * y, 1.0] if j + 1 < len(desc["rel_times"]) else [t, 0.01 * x]
            else:
                r = [t, 1.0]
            rows.append(r)
        rf.write_release(rfile, rows)
    names = {"xy": ["release_time", "X", "Y", "Z"], "lonlat": ["release_time", "lon", "lat", "Z"],
             "rowgap": ["release_time", "X", "Y", "Z"], "llgap": ["release_time", "lon", "lat", "Z"],
             "none": ["release_time", "Z"]}[desc["rel_pos"]]

    conf = {"version": 2, "state": {}, "ibm": {}, "warm_start": {}}
    if desc["cf"] == "badversion":
        conf["version"] = 3
    tm = {}
    if desc["start"] is not None:
        tm["start"] = rf.iso(desc["start"])
    if desc["stop"] is not None:
        tm["stop"] = rf.iso(desc["stop"])
    if desc["dt"] is not None:
        tm["dt"] = int(desc["dt"])
    if desc["ref"] is not None:
        tm["reference"] = rf.iso(desc["ref"])
    if desc["rev"]:
        tm["time_reversal"] = True
    grid = {}
    if desc["grid_has_module"]:
        grid["module"] = "ladim.ROMS"
    if desc["grid_has_filename"]:
        grid["filename"] = str(gfile)
    if desc["subgrid"] is not None:
        grid["subgrid"] = list(desc["subgrid"])
    forcing = {}
    if desc["forcing_has_module"]:
        forcing["module"] = "ladim.ROMS"
    if desc["forcing_has_filename"]:
        forcing["filename"] = fpattern
    release = {"names": names}
    if desc["rel_has_key"]:
        release["release_file"] = "" if desc["rel_name_empty"] else str(rfile)
    if desc["rel_cont"] is not None:
        release["continuous"] = True
        release["release_frequency"] = int(desc["rel_cont"])
    output = {"layout": "sparse", "particle_variables": {}}
    if desc["out_filename"]:
        output["filename"] = str(d / "out.nc")
    if desc["out_period"] is not None:
        output["output_period"] = int(desc["out_period"])
    if desc["out_ivars"]:
        output["instance_variables"] = {
            v: {"encoding": {"datatype": "i4" if v == "pid" else "f8"}, "attributes": {"long_name": v}}
            for v in ("pid", "X", "Y", "Z")}
    conf["grid"] = grid
    for name, body in (("time", tm), ("forcing", forcing), ("release", release),
                       ("tracker", {"advection": "EF"}), ("output", output)):
        st = desc["sec"][name]
        if st == "present":
            conf[name] = body
        elif st == "null":
            conf[name] = None
    import yaml

    cfile = d / "ladim.yaml"
    if desc["cf"] == "missing":
        return cfile
    if desc["cf"] == "badsyntax":
        cfile.write_text("time: {start: [unclosed\n  - x: : y\n")
        return cfile
    with cfile.open("w") as f:
        yaml.safe_dump(conf, f)
    return cfile


def stage_of(tb) -> int:
    """which part of the start-up raised: 0 Config, 1..8 the constructed module, -1 unknown"""
    stage = -1
    for frame, _ in traceback.walk_tb(tb):
        fn = frame.f_code.co_filename.replace("\\", "/")
        if fn.endswith("ladim/configure.py") and stage < 0:
            stage = 0
        if fn.endswith("ladim/model.py") and frame.f_code.co_name == "__init__" and stage < 0:
            # config[name] of a missing section: the loop variable names the module being built
            stage = NAME2STAGE.get(frame.f_locals.get("name"), -1)
        if fn.endswith("ladim/model.py") and frame.f_code.co_name == "init_module":
            stage = CLASS2STAGE.get(frame.f_locals.get("main_class_name"), -1)
    return stage


def count_records(d: Path):
    """records in every output file that exists: -> (number of files, total records)"""
    from netCDF4 import Dataset

    nfiles = nrec = 0
    for p in sorted(d.glob("out*.nc")):
        nfiles += 1
        try:
            with Dataset(p) as nc:
                nrec += len(nc.dimensions["time"]) if "time" in nc.dimensions else 0
        except OSError:
            nrec += 0  # a file that cannot be opened holds no readable record
    return nfiles, nrec


_COUNTER = [0]


def observe(desc, ctx):
    import logging
    import os

    import ladim.main as lm

    _COUNTER[0] += 1
    d = ctx.subdir("c20") / f"case{_COUNTER[0]:05d}"
    d.mkdir()
    cfile = realize(desc, d)
    calls = [0]
    orig = lm.Model.update

    def counted(self):
        calls[0] += 1
        return orig(self)

    lm.Model.update = counted
    exc = None
    stage = -1
    cwd = os.getcwd()
    os.chdir(d)
    try:
        try:
            lm.main(str(cfile), loglevel=logging.CRITICAL + 10)
        except BaseException as e:  # noqa: BLE001  (SystemExit included)
            if isinstance(e, KeyboardInterrupt):
                raise
            exc = type(e).__name__ + (f"({e.code})" if isinstance(e, SystemExit) else "")
            stage = stage_of(e.__traceback__)
            excmsg = str(e)[:200]
    finally:
        lm.Model.update = orig
        os.chdir(cwd)
        logging.disable(logging.CRITICAL)
    # close a dangling output file of a run that died (the object is unreachable: collect it)
    import gc

    gc.collect()
    nfiles, nrec = count_records(d)
    obs = {"exception": exc, "stage": stage, "updates": calls[0], "out_files": nfiles, "records": nrec}
    if exc:
        obs["message"] = excmsg
    import shutil

    shutil.rmtree(d, ignore_errors=True)
    return obs


# ------------------------------------------------------------------------------------------------
# the property text: which faults does the description have (independent of the Coq model)
# ------------------------------------------------------------------------------------------------
def faults_of(desc):
    """list of the faults (property wording) present in the description"""
    out = []
    if desc["cf"] != "ok":
        out.append("configuration file " + desc["cf"])
    for name in ("time", "forcing", "release", "tracker", "output"):
        if desc["sec"][name] == "missing":
            out.append(f"mandatory section {name} missing")
        elif desc["sec"][name] == "null" and name != "tracker":
            out.append(f"mandatory section {name} empty")
    start, stop, dt = desc["start"], desc["stop"], desc["dt"]
    if desc["sec"]["time"] != "present":
        start = stop = dt = None
    if start is None:
        out.append("missing start")
    if stop is None:
        out.append("missing stop")
    if not dt:
        out.append("missing time step")
    if start is not None and stop is not None:
        if desc["rev"] and not stop < start:
            out.append("reversed run with stop not before start")
        if not desc["rev"] and stop < start:
            out.append("forward run with stop before start")
    # files
    gridfile_given = desc["grid_has_filename"]
    forcing_ok = desc["sec"]["forcing"] == "present" and desc["forcing_has_filename"] and desc["forcing_matches"] \
        and len(desc["files"]) > 0
    if not forcing_ok:
        out.append("no forcing file")
    if (gridfile_given and not desc["grid_file"]) or (not gridfile_given and not forcing_ok):
        out.append("no grid file")
    if desc["sec"]["release"] == "present":
        if not desc["rel_has_key"] or desc["rel_name_empty"]:
            out.append("no release file name")
        elif not desc["rel_file"]:
            out.append("release file missing")
    # subgrid
    if desc["subgrid"] is not None:
        i0, i1, j0, j1 = desc["subgrid"]
        imax, jmax = desc["imax"], desc["jmax"]
        i0, i1 = [x + imax if x < 0 else x for x in (i0, i1)]
        j0, j1 = [x + jmax if x < 0 else x for x in (j0, j1)]
        if not (1 <= i0 < i1 <= imax - 1 and 1 <= j0 < j1 <= jmax - 1):
            out.append("illegal subgrid")
    # forcing frames
    if forcing_ok:
        frames = [t for f in desc["files"] for t in f]
        if any(b <= a for a, b in zip(frames, frames[1:])):
            out.append("forcing frames not strictly increasing")
        if not frames:
            out.append("forcing without frames")
        elif start is not None and stop is not None:
            if min(frames) > min(start, stop) or max(frames) < max(start, stop):
                out.append("forcing does not cover the time window")
    # release
    if desc["sec"]["release"] == "present" and desc["rel_has_key"] and not desc["rel_name_empty"] and desc["rel_file"]:
        if desc["rel_pos"] == "none":
            out.append("release rows without a position")
        if desc["rel_pos"] in ("rowgap", "llgap"):
            out.append("a release row without a position")
        if start is not None and stop is not None:
            sg = -1 if desc["rev"] else 1
            inside = lambda t: sg * start <= sg * t < sg * stop  # noqa: E731
            if desc["rel_cont"] is None:
                ok = any(inside(t) for t in desc["rel_times"])
            else:
                # continuous: release instants are first + k * frequency (k >= 0) in simulation direction, the
                # first being the first file row that is before the stop time
                cand = [t for t in desc["rel_times"] if sg * t < sg * stop]
                ok = False
                if cand and desc["rel_cont"] > 0:
                    t = cand[0]
                    while sg * t < sg * stop:
                        if inside(t):
                            ok = True
                            break
                        t += sg * desc["rel_cont"]
            if not ok:
                out.append("no release inside the window")
    # output keys (not in the property's list, but mandatory arguments of the output module)
    if desc["sec"]["output"] == "present":
        if not desc["out_filename"]:
            out.append("output.filename missing")
        if desc["out_period"] is None:
            out.append("output.output_period missing")
        if not desc["out_ivars"]:
            out.append("output.instance_variables missing")
    if desc["sec"]["forcing"] == "present" and not desc["grid_has_module"] and not desc["forcing_has_module"]:
        out.append("no grid/forcing module")
    return out


def oracle(desc, obs):
    faults = faults_of(desc)
    if faults:
        if obs["updates"] > 0 or obs["records"] > 0:
            return (f"faulty set-up ({'; '.join(faults)}) was not refused at start-up: {obs['updates']} update() calls, "
                    f"{obs['records']} output records" + (f", then {obs['exception']}" if obs["exception"] else ", ran to the end"))
        if obs["exception"] is None:
            return f"faulty set-up ({'; '.join(faults)}) ended without an error (0 steps)"
        return None
    if obs["exception"] is not None:
        return (f"a set-up without any of the listed faults stopped with {obs['exception']}: {obs.get('message')} "
                f"(stage {STAGES[obs['stage']] if obs['stage'] >= 0 else '?'}, after {obs['updates']} updates)")
    nsteps = abs(desc["stop"] - desc["start"]) // desc["dt"]
    if obs["updates"] != nsteps:
        return f"valid set-up made {obs['updates']} update() calls, the window has {nsteps} steps"
    if obs["records"] == 0:
        return "valid set-up ran but left no output record"
    return None


# ------------------------------------------------------------------------------------------------
# encoding for Coq
# ------------------------------------------------------------------------------------------------
def opt(v):
    return [0, 0] if v is None else [1, int(v)]


def encode(desc, obs):
    sg = desc["subgrid"]
    out = [CF[desc["cf"]]]
    out += [SEC[desc["sec"][n]] for n in ("time", "forcing", "release", "tracker", "output")]
    out += [int(desc["grid_has_module"]), int(desc["grid_has_filename"]), int(desc["forcing_has_module"]),
            int(desc["forcing_has_filename"])]
    out += opt(desc["start"]) + opt(desc["stop"]) + [int(desc["dt"] or 0)] + opt(desc["ref"]) + [int(desc["rev"])]
    out += [int(desc["grid_file"]), desc["imax"], desc["jmax"]]
    out += [0, 0, 0, 0, 0] if sg is None else [1] + [int(x) for x in sg]
    out += [int(desc["rel_has_key"]), int(desc["rel_name_empty"]), int(desc["rel_file"]),
            int(desc["rel_pos"] in ("xy", "lonlat", "rowgap", "llgap")), int(desc["rel_pos"] not in ("rowgap", "llgap"))]
    out += opt(desc["rel_cont"])
    out += [int(desc["out_filename"])] + opt(desc["out_period"]) + [int(desc["out_ivars"])]
    files = desc["files"] if desc["forcing_matches"] else []
    out += [len(files)]
    for f in files:
        out += [len(f)] + [int(t) for t in f]
    out += [len(desc["rel_times"])] + [int(t) for t in desc["rel_times"]]
    out += [int(obs["exception"] is not None and obs["updates"] == 0), obs["stage"], obs["updates"], obs["records"]]
    return out


def eval_case(desc, ctx):
    obs = observe(desc, ctx)
    msg = oracle(desc, obs)
    faults = faults_of(desc)
    label = desc.get("label", [])
    base = "%s-%s-%s" % ("reversed" if desc["rev0"] else "forward", "multi" if desc["multi0"] else "single",
                         "continuous" if desc["cont0"] else "discrete")
    nt = None
    if label:
        nt = repr((base, label, desc["start"], desc["stop"], desc["dt"], desc["files"], desc["rel_times"]))
    kind = ("refused-" + (STAGES[obs["stage"]] if obs["stage"] >= 0 else "unknown")) if obs["exception"] and not obs["updates"] \
        else ("ran" if not obs["exception"] else "died-in-loop")
    ints = encode(desc, obs)
    if desc.get("scale"):
        if msg:
            msg = "scale case [" + ", ".join(label[1:]) + "]: " + msg
        if len(ints) > SCALE_COQ_MAX:
            ints = None  # too large for a Coq literal: decided by the oracle alone
        kind = "scale-" + kind
        faults = faults[:5]
    res = {"ints": ints, "oracle": msg, "nontrivial": nt, "kind": kind,
           "observed": dict(obs, faults=faults, label=label, base=base)}
    return res


# ------------------------------------------------------------------------------------------------
# generator
# ------------------------------------------------------------------------------------------------
def base_scenario(rng, rev, multi, cont, ragged=False):
    """ragged: the duration is NOT a whole number of time steps (the last dt/3 or dt - 1 s are not stepped)"""
    dt = rng.choice([60, 120, 300, 600])
    nsteps = rng.randint(4, 9)
    t_lo = rng.randint(100, 200) * 600
    extra = rng.choice([dt // 3, dt - 1]) if ragged else 0
    t_hi = t_lo + nsteps * dt + extra
    start, stop = (t_hi, t_lo) if rev else (t_lo, t_hi)
    sg = -1 if rev else 1
    # frames: spacing k*dt, pre-roll and post-roll of 0..2 frames, on or off the model time grid
    sp = rng.choice([1, 2, 3]) * dt
    pre, post = rng.randint(0, 2), rng.randint(0, 2)
    off = rng.choice([0, 0, dt // 2]) if pre and post else 0
    f0 = t_lo - pre * sp - off
    frames = [f0]
    while frames[-1] < t_hi or len(frames) < 2:
        frames.append(frames[-1] + sp)
    for _ in range(post):
        frames.append(frames[-1] + sp)
    if multi:
        nf = rng.randint(2, min(3, len(frames)))
        cuts = sorted(rng.sample(range(1, len(frames)), nf - 1))
        files = [frames[a:b] for a, b in zip([0] + cuts, cuts + [len(frames)])]
    else:
        files = [frames]
    # release
    if cont:
        freq = rng.choice([1, 2]) * dt
        first = start - sg * rng.choice([0, 0, 1, 3]) * freq
        rel_times = [first]
        if rng.random() < 0.5:
            rel_times.append(first + sg * 2 * freq)
    else:
        freq = None
        ks = sorted(rng.sample(range(0, nsteps), rng.randint(1, min(3, nsteps))))
        rel_times = [start + sg * k * dt for k in ks]
        if rng.random() < 0.4:  # rows outside the window as well (valid: they are ignored)
            rel_times = [start - sg * dt] + rel_times + [stop, stop + sg * dt]
    imax, jmax = rng.randint(7, 10), rng.randint(6, 9)
    subgrid = None
    r = rng.random()
    if r < 0.25:
        subgrid = [1, imax - 1, 1, jmax - 1]
    elif r < 0.4:
        subgrid = [1, -1, 1, -1]
    return {
        "rev0": rev, "multi0": multi, "cont0": cont, "label": ["ragged-duration"] if ragged else [],
        "cf": "ok", "sec": {n: "present" for n in ("time", "forcing", "release", "tracker", "output")},
        "grid_has_module": True, "grid_has_filename": rng.random() < 0.6, "forcing_has_module": True,
        "forcing_has_filename": True,
        "start": start, "stop": stop, "dt": dt, "ref": rng.choice([None, None, t_lo - 3600]), "rev": rev,
        "grid_file": True, "imax": imax, "jmax": jmax, "subgrid": subgrid,
        "files": files, "forcing_matches": True, "forcing_single_name": rng.random() < 0.5,
        "rel_has_key": True, "rel_name_empty": False, "rel_file": True, "rel_pos": rng.choice(["xy", "xy", "lonlat"]),
        "rel_times": rel_times, "rel_cont": freq,
        "out_filename": True, "out_period": rng.choice([1, 2]) * dt, "out_ivars": True,
    }


def refile(desc, frames):
    """put a new frame list into the files of desc keeping the number of frames per file where possible"""
    sizes = [len(f) for f in desc["files"]]
    out, k = [], 0
    for i, n in enumerate(sizes):
        if i == len(sizes) - 1:
            out.append(frames[k:])
        else:
            out.append(frames[k:k + n])
            k += n
    # no empty file in front/middle: merge
    out = [f for f in out if f] or [[]]
    desc["files"] = out


def lo_hi(desc):
    return min(desc["start"], desc["stop"]), max(desc["start"], desc["stop"])


def timed(desc):
    return desc["start"] is not None and desc["stop"] is not None and bool(desc["dt"])


# every injector takes (desc, rng) and edits desc in place; returns False when not applicable
def f_forcing_late(d, rng):
    if not timed(d):
        return False
    lo, _ = lo_hi(d)
    frames = [t for f in d["files"] for t in f]
    keep = [t for t in frames if t > lo + d["dt"]]
    refile(d, [lo + d["dt"]] + keep)


def f_forcing_early_end(d, rng):
    if not timed(d):
        return False
    _, hi = lo_hi(d)
    frames = [t for f in d["files"] for t in f]
    keep = [t for t in frames if t < hi - d["dt"]]
    refile(d, keep + [hi - d["dt"]])


def f_forcing_first_inside(d, rng):
    """first frame one second inside the true window [min(start, stop), max(start, stop)]"""
    if not timed(d):
        return False
    lo, _ = lo_hi(d)
    frames = [t for f in d["files"] for t in f]
    refile(d, [lo + 1] + [t for t in frames if t > lo + 1])


def f_forcing_last_inside(d, rng):
    """last frame one second inside the true window (with a ragged duration: inside the sub-dt gap)"""
    if not timed(d):
        return False
    _, hi = lo_hi(d)
    frames = [t for f in d["files"] for t in f]
    refile(d, [t for t in frames if t < hi - 1] + [hi - 1])


def f_forcing_last_at_step_end(d, rng):
    """last frame at the end of the last whole time step, min(start, stop) + Nsteps * dt: short of the window
    when the duration is ragged (a valid tight end otherwise)"""
    if not timed(d):
        return False
    lo, hi = lo_hi(d)
    end = lo + ((hi - lo) // d["dt"]) * d["dt"]
    frames = [t for f in d["files"] for t in f]
    refile(d, [t for t in frames if t < end] + [end])


def v_forcing_tight(d, rng):
    """valid neighbour: first frame exactly at the minimum time, last exactly at the maximum"""
    if not timed(d):
        return False
    lo, hi = lo_hi(d)
    frames = [t for f in d["files"] for t in f]
    mid = [t for t in frames if lo < t < hi]
    refile(d, [lo] + mid + [hi])


def f_swap_inside(d, rng):
    cand = [k for k, f in enumerate(d["files"]) if len(f) >= 2]
    if not cand:
        return False
    k = rng.choice(cand)
    i = rng.randrange(len(d["files"][k]) - 1)
    f = d["files"][k]
    f[i], f[i + 1] = f[i + 1], f[i]


def f_swap_boundary(d, rng):
    if len(d["files"]) < 2:
        return False
    k = rng.randrange(len(d["files"]) - 1)
    a, b = d["files"][k], d["files"][k + 1]
    a[-1], b[0] = b[0], a[-1]


def f_duplicate(d, rng):
    if len(d["files"]) >= 2:
        k = rng.randrange(len(d["files"]) - 1)
        d["files"][k + 1].insert(0, d["files"][k][-1])
    else:
        f = d["files"][0]
        i = rng.randrange(len(f))
        f.insert(i, f[i])


def _one_long_regular_file(d):
    """all frames in one file of at least six regularly spaced frames, times stated in seconds"""
    frames = sorted(t for f in d["files"] for t in f)
    if len(frames) < 2 or frames[1] == frames[0]:  # an earlier injection left nothing regular to extend
        return None
    sp = frames[1] - frames[0]
    while len(frames) < 6:
        frames.append(frames[-1] + sp)
    d["files"] = [frames]
    d["tunit"] = "s"
    return frames


def f_swap_interior(d, rng):
    """two frames swapped deep inside a long regular file: first, second and last time stamps are untouched"""
    fr = _one_long_regular_file(d)
    if fr is None:
        return False
    i = rng.randrange(2, len(fr) - 2)
    fr[i], fr[i + 1] = fr[i + 1], fr[i]
    if i + 1 == len(fr) - 1:
        return False


def f_dup_interior(d, rng):
    """a frame repeated in place of its successor deep inside a long regular file"""
    fr = _one_long_regular_file(d)
    if fr is None:
        return False
    i = rng.randrange(2, len(fr) - 2)
    fr[i + 1] = fr[i]
    if i + 1 == len(fr) - 1:
        return False


def f_no_start(d, rng):
    d["start"] = None


def f_no_stop(d, rng):
    d["stop"] = None


def f_no_dt(d, rng):
    d["dt"] = None


def f_dt_zero(d, rng):
    d["dt"] = 0


def f_flip(d, rng):
    d["rev"] = not d["rev"]


def f_start_eq_stop(d, rng):
    if not timed(d):
        return False
    d["stop"] = d["start"]


def sgn(d):
    return -1 if d["rev"] else 1


def f_rel_before(d, rng):
    if not timed(d):
        return False
    s = sgn(d)
    if d["rel_cont"] is not None:
        return False  # a continuous release that begins before the start is valid
    d["rel_times"] = [d["start"] - s * k * d["dt"] for k in (3, 1)]


def f_rel_after(d, rng):
    if not timed(d):
        return False
    s = sgn(d)
    d["rel_times"] = [d["stop"] + s * k * d["dt"] for k in (0, 1, 4)]


def f_rel_at_stop(d, rng):
    if not timed(d):
        return False
    d["rel_times"] = [d["stop"]]


def v_rel_at_start(d, rng):
    if not timed(d):
        return False
    d["rel_times"] = [d["start"]]


def v_rel_last_step(d, rng):
    if not timed(d):
        return False
    d["rel_times"] = [d["stop"] - sgn(d) * d["dt"]]


def v_rel_cont_before(d, rng):
    if not timed(d):
        return False
    if d["rel_cont"] is None:
        return False
    d["rel_times"] = [d["start"] - sgn(d) * 2 * d["rel_cont"]]


def f_rel_cont_gap(d, rng):
    """continuous release whose only file entry lies one step before the start and whose frequency is longer than
    what is left of the window: the repeated release instants first + k * frequency jump over the whole window"""
    if not timed(d):
        return False
    if d["rel_cont"] is None:
        return False
    nsteps = abs(d["stop"] - d["start"]) // d["dt"]
    d["rel_cont"] = (nsteps + 3) * d["dt"]
    d["rel_times"] = [d["start"] - sgn(d) * d["dt"]]


def f_rel_nopos(d, rng):
    d["rel_pos"] = "none"


def f_rel_rowgap(d, rng):
    d["rel_pos"] = "rowgap"


def f_rel_llgap(d, rng):
    d["rel_pos"] = "llgap"


def f_rel_missing(d, rng):
    d["rel_file"] = False


def f_rel_empty_name(d, rng):
    d["rel_name_empty"] = True


def f_rel_nokey(d, rng):
    d["rel_has_key"] = False


def f_forcing_nomatch(d, rng):
    d["forcing_matches"] = False
    d["grid_has_filename"] = True


def f_forcing_nomatch_inferred(d, rng):
    d["forcing_matches"] = False
    d["grid_has_filename"] = False


def f_forcing_noframes(d, rng):
    d["files"] = [[]]


def f_grid_missing(d, rng):
    d["grid_has_filename"] = True
    d["grid_file"] = False


def mk_sec(name, how):
    def f(d, rng):
        d["sec"][name] = how
    f.__name__ = f"f_sec_{name}_{how}"
    return f


def mk_flag(key, name=None):
    def f(d, rng):
        d[key] = False
    f.__name__ = "f_no_" + (name or key)
    return f


def f_grid_nofilename_valid(d, rng):
    d["grid_has_filename"] = False


def f_forcing_nomodule(d, rng):
    d["forcing_has_module"] = False
    d["grid_has_module"] = False


def v_forcing_nomodule_gridmodule(d, rng):
    d["forcing_has_module"] = False
    d["grid_has_module"] = True


def f_out_noperiod(d, rng):
    d["out_period"] = None


def mk_cf(how):
    def f(d, rng):
        d["cf"] = how
    f.__name__ = "f_cf_" + how
    return f


def mk_sub(kind):
    def f(d, rng):
        imax, jmax = d["imax"], d["jmax"]
        d["subgrid"] = {
            "i_order": [4, 4, 1, jmax - 1],
            "i_order2": [5, 3, 1, jmax - 1],
            "j_order": [1, imax - 1, 3, 2],
            "i_beyond": [1, imax, 1, jmax - 1],
            "j_beyond": [1, imax - 1, 1, jmax + 2],
            "zero": [0, imax - 1, 1, jmax - 1],
            "neg_beyond": [-(imax + 3), imax - 1, 1, jmax - 1],
            "neg_j_order": [1, imax - 1, -1, -2],
            "legal_neg": [-(imax - 1), -1, -(jmax - 2), -1],
            "legal_inner": [2, imax - 2, 1, jmax - 2],
        }[kind]
    f.__name__ = "f_subgrid_" + kind
    return f


INJECTORS = [
    f_forcing_late, f_forcing_early_end, f_forcing_first_inside, f_forcing_last_inside, f_forcing_last_at_step_end,
    v_forcing_tight, f_swap_inside, f_swap_boundary, f_duplicate, f_swap_interior, f_dup_interior,
    f_no_start, f_no_stop, f_no_dt, f_dt_zero, f_flip, f_start_eq_stop,
    f_rel_before, f_rel_after, f_rel_at_stop, v_rel_at_start, v_rel_last_step, v_rel_cont_before, f_rel_cont_gap,
    f_rel_nopos, f_rel_rowgap, f_rel_llgap, f_rel_missing, f_rel_empty_name, f_rel_nokey,
    f_forcing_nomatch, f_forcing_nomatch_inferred, f_forcing_noframes, f_grid_missing,
    *[mk_sec(n, "missing") for n in ("time", "forcing", "release", "tracker", "output")],
    *[mk_sec(n, "null") for n in ("time", "forcing", "release", "tracker", "output")],
    mk_flag("forcing_has_filename"), f_grid_nofilename_valid, f_forcing_nomodule, v_forcing_nomodule_gridmodule,
    mk_flag("out_filename"), f_out_noperiod, mk_flag("out_ivars"),
    mk_cf("missing"), mk_cf("badsyntax"), mk_cf("badversion"),
    *[mk_sub(k) for k in ("i_order", "i_order2", "j_order", "i_beyond", "j_beyond", "zero", "neg_beyond",
                          "neg_j_order", "legal_neg", "legal_inner")],
]


# injected into the base scenarios with a ragged duration (the window ends are what differs there)
RAGGED_INJECTORS = [
    f_forcing_late, f_forcing_early_end, f_forcing_first_inside, f_forcing_last_inside, f_forcing_last_at_step_end,
    v_forcing_tight, f_rel_at_stop, v_rel_last_step,
]


def inject(base, injs, rng):
    d = copy.deepcopy(base)
    for f in injs:
        try:
            r = f(d, rng)
        except TypeError:  # an earlier injection removed start/stop/dt: this one has nothing to work on
            return None
        if r is False:
            return None
        d["label"] = d["label"] + [f.__name__]
    return d


def gen_cases(ctx):
    rng = ctx.rng
    import c20_scale

    # the deterministic family at scale comes first (it draws nothing from rng: the cases below are those of before)
    cases = c20_scale.gen_scale_cases()
    rounds = 1 if ctx.quick else 3
    for _ in range(rounds):
        for rev in (False, True):
            for multi in (False, True):
                for cont in (False, True):
                    base = base_scenario(rng, rev, multi, cont)
                    cases.append(base)
                    for f in INJECTORS:
                        d = inject(base, [f], rng)
                        if d is not None:
                            cases.append(d)
                    npairs = 2 if ctx.quick else 40
                    for _k in range(npairs):
                        f, g = rng.sample(INJECTORS, 2)
                        d = inject(base, [f, g], rng)
                        if d is not None:
                            cases.append(d)
                    # the same scenario class with a duration that is not a whole number of steps
                    base = base_scenario(rng, rev, multi, cont, ragged=True)
                    cases.append(base)
                    for f in (RAGGED_INJECTORS if ctx.quick else INJECTORS):
                        d = inject(base, [f], rng)
                        if d is not None:
                            cases.append(d)
    return cases
