"""C08 — restart transparency: a warm start continues as if the run never stopped."""
from __future__ import annotations

import numpy as np

import c08_impl
import c08_opts
import c08_scale
import run_ladim as rl
import setup_impl as su
import sim_impl as si

PROP = "C08"
THEOREM_FILE = "Props/C08.v"
CHECKER = "Corr.SysRun"
SHARD = 4
RULE = ("This property is a differential statement, so the oracle is the real thing: generated scenarios (depth-dependent "
        "time-varying current, continuous or discrete release, deaths by IBM lifetime and at the open boundary, IBM "
        "state 'age', scalar forcing 'temp', particle variable release_time, durations that are / are not multiples of "
        "the period) are run split over several files, then restarted from EVERY file boundary through "
        "ladim.main.main, and all later files are compared record by record (particle sets, pids, X, age, temp, "
        "particle variables, number of files) with the uninterrupted run. The EF scenarios are also compared exactly "
        "with the executable Sim instance in Coq (cold run and each warm run). RK2/RK4 and continuous-release scenarios "
        "are oracle-only. Non-trivial = restart point after which a particle dies and another is released. "
        "A fixed family of SCALE cases (c08_scale.py, oracle-only, always first) states the same differential property for "
        "every record after the restart on whole arrays: restart files of > 100 000 particle instances whose youngest "
        "particles die in their first records (no particle variables: the identifiers of later releases), a last record "
        "of > 100 000 particles, 130 records per file, > 60 000 particles released continuously of which 7500 alive, "
        "70 000 dead particles in the particle variables, > 1000 steps between records and forcing frames, file "
        "numbers passing 999 -> 1000, a reference time decades before the run. "
        "A fixed family of OPTION-COMBINATION cases (c08_opts.py, oracle-only, right after the scale cases) states the same "
        "differential property for set-ups that cover PAIRWISE the options on the path of a warm start: EF/RK2/RK4, output "
        "(= restart file) variables stored as f8, f4, packed (scale_factor / add_offset on Z only or on every variable) or "
        "integer-typed, time reversal, subgrid, continuous release, lon/lat output variables, no / one / two particle "
        "variables, an extra instance variable from the release file, forcing stored as f8 / f4 / packed in one or three "
        "files, YAML / TOML configuration, release columns named by a header, grid file named / omitted / separate, "
        "three (duration, period, numrec) splits, default / explicit reference time; all values are dyadic by construction "
        "so that every encoding is lossless for them and the comparison is the usual one (identifiers exact, 1e-9).")
TRUSTED = ["Coq 8.16.1 kernel + vm_compute", "system model coq/Model/Sim.v (restore, catch-up step, loop) with its executable instance tied by this correspondence",
           "physics abstract in the theorem (per-particle function of the step)"]
ASSUMPTIONS = ["diffusion off", "all state variables written to the output and listed as warm-start variables, datatypes / packings that are lossless for the values written (f8/i4; f4, i2/i4 with scale_factor/add_offset only with values exactly representable in them)",
               "KNOWN FINDING: the number of released particles cannot be restored from a file without particle variables"]


def gen_cases(ctx):
    rng = ctx.rng
    # deterministic scale cases, always present and first (they do not draw from rng)
    out = c08_scale.gen_scale_cases()
    # deterministic option-combination cases (a fixed pairwise-covering table, no draw from rng), always right after them
    out += c08_opts.gen_opts_cases()
    for _ in range(7 if ctx.quick else 60):
        env = si.make_env(rng, N=rng.randint(5, 11))
        out.append({"k": "sim", "env": env, "numrec": rng.choice([1, 2, 2, 3]), "seed": rng.randrange(10**6)})
    for ci in range(4 if ctx.quick else 40):
        N = rng.randint(6, 14)
        rows = [[0, 3.0, 3.0, 20.0]] + [[rng.randrange(0, N) * 600, 3.0 + rng.randint(0, 8) / 4, 3.0 + rng.randint(0, 4) / 4, rng.choice([20.0, 70.0])]
                                        for _ in range(rng.randint(0, 3))]
        rows.sort(key=lambda r: r[0])
        out.append({"k": "impl", "sc": {"N": N, "p": rng.choice([1, 2, 3]), "numrec": rng.choice([1, 2, 3]), "dt": 600,
                                         "adv": rng.choice(["EF", "RK2", "RK4"]), "lifetime": rng.choice([None, 1800, 3000]),
                                         "rows": rows, "continuous": rng.choice([None, None, 600, 1200]), "u": rng.choice([0.1, 0.3, 0.6]),
                                         # output reference time: the start, before it, inside the run, after its end, or the
                                         # default (None: each run's own start, so the restarted run has a different one)
                                         "reference": [N * 600 + 7200, (N // 2) * 600 + 300, None, -86400, 0][ci % 5],
                                         "offgrid": ci % 2 == 1},
                    "seed": rng.randrange(10**6)})
    # fixed: restarts at steps 2, 4, 6 of 8; the middle forcing frame a quarter step after step 4, so that the run restarted
    # at step 6 has a frame 1.75 steps BEFORE its start (a negative, fractional frame step) and the one restarted at
    # step 4 has it a quarter step after its start
    out.append({"k": "impl", "sc": {"N": 8, "p": 1, "numrec": 2, "dt": 600, "adv": "RK2", "lifetime": None,
                                     "rows": [[0, 3.0, 3.0, 20.0], [1200, 4.0, 3.5, 70.0]], "continuous": None, "u": 0.3,
                                     "reference": 0, "offgrid": True}, "seed": 8})
    # fixed: the only particle dies at age 1800 s, so the second file holds the records of steps 2 (one particle) and 3
    # (NO particle); a restart from that EMPTY last record must go on with the releases of steps 5 and 6
    out.append({"k": "impl", "sc": {"N": 8, "p": 1, "numrec": 2, "dt": 600, "adv": "EF", "lifetime": 1800,
                                     "rows": [[0, 3.0, 3.0, 20.0], [3000, 4.0, 3.5, 70.0], [3600, 5.0, 3.25, 20.0]], "continuous": None,
                                     "u": 0.3, "reference": None, "offgrid": False}, "seed": 9})
    # fixed: continuous release every step and a half (ticks midway between two model steps), restarts at steps 2 (even)
    # and 5 (odd): a tick belongs to the same step of the uninterrupted and of the restarted run
    out.append({"k": "impl", "sc": {"N": 9, "p": 1, "numrec": 3, "dt": 600, "adv": "RK2", "lifetime": 3000,
                                     "rows": [[0, 3.0, 3.0, 20.0]], "continuous": 900, "u": 0.3, "reference": 0, "offgrid": False},
                "seed": 10})
    # whole set-ups (Model/Setup.v, SetupWarm.v): irregular frames in several files, forward and reversed clocks,
    # multiplicities; the split run and a restart from every file boundary against the model's restarted run
    for q in range(6 if ctx.quick else 60):
        out.append({"k": "setup", "setup": su.gen_setup(rng), "numrec": rng.choice([1, 2, 2, 3]), "seed": rng.randrange(10**6)})
    return out


def eval_case(desc, ctx):
    d = ctx.subdir("c08")
    for f in d.glob("*"):
        f.unlink()
    if desc["k"] == "scale":
        return c08_scale.eval_scale(desc, d)
    if desc["k"] == "opts":
        return c08_opts.eval_opts(desc, d)
    if desc["k"] == "impl":
        return eval_impl(desc, d)
    if desc["k"] == "setup":
        cases, problems, nt = su.eval_restart(desc["setup"], d, desc["numrec"])
        return {"ints": cases, "oracle": "; ".join(problems[:3]) or None, "nontrivial": (desc["seed"], "setup") if nt else None,
                "kind": "setup-restart-" + ("rev" if desc["setup"]["rev"] else "fwd"),
                "observed": {"frames": desc["setup"]["fsteps"], "numrec": desc["numrec"], "restarts": len(cases) - 1,
                             "adv": su.ADV[int(desc["setup"].get("adv", 0))]}}
    env, numrec = desc["env"], desc["numrec"]
    cold, files, conf = si.run_forward(d, env, "cold", numrec=numrec)
    runs = [si.enc_run(0, 0, cold)]
    problems = []
    nontriv = False
    for fi in range(len(files) - 1):
        last = [r for r in cold if r["file"] == files[fi].name][-1]
        try:
            warm, wfiles = si.run_warm(d, env, f"w{fi}", conf, files[fi], fi + 1)
        except BaseException as e:  # noqa: BLE001
            problems.append(f"restart after {files[fi].name} failed: {type(e).__name__}: {e}")
            continue
        want = [r for r in cold if r["step"] > last["step"]]
        runs.append(si.enc_run(2, last["step"], warm))
        problems += compare(want, warm, files[fi + 1:], wfiles, files[fi].name)
        pw = {q for r in want for q, *_ in r["rows"]}; p0 = {q for q, *_ in last["rows"]}
        if (p0 - pw) and (pw - p0):
            nontriv = True
    ints = [0] + si.enc_env(env) + [len(runs)] + [x for r in runs for x in r]
    return {"ints": ints, "oracle": "; ".join(problems[:3]) or None, "nontrivial": (desc["seed"],) if nontriv else None,
            "kind": f"sim-numrec{numrec}", "observed": {"files": len(files), "records": len(cold)}}


def compare(want, warm, cold_files, warm_files, restart_name):
    problems = []
    if len(warm) != len(want):
        problems.append(f"restart after {restart_name}: {len(warm)} records written, the uninterrupted run writes {len(want)} after that file")
    for a, b in zip(want, warm):
        if a["step"] != b["step"] or a["time"] != b["time"]:
            problems.append(f"restart after {restart_name}: record time {b['time']} != {a['time']}")
        if a["rows"] != b["rows"] or a["Z"] != b["Z"] or a["Y"] != b["Y"]:
            problems.append(f"restart after {restart_name}: record at step {a['step']}: {b['rows']} != uninterrupted {a['rows']}")
    if len(warm_files) != len(cold_files):
        problems.append(f"restart after {restart_name}: {len(warm_files)} files, uninterrupted run has {len(cold_files)} more")
    for cf, wf in zip(cold_files, warm_files):
        a, b = rl.read_sparse(cf), rl.read_sparse(wf)
        if len(a["records"]) != len(b["records"]):
            problems.append(f"restart after {restart_name}: {wf.name} has {len(b['records'])} records, {cf.name} has {len(a['records'])}")
        for v in a["pvars"]:
            x, y = np.asarray(b["pvars"].get(v, [])), np.asarray(a["pvars"][v])
            if x.shape != y.shape or not np.allclose(x, y, equal_nan=True, rtol=0, atol=0):
                problems.append(f"restart after {restart_name}: particle variable {v} in {wf.name} {x.tolist()} != {y.tolist()}")
        if cf.name.split("_")[-1] != wf.name.split("_")[-1]:
            problems.append(f"restart after {restart_name}: file numbering {wf.name} vs {cf.name}")
    return problems


def eval_impl(desc, d):
    sc = desc["sc"]
    cold, warm = c08_impl.run_split_and_restarts(d, sc)
    problems = []
    for r, w in warm.items():
        problems += [f"restart after file {r}: {m}" for m in c08_impl.compare(cold, w, r)]
    res = {"ints": None, "oracle": "; ".join(problems[:3]) or None, "nontrivial": (desc["seed"],) if len(cold) > 2 else None,
           "kind": f"impl-{sc.get('adv', 'EF')}-{'cont' if sc.get('continuous') else 'disc'}", "observed": {"files": len(cold)}}
    # the known finding: restart file without particle variables whose highest pids are dead
    if (problems and sc.get("pvars", True) is False and sc.get("restart_only") == 1 and all(("pid" in m) for m in problems)
            and desc.get("origin", "").startswith("corpus/C08/pid_reuse_no_pvars")):
        res["finding_key"] = "pid-reuse-no-particle-dimension"
    return res
