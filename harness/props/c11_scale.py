"""C11 at scale — the clauses of the property on clouds and runs of realistic size (oracle only).

The small runs of c11.py replay every draw; they cannot reach the sizes at which a real simulation works.  The cases
here run the REAL tracker (State + Tracker on the stub grid of c11.py, and once the whole of ladim.main) with

  * many particles in one step: sizes straddling powers of two and round decimal numbers, 1000 .. 262145,
  * a particle number that grows during the run across such sizes,
  * many steps (more than a thousand) of a moderate cloud,

and decide, for EVERY particle, step and direction of the run:

  independence   the random displacements e[s, p] (step s, particle p) of a direction are uncorrelated with
                 e'[s + ls, p + lp] of the same or another direction for ALL lags (ls, lp) at once (the whole
                 cross-correlation is one FFT), each lag a test at 7.5 sigma of its own sampling error; and no two
                 particles of a point release receive the same (or the opposite) displacement in a step — the
                 displacements are continuous variates, a tie has probability ~1e-8;
  moments        every step: mean 0 and variance 2*D*dt (metres squared, with the spacing of the cell the particle is
                 in) at 6 sigma; windows of 100 steps of the long run likewise; the cloud as a whole 2*D*t.

Nothing here knows how the tracker draws its numbers: a blocked, threaded, cached or re-ordered generation that keeps
the variates independent passes; the statistics are computed from positions read off State (or the output file).
"""
from __future__ import annotations

import math

import numpy as np

THR = 7.5  # sigma, per lag: two-sided tail 6.4e-14; at most ~1e7 lags are tested in a quick check
MINPAIRS = 1000  # lags with fewer products are not judged (the sum of few products of normals has heavy tails)

# ---- which cases ---------------------------------------------------------------------------------
SIZES = [1000, 1024, 1025, 4096, 4097, 5000, 10000, 16384, 16385, 20000, 32768, 40000, 65537, 70000, 100000, 130000, 200000, 262145]
PARAMS = [  # D, Dz, dt, dx0, dy0: the step is 0.04 .. 5 grid units, so that clouds also spread over cells of different spacing
    (1.0, 1.0e-3, 600, 800.0, 800.0),
    (100.0, 1.0e-2, 3600, 160.0, 160.0),
    (0.1, 1.0e-4, 60, 4.0, 4.0),
    (10.0, 1.0, 300, 20000.0, 20000.0),
]


def scale_cases(quick=True):
    out = []
    for i, n in enumerate(SIZES):
        D, Dz, dt, dx0, dy0 = PARAMS[i % len(PARAMS)]
        mode = ["hv", "hv", "h", "hv", "v"][i % 5]
        out.append({"k": "scale", "what": "particles", "mode": mode, "D": D if "h" in mode else 0.0, "Dz": Dz if "v" in mode else 0.0,
                    "dt": dt, "dx0": dx0, "dy0": dy0, "ns": [n, n], "seed": 7001 + n})
    # the particle number grows during the run, across powers of two and round numbers
    for j, ns in enumerate([[3000, 5000, 9000, 17000], [16000, 33000, 66000], [20000, 40000, 70000, 70000]]):
        D, Dz, dt, dx0, dy0 = PARAMS[j % len(PARAMS)]
        out.append({"k": "scale", "what": "growing", "mode": "hv", "D": D, "Dz": Dz, "dt": dt, "dx0": dx0, "dy0": dy0, "ns": ns, "seed": 9001 + j})
    # late in the life of a run: more than a thousand steps
    out.append({"k": "scale", "what": "steps", "mode": "hv", "D": 1.0, "Dz": 1.0e-3, "dt": 600, "dx0": 800.0, "dy0": 800.0,
                "ns": [512] * 1100, "seed": 424242})
    out.append({"k": "scale", "what": "steps", "mode": "hv", "D": 10.0, "Dz": 1.0e-2, "dt": 60, "dx0": 100.0, "dy0": 100.0,
                "ns": [100] * 2500, "seed": 434343})
    # the whole program: a point release of 40000 particles through ladim.main, positions from the output file
    out.append({"k": "scalemain", "n": 40000, "D": 2.0, "dt": 60, "dx": 100.0, "steps": 3})
    return out


# ---- statistics ----------------------------------------------------------------------------------
def fastlen(n):
    """the smallest 2^a 3^b 5^c >= n"""
    best = 1 << max(n - 1, 0).bit_length()
    p5 = 1
    while p5 < best:
        p35 = p5
        while p35 < best:
            q = p35
            while q < n:
                q *= 2
            best = min(best, q)
            p35 *= 3
        p5 *= 5
    return best


def worst_lag(FA, FB, cnt, fs, fp, same):
    """FA, FB: transforms of two (S, N) arrays of standardised displacements (zero where the particle is not yet
    released), zero-padded to (fs, fp) so that no lag wraps around; C[ls, lp] = sum over s, p of A[s, p] * B[s + ls, p + lp];
    cnt[ls, lp] the number of products in that sum.  Returns (z, ls, lp, pairs) of the lag whose sum is the largest in
    units of its sampling error sqrt(pairs); lags with fewer than MINPAIRS products, and lag (0, 0) of an array with
    itself, are left out."""
    C = np.fft.irfft2(np.conj(FA) * FB, s=(fs, fp))
    ok = cnt >= MINPAIRS
    if same:
        ok[0, 0] = False
    if not ok.any():
        return 0.0, 0, 0, 0
    T = np.where(ok, np.abs(C) / np.sqrt(np.maximum(cnt, 1.0)), 0.0)
    k = int(np.argmax(T))
    a, b = divmod(k, fp)
    z = float(C[a, b] / math.sqrt(cnt[a, b]))
    return z, (a if a < fs - a else a - fs), (b if b < fp - b else b - fp), int(cnt[a, b])


def independence(E, M, label):
    """E: {direction: (S, N) displacement array in units of the property's standard deviation}, M: None or the (S, N)
    mask of the entries that exist.  All lags (steps and particles), all pairs of directions.  Returns a list of problems."""
    problems = []
    names = [d for d in "XYZ" if d in E]
    if not names:
        return problems
    S, N = E[names[0]].shape
    fs, fp = fastlen(2 * S - 1), fastlen(2 * N - 1)
    if M is None:
        ls = np.minimum(np.arange(fs), fs - np.arange(fs))
        lp = np.minimum(np.arange(fp), fp - np.arange(fp))
        cnt = (np.clip(S - ls, 0, None)[:, None] * np.clip(N - lp, 0, None)[None, :]).astype(float)
    else:
        FM = np.fft.rfft2(M.astype(float), s=(fs, fp))
        cnt = np.rint(np.fft.irfft2(np.conj(FM) * FM, s=(fs, fp)))
    F = {}
    for d in names:
        n = E[d].size if M is None else int(M.sum())
        rms = math.sqrt(float((E[d] ** 2).sum()) / max(n, 1))
        F[d] = np.fft.rfft2(E[d] / rms if rms > 0 else E[d], s=(fs, fp))
    for i, a in enumerate(names):
        for c in names[i:]:
            z, ls, lp, pairs = worst_lag(F[a], F[c], cnt, fs, fp, a == c)
            if abs(z) > THR:
                r = z / math.sqrt(pairs)
                problems.append(f"{label}: random {a} displacement of particle i in step s and {c} displacement of particle i{lp:+d} in step s{ls:+d} "
                                f"are correlated: r = {r:.4f} over {pairs} pairs, {z:.1f} sampling errors (independent: |.| <= {THR})")
    return problems


def ties(values, label, allow=0):
    """no two entries equal in magnitude (continuous, independent variates)"""
    a = np.sort(np.abs(np.asarray(values, dtype=float)))
    dup = int((a[1:] == a[:-1]).sum())
    if dup > allow:
        return [f"{label}: only {len(np.unique(a))} distinct magnitudes among {len(a)} displacements ({dup} exact repetitions): "
                f"particles do not move independently"]
    return []


# ---- State + Tracker on the stub grid ----------------------------------------------------------------
def eval_scale(desc, ctx):
    import c11

    D, Dz, dt, ns = desc["D"], desc["Dz"], desc["dt"], desc["ns"]
    S, N = len(ns), max(ns)
    sd, sdz = c11.scales(D, Dz, dt)
    dxt = desc["dx0"] * np.array([1.0, 1.25, 1.5, 1.75])
    dyt = desc["dy0"] * np.array([1.0, 1.5, 2.0, 2.5])
    z0v = 16.0 * sdz * dt * math.sqrt(S) if sdz > 0 else 5.0
    h = np.full(N, 4.0 * z0v + 10.0)
    zero = np.zeros(N)
    tr, state = c11.make_tracker(D, Dz, dt, False, False, dxt, dyt, h, zero, zero, zero, desc["seed"])
    sig2 = {"X": 2 * D * dt, "Y": 2 * D * dt, "Z": 2 * Dz * dt}
    dirs = [d for d in "XYZ" if sig2[d] > 0]
    label = f"{desc['what']} case, {ns[0]}..{N} particles, {S} steps" if ns[0] != N else f"{desc['what']} case, {N} particles, {S} steps"
    E = {d: np.zeros((S, N)) for d in dirs}
    M = np.zeros((S, N), dtype=bool)
    problems = []
    n = 0
    for s in range(S):
        if ns[s] > n:  # a point release: everybody starts in the same place
            state.append(X=np.zeros(ns[s] - n), Y=np.zeros(ns[s] - n), Z=np.full(ns[s] - n, z0v))
            new = slice(n, ns[s])
            n = ns[s]
        else:
            new = None
        b = {"X": np.array(state.X, dtype=float), "Y": np.array(state.Y, dtype=float), "Z": np.array(state.Z, dtype=float)}
        mdx, mdy = c11.metric_at(dxt, dyt, b["X"], b["Y"])
        tr.update()
        if len(state.X) != n or not np.asarray(state.alive).all():
            return {"ints": None, "oracle": f"{label}: particles lost in step {s}", "nontrivial": None, "kind": "scale", "observed": {}}
        met = {"X": mdx, "Y": mdy, "Z": 1.0}
        for d in "XYZ":
            e = (np.asarray(state[d], dtype=float) - b[d]) * met[d]  # metres
            if sig2[d] <= 0:
                if np.abs(e).max() > 0:
                    problems.append(f"{label}: step {s} {d}: coefficient 0 but particles moved by up to {np.abs(e).max()} m")
                continue
            E[d][s, :n] = e / math.sqrt(sig2[d])
        M[s, :n] = True
        if new is not None and (new.stop - new.start) >= 2:
            # the newly released particles all left the same point over the same cell: their new coordinates ARE their
            # displacements (X, Y: exactly, the start is 0; Z: up to the rounding of the sum with the start depth)
            if D > 0:
                xs, ys, k = np.asarray(state.X)[new], np.asarray(state.Y)[new], new.stop - new.start
                t = (ties(xs, f"{label}: step {s}, X displacements of the {k} particles released in one point")
                     or ties(ys, f"{label}: step {s}, Y displacements of the {k} particles released in one point")
                     or ties(np.concatenate([xs, ys]), f"{label}: step {s}, X and Y displacements (pooled) of the {k} particles released in one point"))
                problems += t
            if Dz > 0:
                problems += ties(np.asarray(state.Z)[new] - z0v, f"{label}: step {s}, vertical displacements of the {new.stop - new.start} particles released in one point", allow=2)
        if len(problems) > 3:
            break
    full = bool(M.all())
    # moments: every step when the cloud is large, windows of 100 steps in the long run
    win = 1 if N >= 1000 else 100
    for d in dirs:
        for s0 in range(0, S, win):
            sel = M[s0:s0 + win]
            e = E[d][s0:s0 + win][sel]
            m = e.size
            if m < 1000:
                continue
            where = f"step {s0}" if win == 1 else f"steps {s0}..{min(S, s0 + win) - 1}"
            if abs(e.mean()) > 6.5 / math.sqrt(m):
                problems.append(f"{label}: {where}: mean {d} displacement {e.mean() * math.sqrt(sig2[d]):.6g} m over {m} draws, beyond 6.5 sigma of zero")
            if abs((e * e).mean() - 1.0) > 6.5 * math.sqrt(2.0 / m):
                problems.append(f"{label}: {where}: variance of the {d} displacement {(e * e).mean() * sig2[d]:.6g} m2 over {m} draws, 2*D*dt = {sig2[d]:.6g}")
    # the cloud after the whole run: variance 2*D*t for the particles that were there from the start
    n0 = ns[0]
    summary = {}
    for d in dirs:
        tot = E[d][:, :n0].sum(axis=0) / math.sqrt(S)
        summary[d] = {"cloud_var_over_2Dt": float((tot * tot).mean()), "mean": float(tot.mean())}
        if n0 >= 100:
            if abs((tot * tot).mean() - 1.0) > 6.5 * math.sqrt(2.0 / n0):
                problems.append(f"{label}: cloud variance in {d} after t = {S * dt} s is {(tot * tot).mean():.4f} times 2*D*t")
            if abs(tot.mean()) > 6.5 / math.sqrt(n0):
                problems.append(f"{label}: cloud mean in {d} after t = {S * dt} s is {tot.mean():.4f} standard deviations sqrt(2*D*t) from the release point")
    if len(problems) <= 3:
        problems += independence(E, None if full else M, label)
    close = getattr(tr, "close", None)
    if callable(close):
        close()
    return {"ints": None, "oracle": "; ".join(problems[:3]) or None,
            "nontrivial": ("scale", desc["what"], desc["mode"], tuple(ns[:4]), S, desc["seed"]),
            "kind": f"scale-{desc['what']}", "observed": summary}


# ---- the whole program -----------------------------------------------------------------------------
def eval_scalemain(desc, ctx):
    """through ladim.main: a point release of tens of thousands of particles in still water with horizontal diffusion;
    the displacements between consecutive output records (one step apart), particle by particle"""
    import romsfiles as rf
    import run_ladim as rl
    from netCDF4 import Dataset

    d = ctx.subdir("c11scale")
    for f in d.glob("*"):
        f.unlink()
    n, D, dt, dx, steps = desc["n"], desc["D"], desc["dt"], desc["dx"], desc["steps"]
    rf.write_roms(d / "f.nc", imax=60, jmax=40, N=2, times=[0, (steps + 2) * dt], u=0.0, v=0.0, h=100.0, dx=dx)
    rf.write_release(d / "r.rls", [[0, n, 30.0, 20.0, 5.0]])
    conf = rf.base_config(start=0, stop=(steps + 1) * dt, dt=dt, forcing_file=d / "f.nc", release_file=d / "r.rls", out_file=d / "out.nc",
                          names=("release_time", "mult", "X", "Y", "Z"), advection="", output_period=dt)
    conf["tracker"]["diffusion"] = D
    rl.run_main(conf, d)
    label = f"ladim.main, {n} particles released in one point, {steps} steps"
    with Dataset(d / "out.nc") as nc:
        nc.set_auto_mask(False)
        pc = np.asarray(nc.variables["particle_count"][:], dtype=int)
        pid = np.asarray(nc.variables["pid"][:], dtype=int)
        X = np.asarray(nc.variables["X"][:], dtype=float)
        Y = np.asarray(nc.variables["Y"][:], dtype=float)
    for f in d.glob("*"):
        f.unlink()
    problems = []
    if len(pc) != steps + 1 or not (pc == n).all():
        problems.append(f"{label}: particle counts of the records {pc.tolist()[:6]}, expected {steps + 1} records of {n}")
        return {"ints": None, "oracle": problems[0], "nontrivial": None, "kind": "scale-main", "observed": {}}
    pos = {}
    for k in range(steps + 1):
        sl = slice(k * n, (k + 1) * n)
        order = np.argsort(pid[sl], kind="stable")
        if not np.array_equal(pid[sl][order], np.arange(n)):
            return {"ints": None, "oracle": f"{label}: record {k} does not hold the particles 0..{n - 1} once each", "nontrivial": None,
                    "kind": "scale-main", "observed": {}}
        pos[k] = (X[sl][order], Y[sl][order])
    amp = math.sqrt(2 * D * dt) / dx
    E = {"X": np.array([(pos[k + 1][0] - pos[k][0]) / amp for k in range(steps)]),
         "Y": np.array([(pos[k + 1][1] - pos[k][1]) / amp for k in range(steps)])}
    for name in "XY":
        for k in range(steps):
            e = E[name][k]
            if abs(e.mean()) > 6.5 / math.sqrt(n):
                problems.append(f"{label}: step {k}: mean {name} displacement {e.mean():.4f} standard deviations")
            if abs((e * e).mean() - 1.0) > 6.5 * math.sqrt(2.0 / n):
                problems.append(f"{label}: step {k}: variance of the {name} displacement is {(e * e).mean():.4f} times 2*D*dt/dx^2")
    problems += ties(np.concatenate([E["X"][0], E["Y"][0]]), f"{label}: first step", allow=2)
    problems += independence(E, None, label)
    return {"ints": None, "oracle": "; ".join(problems[:3]) or None, "nontrivial": ("scalemain", n, D, dt), "kind": "scale-main",
            "observed": {"var_over_2Ddt": [float((E[a][k] ** 2).mean()) for a in "XY" for k in range(steps)]}}
