"""C18 — one simulation, three spellings (YAML v2, TOML v2, legacy YAML v1).

A case is an abstract description S of a simulation in the version-1 vocabulary.  The harness
renders it BY HAND into real files (v1 YAML, v2 YAML, v2 TOML, and v2 YAML files whose optional sections
are present but empty / present without content = null) in a scratch directory that contains real synthetic forcing files, calls the
real `ladim.configure.configure(file)` on each, and

* writes for Coq: S, the tree the parser (yaml / tomli, as used by ladim) produced from the file, the
  sorted wildcard expansion, and the dictionary (or the exception class) `configure` returned; the
  checker coq/Corr/C18.v requires that the model's renderer gives the parsed tree (key order ignored), that the
  model's `configure` gives the observed dictionary (keys in the same order), and that the model's
  `normalize` agrees with the harness's signature-based one;
* evaluates the ORACLE = the property text: (a) the three dictionaries are the same module
  arguments once the defaults of the real constructors (inspect.signature, reached through the real
  `init_module`) are filled in; (b) the three spellings run through `ladim.main.main` write the same
  output file, variable by variable; (c) an omitted grid section gets the forcing module and the first
  file of the sorted expansion (for `*` and for `?`), and omitted optional sections give the same
  dictionary as empty ones and as sections written without content (YAML null); plus, on free trees, the
  version rule (explicit version, else time_control => v1) and the warm-start rewriting.

SCALE cases (c18_scale.py, always first, no random draws): the same oracle in a directory that holds a forcing
archive of 13 ... 1500 real files matched by `*` / `????`, the simulation starting in the first, a middle, the last
file or after the end (dictionary level for the long archives, end to end for 13 / 40 / 100 files), a run of 1200
steps through 50 files, a release of 40000 rows, 40 extra release columns.

Strings are sent to Coq as a per-case table of UTF-8 byte strings (real characters: the wildcard,
legacy-module-name and version tests are made on them); trees refer to table indices.
"""
from __future__ import annotations

import copy
import datetime
import fnmatch
import inspect
import json
import logging
import os
import re
import shutil
from pathlib import Path

import numpy as np

import romsfiles as rf

import c18_order
import c18_scale

PROP = "C18"
THEOREM_FILE = "Props/C18.v"
CHECKER = "Corr.C18"
SHARD = 12
RULE = ("Descriptions over the v1 vocabulary (discrete/continuous release, release_type spelled or not, extra release "
        "columns as particle variables with converters, lon/lat columns, IBM module/options/variables, diffusion "
        "absent/0/0.0/positive, subgrid, extra forcing, grid file given / defaulted from a plain, `*` or `?` forcing "
        "name, legacy and current module names, files-section spelling) x {v1 YAML, v2 YAML, v2 TOML, v2 with empty "
        "optional sections} x {optional sections written, omitted}; plus free trees for the version dispatch, missing "
        "and null sections and the warm-start branch; plus 13 fixed scale descriptions (wildcard over 13-1500 forcing "
        "files with the start anywhere in the series, 1200 steps, 40000 release rows, 40 extra columns). Non-trivial = distinct description whose three spellings "
        "were all accepted by configure and compared (dictionary level), counted once per description.")
TRUSTED = ["Coq 8.16.1 kernel + vm_compute", "hand-written model coq/Model/Config.v tied by this correspondence",
           "PyYAML / tomli parsers (the tree after parsing is the model's input)", "pathlib.Path normalisation and glob",
           "netCDF4 (warm-start time, output files of the end-to-end runs)"]
ASSUMPTIONS = ["file names are in pathlib normal form (a Path is represented by its string)",
               "the model is a pure function of the parsed tree: YAML aliases (two mappings being one object) are "
               "exercised by the generated files and must not matter; top-level sections are never aliased",
               "dictionary keys are strings; `version` floats lie in [1e-4, 1e16)",
               "normalize: the constructors' treatment of falsy arguments (x if x else default) is a table read "
               "from the constructors, in Coq and in the harness; `ncargs` is ignored (netCDF4.Dataset ignores "
               "`data_model`, the code forces format NETCDF4)",
               "end-to-end comparison runs without horizontal diffusion (the tracker's generator is unseeded)"]

T0 = "2000-01-01T00:00:00"


# =====================================================================================================
# values: JSON-able python values; {"$dt": "2000-01-01T00:00:00"} = written as a bare timestamp
# =====================================================================================================
def plain(v):
    """description value -> the value the parsers give after canonicalisation"""
    if isinstance(v, dict):
        if set(v) == {"$dt"}:
            return v["$dt"]
        return {k: plain(x) for k, x in v.items()}
    if isinstance(v, list):
        return [plain(x) for x in v]
    return v


def canon(v):
    """canonical JSON-able form of what the parsers / configure return"""
    if isinstance(v, dict):
        return {str(k): canon(x) for k, x in v.items()}
    if isinstance(v, (list, tuple)):
        return [canon(x) for x in v]
    if isinstance(v, (bool, np.bool_)):
        return bool(v)
    if isinstance(v, (int, np.integer)):
        return int(v)
    if isinstance(v, (float, np.floating)):
        return float(v)
    if isinstance(v, Path):
        return str(v)
    if isinstance(v, (datetime.datetime, datetime.date)):
        return v.isoformat()
    if isinstance(v, np.datetime64):
        return str(v)
    if v is None or isinstance(v, str):
        return v
    return "<" + type(v).__name__ + ">"


# ---- text emitters (written by hand; the libraries are only used to READ) ----------------------------
SAFE_PLAIN = re.compile(r"^[A-Za-z_][A-Za-z0-9_]*$")
YAML_WORDS = {"yes", "no", "true", "false", "on", "off", "null", "y", "n", "none"}


def ystr(s, rng):
    if SAFE_PLAIN.match(s) and s.lower() not in YAML_WORDS and rng.random() < 0.5:
        return s
    return json.dumps(s, ensure_ascii=False)


def yflow(v, rng):
    if isinstance(v, dict):
        if set(v) == {"$dt"}:
            return v["$dt"].replace("T", rng.choice(["T", " "])) if len(v["$dt"]) > 10 else v["$dt"]
        return "{" + ", ".join(ystr(k, rng) + ": " + yflow(x, rng) for k, x in v.items()) + "}"
    if isinstance(v, list):
        return "[" + ", ".join(yflow(x, rng) for x in v) + "]"
    if v is None:
        return rng.choice(["null", "~"])
    if isinstance(v, bool):
        return rng.choice(["true", "True"]) if v else rng.choice(["false", "False"])
    if isinstance(v, int):
        return str(v)
    if isinstance(v, float):
        return repr(v)
    return ystr(v, rng)


def emit_yaml(tree, rng, indent=0, depth=0, anchors=None):
    """Block/flow YAML written by hand.  In about half of the files a mapping that occurs a second time with
    identical content is written as an alias of the first (`X: &a1 {...}` / `Y: *a1`, what yaml.dump does
    for a dict referenced twice): the loader then returns ONE shared object for both, while the tree is the same."""
    if depth == 0 and anchors is None:
        anchors = {} if rng.random() < 0.55 else False
    out = []
    pad = " " * indent
    for k, v in tree.items():
        block = isinstance(v, dict) and v and set(v) != {"$dt"} and (depth == 0 or (depth < 3 and rng.random() < 0.5))
        if block:
            out.append(f"{pad}{ystr(k, rng)}:\n" + emit_yaml(v, rng, indent + rng.choice([2, 4]), depth + 1, anchors))
        elif v is None and rng.random() < 0.5:
            out.append(f"{pad}{ystr(k, rng)}:\n")
        elif anchors is not False and isinstance(v, dict) and v and set(v) != {"$dt"}:
            key = json.dumps(v)
            if key in anchors:
                out.append(f"{pad}{ystr(k, rng)}: *{anchors[key]}\n")
            else:
                anchors[key] = f"a{len(anchors) + 1}"
                out.append(f"{pad}{ystr(k, rng)}: &{anchors[key]} {yflow(v, rng)}\n")
        else:
            out.append(f"{pad}{ystr(k, rng)}: {yflow(v, rng)}\n")
    return "".join(out)


BARE_KEY = re.compile(r"^[A-Za-z0-9_-]+$")


def tkey(k):
    return k if BARE_KEY.match(k) else json.dumps(k, ensure_ascii=False)


def tinline(v):
    if isinstance(v, dict):
        if set(v) == {"$dt"}:
            return v["$dt"]
        return "{" + ", ".join(tkey(k) + " = " + tinline(x) for k, x in v.items()) + "}"
    if isinstance(v, list):
        return "[" + ", ".join(tinline(x) for x in v) + "]"
    if isinstance(v, bool):
        return "true" if v else "false"
    if isinstance(v, int):
        return str(v)
    if isinstance(v, float):
        return repr(v)
    if v is None:
        raise ValueError("TOML has no null")
    return json.dumps(v, ensure_ascii=False)


def emit_toml(tree, rng):
    """scalars of the top level first, then one table per section; dictionaries inside a section are
    inline tables, or sub-tables when they trail the section"""
    out = []
    for k, v in tree.items():
        if not (isinstance(v, dict) and set(v) != {"$dt"}):
            out.append(f"{tkey(k)} = {tinline(v)}\n")
    for k, v in tree.items():
        if isinstance(v, dict) and set(v) != {"$dt"}:
            out.append(f"\n[{tkey(k)}]\n")
            items = list(v.items())
            ntrail = 0
            while ntrail < len(items) and isinstance(items[-1 - ntrail][1], dict) and items[-1 - ntrail][1] \
                    and set(items[-1 - ntrail][1]) != {"$dt"}:
                ntrail += 1
            if rng.random() < 0.5:
                ntrail = 0
            head, trail = items[: len(items) - ntrail], items[len(items) - ntrail:]
            for k2, v2 in head:
                out.append(f"    {tkey(k2)} = {tinline(v2)}\n")
            for k2, v2 in trail:
                if all(isinstance(x, dict) and x and set(x) != {"$dt"} for x in v2.values()) and rng.random() < 0.6:
                    for k3, v3 in v2.items():
                        out.append(f"    [{tkey(k)}.{tkey(k2)}.{tkey(k3)}]\n")
                        for k4, v4 in v3.items():
                            out.append(f"        {tkey(k4)} = {tinline(v4)}\n")
                else:
                    out.append(f"    [{tkey(k)}.{tkey(k2)}]\n")
                    for k3, v3 in v2.items():
                        out.append(f"        {tkey(k3)} = {tinline(v3)}\n")
    return "".join(out)


# =====================================================================================================
# the three spellings of a description, as trees (independent of coq/Model/Config.v: render_v1/v2;
# the Coq checker compares its own rendering with what the parser read from these files)
# =====================================================================================================
LEGACY = "ladim1.gridforce.ROMS"
IGNORED = ("mult", "X", "Y", "Z")


def uniq(l):
    return list(dict.fromkeys(l))


def inst_names(S):
    return uniq(S["ibm_vars"] + [v for v in S["names"] if v in ("lon", "lat")])


def part_names(S):
    return uniq([v for v in S["names"] if v not in IGNORED and v in S["particle_vars"]])


def v2_module(S):
    m = S["module"]
    return "ladim.ROMS" if m[0] == "roms" else m[1]


def tree_v1(S):
    sp = S["spell"]
    m = S["module"]
    modname = (LEGACY if m[1] else "ladim.ROMS") if m[0] == "roms" else m[1]
    file_entries = {"input_file": S["forcing_file"]}
    if S["grid_file"] is not None:
        file_entries["gridfile"] = S["grid_file"]
    t = {}
    t["time_control"] = {"start_time": S["start"], "stop_time": S["stop"]}
    if S["reference"] is not None:
        t["time_control"]["reference_time"] = S["reference"]
    t["files"] = {"particle_release_file": S["release_file"], "output_file": S["out_file"]}
    gf = {"module": modname}
    (t["files"] if sp["files"] else gf).update(file_entries)
    if S["subgrid"] is not None:
        gf["subgrid"] = S["subgrid"]
    if S["extra_forcing"] is not None:
        gf["extra_forcing"] = S["extra_forcing"]
    t["gridforce"] = gf
    t["numerics"] = {"dt": S["dt"], "advection": S["advection"],
                     "diffusion": 0.0 if S["diffusion"] is None else S["diffusion"]}
    pr = {"variables": list(S["names"])}
    if S["continuous"]:
        pr["release_type"] = "continuous"
    elif sp["rtype"]:
        pr["release_type"] = "discrete"
    if S["frequency"] is not None:
        pr["release_frequency"] = S["frequency"]
    if S["particle_vars"] or not sp["min"]:
        pr["particle_variables"] = list(S["particle_vars"])
    for k, v in S["converters"]:
        pr[k] = v
    t["particle_release"] = pr
    ov = {}
    if S["out_format"] is not None:
        ov["format"] = S["out_format"]
    ov["outper"] = S["out_period"]
    ov["particle"] = [o["name"] for o in S["out_particle"]]
    ov["instance"] = [o["name"] for o in S["out_instance"]]
    for o in S["out_instance"] + S["out_particle"]:
        ov[o["name"]] = dict([("ncformat", o["fmt"])] + [tuple(a) for a in o["attrs"]])
    t["output_variables"] = ov
    if sp["version"]:
        t["version"] = 1
    absent = S["ibm_module"] is None and not S["ibm_opts"] and not S["ibm_vars"]
    if not (sp["min"] and absent):
        ib = {}
        if S["ibm_module"] is not None:
            ib["ibm_module" if sp["ibm_legacy"] else "module"] = S["ibm_module"]
        if S["ibm_vars"] or not sp["min"]:
            ib["variables"] = list(S["ibm_vars"])
        for k, v in S["ibm_opts"]:
            ib[k] = v
        t["ibm"] = ib
    return t


def outvar_v2(o):
    return {"encoding": {"datatype": o["fmt"]}, "attributes": dict(tuple(a) for a in o["attrs"])}


def tree_v2(S, omit, empty_sections=False):
    conv = dict(tuple(c) for c in reversed(S["converters"]))
    t = {}
    t["time"] = {"start": S["start"], "stop": S["stop"], "dt": S["dt"]}
    if S["reference"] is not None:
        t["time"]["reference"] = S["reference"]
    t["forcing"] = {"module": v2_module(S), "filename": S["forcing_file"]}
    if S["extra_forcing"] is not None:
        t["forcing"]["extra_forcing"] = S["extra_forcing"]
    t["release"] = {"release_file": S["release_file"], "names": list(S["names"])}
    if S["continuous"]:
        t["release"]["continuous"] = True
        if S["frequency"] is not None:
            t["release"]["release_frequency"] = S["frequency"]
    t["tracker"] = {"advection": S["advection"]}
    if S["diffusion"] is not None:
        t["tracker"]["diffusion"] = S["diffusion"]
    t["output"] = {"filename": S["out_file"], "output_period": S["out_period"],
                   "instance_variables": {o["name"]: outvar_v2(o) for o in S["out_instance"]}}
    if S["out_particle"] or not omit:
        t["output"]["particle_variables"] = {o["name"]: outvar_v2(o) for o in S["out_particle"]}
    if S["spell"]["version"]:
        t["version"] = 2
    inst, part = inst_names(S), part_names(S)
    if not (omit and not inst and not part):
        t["state"] = {"instance_variables": {v: "float" for v in inst},
                      "particle_variables": {v: conv.get(v, "float") for v in part},
                      "default_values": {v: 0 for v in inst}}
    elif empty_sections:
        t["state"] = {}
    grid = {}
    if S["grid_file"] is not None:
        grid["filename"] = S["grid_file"]
    if S["subgrid"] is not None:
        grid["subgrid"] = S["subgrid"]
    if not omit:
        t["grid"] = dict([("module", v2_module(S))] + list(grid.items()))
    elif grid or empty_sections:
        t["grid"] = grid
    if not (omit and S["ibm_module"] is None and not S["ibm_opts"]) or empty_sections:
        t["ibm"] = {}
        if S["ibm_module"] is not None:
            t["ibm"]["module"] = S["ibm_module"]
        for k, v in S["ibm_opts"]:
            t["ibm"][k] = v
    if not omit or empty_sections:
        t["warm_start"] = {}
    return t


def wf(S, expansion):
    """the hypotheses of theorem C18_v1_equals_v2 (wf_sim, wf_glob)"""
    names_out = [o["name"] for o in S["out_instance"] + S["out_particle"]]
    rr = ("variables", "release_type", "release_frequency", "particle_variables")
    num = lambda d: isinstance(d, (int, float)) and not isinstance(d, bool)
    ok = bool(S["forcing_file"]) and S["grid_file"] != ""
    ok &= not (S["module"][0] == "custom" and LEGACY in S["module"][1])
    ok &= S["diffusion"] is None or num(S["diffusion"])
    ok &= (not S["continuous"]) or S["frequency"] is not None
    ok &= not any(k in rr for k, _ in S["converters"]) and not any(v in rr for v in part_names(S))
    keys = [k for k, _ in S["ibm_opts"]]
    ok &= not any(k in ("ibm_module", "module", "variables") for k in keys) and len(set(keys)) == len(keys)
    ok &= not any(n in ("format", "outper", "particle", "instance") for n in names_out)
    ok &= len(set(names_out)) == len(names_out)
    ok &= not any(a[0] == "ncformat" for o in S["out_instance"] + S["out_particle"] for a in o["attrs"])
    if S["grid_file"] is None and ("*" in S["forcing_file"] or "?" in S["forcing_file"]):
        ok &= bool(expansion)
    return bool(ok)


# =====================================================================================================
# encoding for Coq
# =====================================================================================================
class Enc:
    def __init__(self):
        self.tab, self.idx = [], {}

    def s(self, x):
        if x not in self.idx:
            self.idx[x] = len(self.tab)
            self.tab.append(x)
        return self.idx[x]

    def cv(self, v):
        if v is None:
            return [0]
        if isinstance(v, bool):
            return [1, int(v)]
        if isinstance(v, int):
            return [2, v]
        if isinstance(v, float):
            n, d = v.as_integer_ratio()
            return [3, n, d]
        if isinstance(v, str):
            return [4, self.s(v)]
        if isinstance(v, list):
            out = [5, len(v)]
            for x in v:
                out += self.cv(x)
            return out
        if isinstance(v, dict):
            out = [6, len(v)]
            for k, x in v.items():
                out += [self.s(k)] + self.cv(x)
            return out
        raise TypeError(type(v))

    def opt(self, v, f=None):
        return [0] if v is None else [1] + (f or self.cv)(v)

    def pairs(self, l):
        out = [len(l)]
        for k, v in l:
            out += [self.s(k)] + self.cv(plain(v))
        return out

    def strs(self, l):
        return [len(l)] + [self.s(x) for x in l]

    def outvars(self, l):
        out = [len(l)]
        for o in l:
            out += [self.s(o["name"])] + self.cv(plain(o["fmt"])) + self.pairs(o["attrs"])
        return out

    def sim(self, S):
        c = lambda k: self.cv(plain(S[k]))
        o = lambda k: self.opt(None if S[k] is None else plain(S[k]))
        m = S["module"]
        out = c("start") + c("stop") + c("dt") + o("reference")
        out += ([1 if m[1] else 0] if m[0] == "roms" else [2, self.s(m[1])])
        out += [self.s(S["forcing_file"])] + self.opt(S["grid_file"], lambda x: [self.s(x)]) + o("subgrid") + o("extra_forcing")
        out += c("advection") + o("diffusion")
        out += c("release_file") + self.strs(S["names"]) + [int(S["continuous"])] + o("frequency")
        out += self.pairs(S["converters"]) + self.strs(S["particle_vars"])
        out += o("ibm_module") + self.pairs(S["ibm_opts"]) + self.strs(S["ibm_vars"])
        out += c("out_file") + c("out_period") + o("out_format") + self.outvars(S["out_instance"]) + self.outvars(S["out_particle"])
        sp = S["spell"]
        out += [int(sp[k]) for k in ("files", "ibm_legacy", "rtype", "min", "version")]
        return out

    def table(self):
        out = [len(self.tab)]
        for s in self.tab:
            b = s.encode("utf-8")
            out += [len(b)] + list(b)
        return out


ERR = {"KeyError": 1, "TypeError": 2, "AttributeError": 3, "IndexError": 4}


def enc_obs(e, obs):
    """obs = ("ok", tree) | ("err", code) | None"""
    if obs is None:
        return [2]
    if obs[0] == "ok":
        return [0] + e.cv(obs[1])
    return [1, obs[1]]


def coq_case(kind, omit, S, expansion, wst, parsed, obs, nobs):
    e = Enc()
    body = [kind, int(omit)]
    if kind != 0:
        body += e.sim(S)
    body += e.strs(expansion)
    body += e.opt(wst)
    body += e.cv(parsed)
    body += enc_obs(e, obs)
    body += enc_obs(e, nobs)
    return e.table() + body


# =====================================================================================================
# running the real code
# =====================================================================================================
def call_configure(fname):
    from ladim.configure import configure

    try:
        return ("ok", canon(configure(fname))), None
    except SystemExit as ex:
        code = ex.code if isinstance(ex.code, int) else 1
        return ("err", 10 + code), None
    except (KeyError, TypeError, AttributeError, IndexError) as ex:
        return ("err", ERR[type(ex).__name__]), None
    except Exception as ex:  # anything else is outside the model's exception classes
        return ("err", 99), f"{type(ex).__name__}: {ex}"


# the constructors' own treatment of falsy arguments (`x if x else default`, `if x:`), read from
# ladim/state.py:106-133, ROMS.py:85,103,426, timekeeper.py:111, release.py:102, out_netcdf.py:58,75,79
FALSY = {("State", "instance_variables"): {}, ("State", "particle_variables"): {}, ("State", "default_values"): {},
         ("Forcing", "extra_forcing"): [], ("Output", "particle_variables"): {}, ("Output", "global_attributes"): {}}


def py_normalize(conf_raw):
    """What each module class receives, from the REAL init_module (default module names, class names,
    removal of `module`) and the REAL constructor signatures (defaults), without constructing anything."""
    import ladim.model as lm

    conf = copy.deepcopy(conf_raw)
    seen = {}
    real_load = lm.load_module

    class Proxy:
        def __init__(self, name, mod):
            self._name, self._mod = name, mod

        def __getattr__(self, cls_name):
            cls = getattr(self._mod, cls_name)

            def factory(modules=None, **kw):
                sig = inspect.signature(cls.__init__)
                args = {}
                for p in list(sig.parameters.values())[1:]:
                    if p.name == "modules" or p.kind in (p.VAR_KEYWORD, p.VAR_POSITIONAL):
                        continue
                    if p.name in kw:
                        v = kw.pop(p.name)
                    elif p.default is not p.empty:
                        v = p.default
                    else:
                        continue
                    if isinstance(p.default, float) and isinstance(v, int) and not isinstance(v, bool):
                        v = float(v)
                    if (cls_name, p.name) in FALSY and not v:
                        v = FALSY[(cls_name, p.name)]
                    args[p.name] = v
                args.update(kw)
                return {"module": self._name, **args}

            return factory

    lm.load_module = lambda name: Proxy(name, real_load(name))
    try:
        for name in ["state", "time", "grid", "forcing", "release", "tracker", "ibm", "output"]:
            seen[name] = lm.init_module(name, conf[name], {})
    finally:
        lm.load_module = real_load
    seen["output"].pop("ncargs", None)
    seen["warm_start"] = conf["warm_start"]
    return seen


def try_normalize(obs):
    if obs[0] != "ok":
        return None
    try:
        return ("ok", canon(py_normalize(obs[1])))
    except KeyError:
        return ("err", 1)
    except AttributeError:
        return ("err", 3)
    except (SystemExit, Exception):
        return None


def read_output(path):
    from netCDF4 import Dataset

    out = {}
    with Dataset(path) as nc:
        nc.set_auto_mask(False)
        out["data_model"] = nc.data_model
        out["dims"] = {d: len(nc.dimensions[d]) for d in nc.dimensions}
        out["gattrs"] = {a: str(nc.getncattr(a)) for a in nc.ncattrs() if a != "history"}
        for v in nc.variables:
            x = nc.variables[v]
            out["var:" + v] = {"dims": list(x.dimensions), "dtype": str(x.dtype),
                               "attrs": {a: str(x.getncattr(a)) for a in x.ncattrs()},
                               "data": np.asarray(x[:]).tolist()}
    return out


def run_main(fname):
    from ladim.main import main

    try:
        main(fname, loglevel=logging.CRITICAL + 10)
        return None
    except SystemExit as ex:
        return f"SystemExit({ex.code})"
    except Exception as ex:  # noqa: BLE001
        return f"{type(ex).__name__}: {ex}"
    finally:
        logging.disable(logging.CRITICAL)


# =====================================================================================================
# scratch directory
# =====================================================================================================
RUN_FILES = ["forcing.nc", "f_1.nc", "f_2.nc", "data/f_1.nc", "data/f_2.nc", "grid.nc"]
CUSTOM_GF = "from ladim.ROMS import Grid, Forcing  # noqa\n"
# the user's IBM keeps state at MODULE level (a seeded generator, as examples/lakselus/salmon_lice_ibm.py does): every
# Model loads the plug-in file afresh, so each of the spellings, run one after the other, starts from the same state
CUSTOM_IBM = ("import numpy as np\nfrom ladim.ibm import IBM as _B\n\n_rng = np.random.default_rng(11)\n\n\nclass IBM(_B):\n    def update(self):\n"
              "        s = self.modules['state']\n        if 'age' in s.variables:\n            s['age'] = s['age'] + 1.0\n"
              "        s['Z'] = s['Z'] + 0.25 * _rng.integers(0, 2, len(s))\n")


def master_dir(ctx):
    d = ctx.subdir("master")
    if not (d / "grid.nc").exists():
        (d / "data").mkdir(exist_ok=True)
        jj, ii = np.meshgrid(np.arange(10), np.arange(12), indexing="ij")
        u = 0.1 + 0.01 * jj[None, None, :, :-1] * np.ones((1, 3, 1, 1))
        # a land block next to the release positions; the files carry non-zero velocities on land as well (legal:
        # ROMS files may hold anything there), so the land masking of the velocity matters for the trajectories
        land = np.ones((10, 12), dtype=int)
        land[5:7, 6] = 0
        land[2, 7:9] = 0
        kw = dict(imax=12, jmax=10, N=3, v=0.05, extra={"temp": 5.0}, mask=land)
        rf.write_roms(d / "forcing.nc", times=[0, 3600, 7200, 10800, 14400], u=u, **kw)
        rf.write_roms(d / "f_1.nc", times=[0, 3600], u=u, **kw)
        rf.write_roms(d / "f_2.nc", times=[7200, 10800, 14400], u=u, **kw)
        shutil.copy(d / "f_1.nc", d / "data" / "f_1.nc")
        shutil.copy(d / "f_2.nc", d / "data" / "f_2.nc")
        shutil.copy(d / "forcing.nc", d / "grid.nc")
        # warm start file for the free-tree cases: last time record = 2000-01-01T01:00:00
        from netCDF4 import Dataset

        with Dataset(d / "warm.nc", "w") as nc:
            nc.createDimension("time", None)
            t = nc.createVariable("time", "f8", ("time",))
            t.units = "seconds since 2000-01-01 00:00:00"
            t[:] = [0.0, 1800.0, 3600.0]
    return d


def make_dir(ctx, desc, tag):
    m = master_dir(ctx)
    d = ctx.subdir(tag)
    for sub in ("data",):
        (d / sub).mkdir(exist_ok=True)
    for f in desc["files"]:
        src = m / f
        dst = d / f
        if dst.exists():
            continue
        if src.exists() and desc.get("run"):
            os.link(src, dst)
        else:
            dst.touch()
    if (m / "warm.nc").exists() and not (d / "warm.nc").exists():
        os.link(m / "warm.nc", d / "warm.nc")
    (d / "mygf.py").write_text(CUSTOM_GF)
    (d / ("my_" + LEGACY.replace(".", "_") + ".py")).write_text(CUSTOM_GF)
    (d / "myibm.py").write_text(CUSTOM_IBM)
    return d


def expansion_of(pattern, files):
    """sorted expansion of a pattern, independent of pathlib.glob"""
    if "/" in pattern:
        dirname, name = pattern.rsplit("/", 1)
        cands = [f[len(dirname) + 1:] for f in files if f.startswith(dirname + "/") and "/" not in f[len(dirname) + 1:]]
        return sorted(dirname + "/" + c for c in cands if fnmatch.fnmatchcase(c, name))
    return sorted(f for f in files if "/" not in f and fnmatch.fnmatchcase(f, pattern))


def write_release_file(d, S, t0=0, nrows=None, zfac=1.0):
    """a release file that fits the column names of S (scale cases: nrows rows, first release at t0 seconds)"""
    if nrows is not None:
        (d / "release.rls").write_text(c18_scale.release_table(S, t0, nrows, zfac))
        return
    rows = []
    for k, (t, x, y, z) in enumerate([(0, 5.0, 5.0, 1.0), (0, 6.5, 4.25, 2.0), (3600, 4.0, 6.0, 0.5), (7200, 7.0, 3.0, 1.5)]):
        row = []
        for n in S["names"]:
            row.append({"release_time": rf.iso(t), "X": x, "Y": y, "Z": z, "mult": 1 + k % 2, "lon": 0.01 * x,
                        "lat": 60 + 0.01 * y, "farmid": 100 + k, "super": 10.0 * (k + 1), "weight": 0.5 * k}.get(n, 1.0))
        rows.append(" ".join(str(v) for v in row))
    (d / "release.rls").write_text("\n".join(rows) + "\n")


# =====================================================================================================
# evaluation
# =====================================================================================================
def eval_case(desc, ctx):
    cwd = os.getcwd()
    if desc["k"] == "scale":
        desc = dict(desc, files=c18_scale.file_list(desc["n"]))
        d = make_dir(ctx, dict(desc, files=[]), f"case_{desc['id']}")
        c18_scale.populate(d, master_dir(ctx), desc["n"])
    elif desc["k"] == "order":
        m = master_dir(ctx)
        if not (m / c18_order.GRID_B).exists():
            c18_order.write_grid_b(m / "grid_b.tmp.nc")
            os.replace(m / "grid_b.tmp.nc", m / c18_order.GRID_B)
        desc = dict(desc, files=RUN_FILES + [c18_order.GRID_B])
        d = make_dir(ctx, desc, f"case_{desc['id']}")
    else:
        d = make_dir(ctx, desc, f"case_{desc['id']}")
    os.chdir(d)
    try:
        if desc["k"] == "scale":
            return eval_scale(desc, ctx, d)
        if desc["k"] == "order":
            return eval_order(desc, ctx, d)
        if desc["k"] == "sim":
            return eval_sim(desc, ctx, d)
        return eval_tree(desc, ctx, d)
    finally:
        os.chdir(cwd)
        shutil.rmtree(d, ignore_errors=True)


def parse_file(fname):
    import tomli
    import yaml

    if fname.endswith(".toml"):
        with open(fname, "rb") as f:
            return canon(tomli.load(f))
    with open(fname, encoding="utf-8") as f:
        return canon(yaml.safe_load(f))


def eval_scale(desc, ctx, d):
    """the ordinary oracle of a description (eval_sim: (a) module arguments, (b) output files, (c) defaulted grid =
    first file of the sorted expansion) in a directory that holds a long forcing archive; see c18_scale.py.
    The Coq checker gets the small archives only (the expansion is part of the literal)."""
    res = eval_sim(desc, ctx, d)
    if res["oracle"]:
        res["oracle"] = f"scale case [{desc['label']}]: {res['oracle']}"
    if not desc.get("coq"):
        res["ints"] = None
    res["kind"] = "scale-" + res["kind"]
    res["observed"]["label"] = desc["label"]
    return res


def eval_order(desc, ctx, d):
    """one simulation written the canonical way (version 2 YAML, usual order) and in another legal arrangement of the
    same information (c18_order.py): same module arguments, same output file"""
    import random

    rng = random.Random(desc["id"] * 7919 + 3)
    S0, label = desc["S"], desc["label"]
    S1 = c18_order.permuted_names(S0, desc["cols"]) if desc.get("cols") else S0
    expansion = expansion_of(S0["forcing_file"], desc["files"])
    assert wf(S0, expansion) and wf(S1, expansion)
    dialect = desc["dialect"]
    tree = c18_order.apply(desc["arr"], tree_v1(S1) if dialect == "v1" else tree_v2(S1, False))
    ref_text = emit_yaml(tree_v2(S0, False), rng)
    arr_name = "arr.toml" if dialect == "v2toml" else "arr.yaml"
    arr_text = emit_toml(tree, rng) if dialect == "v2toml" else emit_yaml(tree, rng)
    Path("ref.yaml").write_text(ref_text, encoding="utf-8")
    Path(arr_name).write_text(arr_text, encoding="utf-8")
    oracle = None
    obs, norm = {}, {}
    for name, fname in (("canonical v2 YAML", "ref.yaml"), (label, arr_name)):
        obs[name], note = call_configure(fname)
        norm[name] = try_normalize(obs[name])
        if oracle is None and (obs[name][0] != "ok" or norm[name] is None or norm[name][0] != "ok"):
            oracle = f"[{name}] refused: {obs[name] if obs[name][0] != 'ok' else norm[name]} {note or ''}"
    ref, arr = "canonical v2 YAML", label
    if oracle is None and not desc.get("cols") and norm[arr][1] != norm[ref][1]:
        oracle = f"(a) module arguments differ from those of the canonical v2 YAML file: {diff(norm[ref][1], norm[arr][1])}"
    if oracle is None and desc.get("cols"):
        a, b = copy.deepcopy(norm[ref][1]), copy.deepcopy(norm[arr][1])
        for x in (a, b):  # the column order is what was permuted; everything else must agree
            x["release"]["names"] = sorted(x["release"].get("names") or [])
        if a != b:
            oracle = f"(a) module arguments (release columns as a set) differ from those of the canonical v2 YAML file: {diff(a, b)}"
    ran = False
    if oracle is None and desc.get("run"):
        outs = {}
        for name, fname, S in ((ref, "ref.yaml", S0), (arr, arr_name, S1)):
            write_release_file(d, S)
            Path("out.nc").unlink(missing_ok=True)
            msg = run_main(fname)
            outs[name] = ("failed: " + msg) if msg else read_output("out.nc")
        ran = True
        if isinstance(outs[ref], str):
            oracle = f"(b) generator problem, the canonical file does not run: {outs[ref]}"
        elif outs[arr] != outs[ref]:
            oracle = (f"(b) output differs from that of the canonical v2 YAML run: "
                      f"{outs[arr] if isinstance(outs[arr], str) else diff(outs[ref], outs[arr])}")
    if oracle:
        oracle = (f"arrangement case [{label}] (forcing {S0['forcing_file']!r}, grid file {S0['grid_file']!r}, "
                  f"release columns {S1['names']}): {oracle}")
    return {"ints": None, "oracle": oracle, "nontrivial": "order: " + label, "kind": "order-run" if ran else "order",
            "observed": {"label": label, "ran": ran, "grid": short(obs[arr]).get("grid") if obs[arr][0] == "ok" else obs[arr]}}


def brief(l):
    return str(l) if len(l) <= 8 else f"[{l[0]!r}, {l[1]!r}, ... {len(l)} files ..., {l[-1]!r}]"


def eval_sim(desc, ctx, d):
    import random

    S = desc["S"]
    rng = random.Random(desc["id"] * 7919 + 1)
    expansion = expansion_of(S["forcing_file"], desc["files"])
    ok_wf = wf(S, expansion)
    if desc.get("run"):
        write_release_file(d, S, desc.get("rel_t0", 0), desc.get("rel_n"), desc.get("rel_zfac", 1.0))
    o_yaml, o_toml = desc["omit"]
    files = [("v1", "v1.yaml", 1, False, emit_yaml(tree_v1(S), rng)),
             ("v2yaml", "v2.yaml", 2, o_yaml, emit_yaml(tree_v2(S, o_yaml), rng)),
             ("v2toml", "v2.toml", 2, o_toml, emit_toml(tree_v2(S, o_toml), rng)),
             ("v2empty", "v2e.yaml", 0, True, emit_yaml(tree_v2(S, True, empty_sections=True), rng)),
             ("v2omit", "v2o.yaml", 2, True, emit_yaml(tree_v2(S, True), rng)),
             ("v2null", "v2n.yaml", 0, True, emit_yaml(nulled(tree_v2(S, True, empty_sections=True)), rng))]
    # the TOML file as many write it: every time (native date / date-time in the other files) as a quoted string
    S_q = dict(S, **{k: (S[k]["$dt"] if isinstance(S[k], dict) else S[k]) for k in ("start", "stop", "reference")})
    files.append(("v2tomlq", "v2q.toml", 2, o_toml, emit_toml(tree_v2(S_q, o_toml), rng)))
    ints, obs_all, norm_all, notes = [], {}, {}, []
    for name, fname, kind, omit, text in files:
        S = S_q if name == "v2tomlq" else desc["S"]
        Path(fname).write_text(text, encoding="utf-8")
        parsed = parse_file(fname)
        obs, note = call_configure(fname)
        if note:
            notes.append(f"{name}: {note}")
        nobs = try_normalize(obs)
        obs_all[name], norm_all[name] = obs, nobs
        # outside the hypotheses a description may not even be a tree with unique keys: no rendering check then
        ints.append(coq_case(kind if ok_wf else 0, omit, S, expansion, None, parsed, obs, nobs))

    oracle = None
    # (a) same module arguments after the constructors' defaults
    if ok_wf:
        for name in ("v1", "v2yaml", "v2toml", "v2omit"):
            if obs_all[name][0] != "ok":
                oracle = oracle or f"{name} spelling of an expressible simulation refused: {obs_all[name]} {notes}"
        if oracle is None:
            ref = norm_all["v1"]
            for name in ("v2yaml", "v2toml", "v2omit"):
                if norm_all[name] is None or ref is None or norm_all[name][1] != ref[1]:
                    oracle = (f"(a) v1 and {name} give different module arguments: "
                              f"{diff(ref and ref[1], norm_all[name] and norm_all[name][1])}")
                    break
    S = desc["S"]
    if ok_wf and oracle is None:
        if obs_all["v2tomlq"][0] != "ok":
            oracle = f"TOML spelling with the times as quoted strings refused: {obs_all['v2tomlq']} {notes}"
        elif norm_all["v2tomlq"] is None or times_canon(norm_all["v2tomlq"][1]) != times_canon(norm_all["v1"][1]):
            oracle = (f"(a) v1 and the TOML file with quoted times give different module arguments: "
                      f"{diff(times_canon(norm_all['v1'][1]), norm_all['v2tomlq'] and times_canon(norm_all['v2tomlq'][1]))}")
    # (c) omitted optional sections == empty sections; omitted grid = forcing module + first sorted file
    if oracle is None and obs_all["v2omit"][0] == "ok":
        if obs_all["v2empty"][0] != "ok" or not same_dict(obs_all["v2empty"][1], obs_all["v2omit"][1]):
            oracle = f"(c) omitted optional sections differ from empty ones: {diff(obs_all['v2omit'][1], obs_all['v2empty'][1])}"
        elif obs_all["v2null"][0] != "ok" or not same_dict(obs_all["v2null"][1], obs_all["v2omit"][1]):
            oracle = (f"(c) optional sections given without content (null) differ from omitted ones: "
                      f"{obs_all['v2null'] if obs_all['v2null'][0] != 'ok' else diff(obs_all['v2omit'][1], obs_all['v2null'][1])}")
        if S["grid_file"] is None:
            want = expansion[0] if (expansion and ("*" in S["forcing_file"] or "?" in S["forcing_file"])) else S["forcing_file"]
            g = obs_all["v2omit"][1]["grid"]
            if g.get("module") != v2_module(S) or g.get("filename") != want:
                oracle = oracle or (f"(c) omitted grid section: got module={g.get('module')!r} filename={g.get('filename')!r}, "
                                    f"expected module={v2_module(S)!r} filename={want!r} (forcing {S['forcing_file']!r}, files {brief(expansion)})")
    # (b) the three runs write the same output
    ran = False
    if oracle is None and ok_wf and desc.get("run"):
        outs = {}
        spell = [("v1", "v1.yaml"), ("v2yaml", "v2.yaml"), ("v2toml", "v2.toml"), ("v2toml with quoted times", "v2q.toml")]
        if obs_all["v2omit"][0] == "ok" and Path("v2o.yaml").exists():
            spell.append(("v2omit", "v2o.yaml"))  # optional sections (the grid section among them) left out
        if S["grid_file"] is None and expansion:
            # "omitting the grid section uses the forcing module and the first forcing file": the same run with
            # exactly that written out
            S2 = dict(S, grid_file=expansion[0])
            Path("v2x.yaml").write_text(emit_yaml(tree_v2(S2, False), rng), encoding="utf-8")
            spell.append(("v2 with the defaulted grid written out", "v2x.yaml"))
        if not S["continuous"] and S["frequency"] is not None:
            # a discrete release whose file still carries a release frequency (dormant: v1 spells it `release_type:
            # discrete` + `release_frequency`, the v1 reader drops it); the v2 file that keeps the line says the same
            t2 = tree_v2(S, False)
            t2["release"]["continuous"] = False
            t2["release"]["release_frequency"] = S["frequency"]
            Path("v2f.yaml").write_text(emit_yaml(t2, rng), encoding="utf-8")
            spell.append(("v2 with the dormant release_frequency kept (continuous: false)", "v2f.yaml"))
        if desc.get("spellings"):
            spell = [sp for sp in spell if sp[0] in desc["spellings"]]
        for name, fname in spell:
            Path("out.nc").unlink(missing_ok=True)
            msg = run_main(fname)
            outs[name] = ("failed: " + msg) if msg else read_output("out.nc")
        ran = True
        if isinstance(outs["v1"], str) and all(isinstance(o, str) for o in outs.values()):
            oracle = f"(b) generator problem, no spelling runs: {outs['v1']}"
        for name in [n for n, _ in spell[1:]]:
            if oracle is None and outs[name] != outs["v1"]:
                oracle = f"(b) output of the v1 run and of the {name} run differ: {diff(outs['v1'], outs[name])}"
    accepted = all(obs_all[n][0] == "ok" for n in ("v1", "v2yaml", "v2toml"))
    return {"ints": ints, "oracle": oracle,
            "nontrivial": json.dumps(S, sort_keys=True) if (accepted and ok_wf) else None,
            "kind": ("sim-run" if ran else "sim") + ("" if ok_wf else "-outside-hypotheses"),
            "observed": {"wf": ok_wf, "v1": short(obs_all["v1"]), "v2yaml": short(obs_all["v2yaml"]), "ran": ran, "notes": notes}}


def times_canon(norm):
    """module arguments with the clock's times as instants (a native date, a date-time and their quoted spellings
    denote the same instant)"""
    out = copy.deepcopy(norm)
    t = out.get("time") if isinstance(out, dict) else None
    if isinstance(t, dict):
        for k in ("start", "stop", "reference"):
            if isinstance(t.get(k), str):
                try:
                    t[k] = str(np.datetime64(t[k], "s"))
                except ValueError:
                    pass
    return out


def nulled(tree):
    """the optional sections that are empty are written without content (YAML null)"""
    return {k: (None if k in ("state", "grid", "ibm", "warm_start") and v == {} else v) for k, v in tree.items()}


def same_dict(a, b):
    return a == b


def short(obs):
    if obs[0] == "ok":
        return {k: v for k, v in obs[1].items() if k in ("grid", "tracker", "release", "state")}
    return obs


def diff(a, b, path=""):
    if isinstance(a, dict) and isinstance(b, dict):
        for k in list(a) + [k for k in b if k not in a]:
            if k not in a:
                return f"{path}/{k} only in the second ({b[k]!r})"
            if k not in b:
                return f"{path}/{k} only in the first ({a[k]!r})"
            if a[k] != b[k]:
                return diff(a[k], b[k], f"{path}/{k}")
        return "equal"
    return f"{path}: {str(a)[:200]!r} != {str(b)[:200]!r}"


def eval_tree(desc, ctx, d):
    """free trees: version dispatch, missing / null sections, warm start"""
    import random

    rng = random.Random(desc["id"] * 104729 + 5)
    tree = desc["tree"]
    fname = "conf.toml" if desc.get("toml") else "conf.yaml"
    Path(fname).write_text(emit_toml(tree, rng) if desc.get("toml") else emit_yaml(tree, rng), encoding="utf-8")
    parsed = parse_file(fname)
    expansion = expansion_of(desc.get("pattern", "f_*.nc"), desc["files"])
    obs, note = call_configure(fname)
    nobs = try_normalize(obs)
    wst = "2000-01-01T01:00:00" if desc.get("warm") else None
    ints = coq_case(0, False, None, expansion, wst, parsed, obs, nobs)
    # oracle: the version rule of the property text / the anchors (explicit version, else time_control)
    oracle = None
    exp = desc.get("expect")
    got = "refused" if obs == ("err", 13) else ("v1" if obs[0] == "ok" and "ncargs" in (obs[1].get("output") or {}) else
                                               "v2" if obs[0] == "ok" else "error")
    if exp in ("v1", "v2", "refused") and got != exp:
        oracle = f"version dispatch: expected {exp}, got {got} ({obs if obs[0] != 'ok' else 'accepted'}) for version={tree.get('version', '<absent>')!r}"
    if oracle is None and "version" not in tree and isinstance(tree, dict):
        # no version key: time_control => the v1 reader (bare exceptions, never SystemExit(3)); otherwise the
        # v2 reader (a missing key is SystemExit(3), never a bare KeyError)
        if "time_control" in tree and obs == ("err", 13):
            oracle = "version inference: a file with time_control and no version was read as version 2"
        if "time_control" not in tree and obs == ("err", 1):
            oracle = "version inference: a file without time_control and version ended in a bare KeyError (read as version 1?)"
    if oracle is None and desc.get("same_as") is not None:
        Path("other.yaml").write_text(emit_yaml(desc["same_as"], rng), encoding="utf-8")
        obs2, _ = call_configure("other.yaml")
        if obs != obs2:
            oracle = (f"optional sections without content (null) do not behave as empty/omitted ones: {obs if obs[0] != 'ok' else 'accepted'} "
                      f"vs {obs2 if obs2[0] != 'ok' else 'accepted'}"
                      + (f": {diff(obs[1], obs2[1])}" if obs[0] == obs2[0] == "ok" else ""))
    if desc.get("warm") and obs[0] == "ok":
        if obs[1]["time"]["start"] != wst or obs[1]["release"].get("warm_start_file") != "warm.nc" \
                or obs[1]["output"].get("skip_initial") is not (desc.get("skip_given", True)):
            oracle = f"warm start branch: {obs[1]['time']} {obs[1]['release']} {obs[1]['output'].get('skip_initial')}"
    return {"ints": ints, "oracle": oracle, "nontrivial": None, "kind": "tree-" + desc.get("what", "free"),
            "observed": {"result": obs if obs[0] != "ok" else "ok", "note": note}}


# =====================================================================================================
# generators
# =====================================================================================================
ATTRS = [["long_name", "particle thing"], ["units", "m"], ["standard_name", "depth_below_surface"], ["positive", "down"],
         ["scale_hint", 2], ["valid_max", 1.5], ["flagged", True], ["comment", "æøå «quoted» \"x\" # not a comment: {a}"]]
FMT = {"pid": "i4", "X": "f4", "Y": "f4", "Z": "f4", "age": "f4", "super": "f8", "lon": "f4", "lat": "f4",
       "release_time": "f8", "farmid": "i4", "weight": "f4", "temp": "f4"}


def gen_outvar(rng, name, run=False):
    # the Output module tests `"reference_time" in value` on every attribute: only strings can be written
    pool = [a for a in ATTRS if isinstance(a[1], str)] if run else ATTRS
    return {"name": name, "fmt": FMT.get(name, "f4"), "attrs": [list(a) for a in rng.sample(pool, rng.randint(0, 3))]}


def tval(rng, seconds, date_ok=False):
    iso = rf.iso(seconds)
    r = rng.random()
    if date_ok and seconds % 86400 == 0 and r < 0.6:
        # a date without a time of day: native (YAML date, TOML local date) or as a quoted string
        return {"$dt": iso[:10]} if r < 0.35 else iso[:10]
    if r < 0.5:
        return {"$dt": iso}
    return iso if r < 0.85 else iso.replace("T", " ")


def gen_sim(rng, run):
    S = {}
    if run:
        start, nsteps, dt = 0, rng.choice([6, 9, 12]), rng.choice([600, 1200])
    else:
        start, nsteps, dt = rng.randrange(0, 10**6, 600), rng.randint(1, 50), rng.choice([60, 600, 3600])
    S["start"] = tval(rng, start)
    S["stop"] = tval(rng, start + nsteps * dt)
    S["dt"] = rng.choice([dt, [dt, "s"], [dt // 60, "m"], f"PT{dt // 60}M"])
    S["reference"] = rng.choice([None, None, tval(rng, -86400 * rng.randint(0, 400), True)])
    S["module"] = rng.choice([["roms", False], ["roms", True], ["roms", True], ["custom", "mygf"]])
    if run:
        S["forcing_file"] = rng.choice(["forcing.nc", "f_*.nc", "f_?.nc", "data/f_*.nc", "data/f_?.nc", "?_[12].nc"][:5])
        S["grid_file"] = rng.choice([None, None, None, "grid.nc", "f_2.nc"])
    else:
        S["forcing_file"] = rng.choice(["forcing.nc", "f_*.nc", "f_?.nc", "f_??.nc", "?_1.nc", "data/f_*.nc", "data/f_?.nc",
                                        "*.nc", "nomatch_*.nc", "f_1?.nc", "sub dir/ocean avg_0014.nc"])
        S["grid_file"] = rng.choice([None, None, None, "grid.nc", "f_2.nc", "g_*.nc"])
    S["subgrid"] = rng.choice([None, None, [1, 11, 1, 9], [2, 10, 1, 8]])
    S["extra_forcing"] = rng.choice([None, None, ["temp"], []])
    S["advection"] = rng.choice(["EF", "RK2", "RK4"])
    S["diffusion"] = rng.choice([None, None, 0, 0.0] if run else [None, 0, 0.0, 1.0, 0.5, 2, 1e-3])
    S["release_file"] = "release.rls"
    names = ["release_time", "X", "Y", "Z"]
    if rng.random() < 0.4:
        names.insert(0, "mult")
    extra_cols = rng.sample(["farmid", "super", "weight"], rng.randint(0, 2))
    names += extra_cols
    lonlat = rng.random() < 0.25
    if lonlat:
        names += ["lon", "lat"]
    if rng.random() < 0.3:
        rng.shuffle(names)
    S["names"] = names
    S["continuous"] = rng.random() < 0.4
    S["frequency"] = rng.choice([[1, "h"], 1800, "PT30M"]) if (S["continuous"] or rng.random() < 0.35) else None
    conv = []
    if rng.random() < 0.7:
        conv.append(["release_time", "time"])
    if "farmid" in names:
        conv.append(["farmid", "int"])
    if "mult" in names and rng.random() < 0.5:
        conv.append(["mult", "int"])
    rng.shuffle(conv)
    S["converters"] = conv
    if run and ["release_time", "time"] not in conv:  # a release_time particle variable must be of type time to run
        conv.append(["release_time", "time"])
    pv = []
    if rng.random() < 0.6:
        pv.append("release_time")
    ibm_vars = []
    for c in extra_cols:  # an extra column must be a state variable: particle variable or IBM variable
        if c == "farmid" or rng.random() < 0.5:
            pv.append(c)
        else:
            ibm_vars.append(c)
    if not run and rng.random() < 0.15:
        pv.append("X")  # listed but ignored
    if rng.random() < 0.5:
        ibm_vars.append("age")
    if lonlat and rng.random() < 0.3:
        ibm_vars.append("lon")
    if run and S["extra_forcing"] == ["temp"]:  # the forcing writes the extra field into a state variable
        ibm_vars.append("temp")
    rng.shuffle(pv)
    S["particle_vars"] = pv
    S["ibm_vars"] = ibm_vars
    S["ibm_module"] = "myibm" if rng.random() < 0.4 else None
    S["ibm_opts"] = ([["salinity_model", "new"], ["vertical_mixing", 0.001], ["nested", {"a": [1, 2], "b": "c"}],
                      ["egg_buoyancy", 3]][: rng.randint(0, 4)] if S["ibm_module"] and rng.random() < 0.7 else [])
    S["out_file"] = "out.nc"
    per = dt * rng.choice([1, 2, 3])
    S["out_period"] = rng.choice([per, [per, "s"], [per // 60, "m"]])
    S["out_format"] = rng.choice([None, "NETCDF3_CLASSIC", "NETCDF4", "NETCDF3_64BIT"])
    inst = ["pid", "X", "Y", "Z"] + [v for v in uniq(ibm_vars + (["lon", "lat"] if lonlat else [])) if rng.random() < 0.7]
    if run and ("lon" in inst) != ("lat" in inst):  # the Output module writes lon and lat together
        inst = [v for v in inst if v not in ("lon", "lat")]
    if not run and rng.random() < 0.2:
        rng.shuffle(inst)
    S["out_instance"] = [gen_outvar(rng, v, run) for v in inst]
    if rng.random() < 0.6:  # X, Y (Z) with identical settings: candidates for a YAML anchor/alias
        pos = [o for o in S["out_instance"] if o["name"] in ("X", "Y", "Z")][: rng.choice([2, 3])]
        for o in pos[1:]:
            o["attrs"] = [list(a) for a in pos[0]["attrs"]]
    S["out_particle"] = [gen_outvar(rng, v, run) for v in uniq(pv) if v in names and v not in IGNORED and rng.random() < 0.8]
    S["spell"] = {k: rng.random() < 0.5 for k in ("files", "ibm_legacy", "rtype", "min", "version")}
    return S


def break_hypothesis(rng, S):
    """descriptions outside the hypotheses of the theorem (the spellings may then legitimately differ)"""
    k = rng.choice(["legacy-name", "no-frequency", "reserved-output", "reserved-ibm", "reserved-converter", "nomatch"])
    if k == "legacy-name":
        S["module"] = ["custom", "my_" + LEGACY.replace(".", "_")] if rng.random() < 0.5 else ["custom", "x." + LEGACY]
    elif k == "no-frequency":
        S["continuous"], S["frequency"] = True, None
    elif k == "reserved-output":
        S["out_instance"].append(gen_outvar(rng, rng.choice(["format", "outper", "X"])))
    elif k == "reserved-ibm":
        S["ibm_opts"] = [["variables", ["a"]], ["module", "myibm"]][: rng.randint(1, 2)]
    elif k == "reserved-converter":
        S["converters"].append([rng.choice(["release_type", "release_frequency"]), rng.choice(["continuous", "int"])])
    else:
        S["forcing_file"], S["grid_file"] = "nomatch_*.nc", None
    return S


DISK = ["forcing.nc", "f_1.nc", "f_2.nc", "f_10.nc", "f_a.nc", "f_12.nc", "g_1.nc", "data/f_1.nc", "data/f_2.nc",
        "data/f_0.nc", "grid.nc", "f_0.nc", "a_1.nc"]

VERSIONS = [(2, "v2"), ("2.0", "v2"), (2.0, "v2"), ("2", "v2"), (1, "v1"), ("1", "v1"), (1.0, "v1"), ("1.3", "v1"),
            (0, None), ("0", None), (3, "refused"), ("3", "refused"), ("x", "refused"), (True, "refused"),
            (None, "refused"), (0.5, "refused"), ("0.0", "refused"), (10, "v1"), (25.0, "v2"), (-2, "refused"),
            ("", "error"), ([2], "refused"), ("v2", "refused"), (" 2", "refused")]


def gen_cases(ctx):
    rng = ctx.rng
    nsim, nrun, ntree = (70, 26, 90) if ctx.quick else (700, 260, 700)
    # scale cases first: deterministic, no random draws (the random cases below are what they were)
    out = c18_scale.scale_cases()
    # arrangement cases next: deterministic as well (c18_order.py)
    out += c18_order.order_cases()
    cid = 0
    for i in range(nsim):
        run = i < nrun
        S = gen_sim(rng, run)
        if run and i % 6 == 1:  # every sixth run: a discrete release that still carries a (dormant) release frequency
            S["continuous"] = False
            S["frequency"] = [[1, "h"], 1800, "PT30M"][(i // 6) % 3]
        broken = (not run) and rng.random() < 0.12
        if broken:
            S = break_hypothesis(rng, S)
        if run:
            files = list(RUN_FILES)
        else:
            files = [f for f in DISK if rng.random() < 0.75]
            if not expansion_of(S["forcing_file"], files) and S["forcing_file"] != "nomatch_*.nc" and rng.random() < 0.9:
                files = list(DISK)
        out.append({"k": "sim", "id": cid, "S": S, "run": run, "files": files,
                    "omit": [rng.random() < 0.5, rng.random() < 0.5]})
        cid += 1
    # ---- free trees -------------------------------------------------------------------------------
    for i in range(ntree):
        S = gen_sim(rng, False)
        S["spell"]["version"] = False
        files = list(DISK)
        if not expansion_of(S["forcing_file"], files) and ("*" in S["forcing_file"] or "?" in S["forcing_file"]):
            S["forcing_file"] = "f_?.nc"
        what = rng.choice(["version", "version", "missing", "null", "warm", "v1-missing", "v1-warm", "shape"])
        d = {"k": "tree", "id": cid, "files": files, "what": what, "pattern": S["forcing_file"]}
        cid += 1
        if what == "version":
            is_v1 = rng.random() < 0.5
            tree = tree_v1(S) if is_v1 else tree_v2(S, rng.random() < 0.5)
            ver, exp = rng.choice(VERSIONS)
            if rng.random() < 0.15:
                exp = None
            else:
                tree = dict([("version", ver)] + list(tree.items())) if rng.random() < 0.5 else {**tree, "version": ver}
            inferred = "v1" if is_v1 else "v2"
            exp = exp or inferred
            # a tree of the other dialect lacks the keys: the dispatch is still visible in the error class
            d["expect"] = exp if exp in ("refused", "error") or exp == inferred else None
            d["tree"] = tree
        elif what == "missing":
            tree = tree_v2(S, rng.random() < 0.5)
            sec = rng.choice(["tracker", "time", "release", "output", "forcing", "forcing.module", "forcing.filename", "state", "ibm"])
            if "." in sec:
                a, b = sec.split(".")
                tree[a].pop(b, None)
                if rng.random() < 0.5:
                    tree.pop("grid", None)
            else:
                tree.pop(sec, None)
            d["tree"] = tree
        elif what == "null":
            tree = tree_v2(S, rng.random() < 0.5)
            if rng.random() < 0.6:  # only sections that may be given without content: same as empty / omitted
                secs = rng.sample(["state", "grid", "ibm", "warm_start", "tracker"], rng.randint(1, 4))
                other = copy.deepcopy(tree)
                for sec in secs:
                    tree[sec] = None
                    if rng.random() < 0.5 and sec != "tracker":
                        other.pop(sec, None)
                    else:
                        other[sec] = {}
                d["same_as"] = other
                d["what"] = "null-optional"
            else:
                for sec in rng.sample(["tracker", "time", "release", "state", "grid", "ibm", "warm_start", "output"], rng.randint(1, 2)):
                    tree[sec] = None
            d["tree"] = tree
        elif what == "warm":
            tree = tree_v2(S, rng.random() < 0.5)
            good = rng.random() < 0.8
            tree["warm_start"] = {"filename": "warm.nc" if good else "nowarm.nc"}
            if rng.random() < 0.5:
                tree["warm_start"]["variables"] = ["age"]
            d["skip_given"] = True
            if rng.random() < 0.3:
                tree["output"]["skip_initial"] = False
                d["skip_given"] = False
            d["warm"] = good
            d["tree"] = tree
            d["toml"] = rng.random() < 0.4
        elif what == "v1-missing":
            tree = tree_v1(S)
            sec, key = rng.choice([("numerics", "diffusion"), ("numerics", "advection"), ("numerics", "dt"), ("time_control", "stop_time"),
                                   ("files", "output_file"), ("particle_release", "variables"), ("output_variables", "outper"),
                                   ("output_variables", "instance"), ("gridforce", "module"), ("files", None), ("numerics", None),
                                   ("output_variables", "pid")])
            if key is None:
                tree.pop(sec, None)
            else:
                tree[sec].pop(key, None)
            d["tree"] = tree
        elif what == "v1-warm":
            tree = tree_v1(S)
            tree["warm_start"] = {"filename": "warm.nc"}
            d["tree"] = tree
        else:  # odd shapes: particle_variables / variables given as a string or a dict, ibm null
            tree = tree_v1(S)
            r = rng.random()
            if r < 0.3:
                tree["particle_release"]["particle_variables"] = "release_time farmid"
            elif r < 0.5:
                tree["ibm"] = None
            elif r < 0.7:
                tree["ibm"] = {"variables": {"age": 1, "lon": 2}, "ibm_module": "a", "module": "b"}
            elif r < 0.85:
                tree["gridforce"]["module"] = ["ladim1.gridforce.ROMS"]
            else:
                tree["numerics"]["diffusion"] = rng.choice(["", [], None, False, "0"])
            d["tree"] = tree
        if d.get("toml") and has_null(d["tree"]):
            d["toml"] = False
        out.append(d)
    return out


def has_null(v):
    if isinstance(v, dict):
        return any(has_null(x) for x in v.values())
    if isinstance(v, list):
        return any(has_null(x) for x in v)
    return v is None
