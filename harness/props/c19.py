"""C19 — step protocol: recording plug-ins, real runs through ladim.main.main, oracle on the call log.

Every run uses four recording plug-in modules written by this harness into the scratch directory of the
case (grid, forcing, output: subclasses of the real ladim classes; IBM: a stand-alone class that kills listed
pids at listed steps).  Each of them is given to LADiM either
  abs     absolute path without suffix            absdot  absolute path with ".py"
  rel     path relative to the working directory  bare    bare name, the file is in the working directory AND a
  import  importable module name only                     same-named importable decoy is on sys.path
The plug-ins log every __init__/update/close with timer.step and a snapshot of the state into the module
`c19_recorder` (reached through sys.modules).  The built-in modules (clock, state, release, tracker) and
`ladim.model.warm_start` are wrapped in this process to log in the same way.
"""
from __future__ import annotations

import os
import sys
import types
from pathlib import Path

import numpy as np

import c19_scale
import romsfiles as rf
import run_ladim as rl

PROP = "C19"
THEOREM_FILE = "Props/C19.v"
CHECKER = "Corr.C19"
SHARD = 60
RULE = ("Runs: all run lengths N in 0..8 x output periods 1..3 x cold/warm start (thorough: N up to 14, periods 1..5, "
        "four repetitions with other releases, kills and modes), the way each of the four plug-ins is given (abs, abs+.py, relative, bare name with importable decoy, "
        "importable) and which modules have a close rotate with the case index; releases at several steps, IBM kills at "
        "several steps. Loader cases: file exists x importable x suffix x relative/absolute, and pairs of same-named "
        "files in two directories loaded in one process. Scale cases (c19_scale.py, always present, first, oracle only): "
        "full runs through ladim.main.main with 1000..148574 particles (sizes around powers of two and round numbers, a "
        "million stored instances), slow and mass mortality, second releases, 1300..1536 steps with 1536 records / more than "
        "1000 steps between records and forcing frames, warm starts from such output; every IBM call and every record "
        "is compared with the particles living at its time. Non-trivial = distinct (start, N, period, modes, close set, "
        "kill steps) for runs, distinct (file, importable, suffix, relative, pair) for loader cases.")
TRUSTED = ["Coq 8.16.1 kernel + vm_compute", "hand-written models coq/Model/Protocol.v and coq/Model/Sim.v",
           "the logging wrappers of this harness (monkeypatched update/__init__ of the built-in modules, plug-in subclasses)",
           "Corr.C19.annotate (replays timer.step along the model trace)", "netCDF4 for reading the records"]
ASSUMPTIONS = ["modules raise no exception during the run (a refusal at start-up is C20)",
               "a cold run of 0 steps is refused by the releaser (no release inside the window) and is only checked to "
               "make no update and no output module",
               "T2-T4 are proved over the abstract per-particle physics of Model/Sim.v; the oracle checks them on "
               "concrete runs (positions, one nearest-cell scalar field)",
               "the link exec/run_trace = cold_run is proved for cold runs; warm runs are tied by the call log only"]

DT = 600
M_RESTART = 3  # the restart file is the output of a cold run of this many steps; its last record is step M-1
IMAX, JMAX, NLEV = 24, 8, 2
U = 0.25  # m/s on a 1000 m grid: 0.15 grid cells per step
ROLES = ["grid", "forcing", "ibm", "output"]
MODES = ["abs", "absdot", "rel", "bare", "import"]
KIND_CODE = {"construct_state": 10, "construct_time": 11, "construct_grid": 12, "construct_forcing": 13,
             "construct_release": 14, "construct_tracker": 15, "construct_ibm": 16, "construct_output": 17,
             "warm_start": 1, "timer": 2, "compactify": 3, "release": 4, "force": 5, "output": 6, "tracker": 8, "ibm": 9,
             "close_grid": 22, "close_forcing": 23, "close_release": 24, "close_tracker": 25, "close_ibm": 26,
             "close_output": 27}

PLUGIN_SRC = '''"""recording plug-in written by harness/props/c19.py (role @ROLE@)"""
import sys

import numpy as np

REC = sys.modules["c19_recorder"]
WHO = "@WHO@"
CLOSE = "@CLOSE@"


def _log(kind, modules, **extra):
    REC.log(WHO, __name__, globals().get("__file__", ""), kind, modules, extra)


if "@ROLE@" == "grid":
    from ladim.ROMS import Grid as _Grid

    class Grid(_Grid):
        def __init__(self, **kw):
            self._c19_modules = kw.get("modules")
            _log("construct_grid", self._c19_modules)
            super().__init__(**kw)

    if CLOSE == "yes":
        Grid.close = lambda self: _log("close_grid", self._c19_modules)
    elif CLOSE == "attr":
        Grid.close = 5  # an attribute that is not callable: must not be called

if "@ROLE@" == "forcing":
    from ladim.ROMS import Forcing as _Forcing

    class Forcing(_Forcing):
        def __init__(self, modules, **kw):
            _log("construct_forcing", modules)
            super().__init__(modules, **kw)

        def update(self):
            super().update()
            _log("force", self.modules, nvar=int(len(self.variables["u"])))

        def close(self):
            _log("close_forcing", self.modules)
            super().close()

if "@ROLE@" == "output":
    from ladim.out_netcdf import Output as _Output

    class Output(_Output):
        def __init__(self, modules, **kw):
            _log("construct_output", modules)
            super().__init__(modules, **kw)

        def update(self):
            before = self.record_count
            REC.in_output += 1
            try:
                super().update()
            finally:
                REC.in_output -= 1
            _log("output", self.modules, writes=bool(self.record_count > before))

        def close(self):
            _log("close_output", self.modules)
            super().close()

if "@ROLE@" == "ibm":

    class IBM:
        def __init__(self, modules, kill=None, **kw):
            _log("construct_ibm", modules)
            self.modules = modules
            self.kill = {int(k): [int(x) for x in v] for k, v in (kill or {}).items()}

        def update(self):
            state = self.modules["state"]
            step = self.modules["time"].step
            seen = [int(x) for x in state.pid]
            if step in self.kill:
                state["alive"] = state.alive & ~np.isin(state.pid, self.kill[step])
            _log("ibm", self.modules, seen=seen)

    if CLOSE == "yes":
        IBM.close = lambda self: _log("close_ibm", self.modules)
'''


# --------------------------------------------------------------------------------------------------
# recorder and wrappers of the built-in modules
# --------------------------------------------------------------------------------------------------
def make_recorder():
    rec = types.ModuleType("c19_recorder")
    rec.LOG = []
    rec.in_output = 0

    def log(who, modname, file, kind, modules, extra):
        e = {"who": who, "mod": modname, "file": str(file), "kind": kind, "step": -1, "nested": rec.in_output > 0}
        if modules and "time" in modules:
            e["step"] = int(modules["time"].step)
        if modules and "state" in modules:
            st = modules["state"]
            e["pid"] = [int(x) for x in st.pid]
            e["X"] = [float(x) for x in st.X]
            e["alive"] = [bool(x) for x in st.alive]
            if "temp" in st.variables:
                e["temp"] = [float(x) for x in st["temp"]]
        e.update(extra)
        rec.LOG.append(e)

    rec.log = log
    sys.modules["c19_recorder"] = rec
    return rec


class Patches:
    """Wrap update/__init__ of the built-in modules (and optional close methods) to log."""

    def __init__(self, rec, close_release, close_tracker):
        import ladim.model
        import ladim.release
        import ladim.state
        import ladim.timekeeper
        import ladim.tracker

        self.undo = []
        State, TK = ladim.state.State, ladim.timekeeper.TimeKeeper
        Rel, Trk = ladim.release.ParticleReleaser, ladim.tracker.Tracker

        def log(kind, modules):
            rec.log("builtin", "builtin", "", kind, modules, {})

        def wrap(cls, name, kind, before):
            orig = cls.__dict__[name]

            def f(self, *a, **kw):
                mods = kw.get("modules") if name == "__init__" else getattr(self, "modules", None)
                if name == "__init__" and mods is None and a and isinstance(a[0], dict):
                    mods = a[0]
                if before:
                    log(kind, mods)
                if kind == "tracker":
                    # the tracker's compiled kernels index the forcing's per-particle cache without bounds
                    # check: stop with an exception instead of reading out of bounds
                    nk, ns = len(getattr(mods["forcing"], "K", [])), len(mods["state"])
                    if nk != ns:
                        raise RuntimeError(f"tracker called at step {mods['time'].step} with a forcing cache for {nk} "
                                           f"particles and a state of {ns} particles (forcing not evaluated after the release)")
                r = orig(self, *a, **kw)
                if not before:
                    log(kind, mods)
                return r

            setattr(cls, name, f)
            self.undo.append((cls, name, orig))

        wrap(State, "__init__", "construct_state", True)
        wrap(TK, "__init__", "construct_time", True)
        wrap(Rel, "__init__", "construct_release", True)
        wrap(Trk, "__init__", "construct_tracker", True)
        wrap(TK, "update", "timer", False)
        wrap(State, "compactify", "compactify", False)
        wrap(Rel, "update", "release", False)
        wrap(Trk, "update", "tracker", False)
        for cls, flag, kind in ((Rel, close_release, "close_release"), (Trk, close_tracker, "close_tracker")):
            if flag:
                setattr(cls, "close", lambda self, kind=kind: log(kind, self.modules))
                self.undo.append((cls, "close", None))
        orig_ws = ladim.model.warm_start

        def ws(filename, variables, state):
            log("warm_start", state.modules)
            return orig_ws(filename, variables, state)

        ladim.model.warm_start = ws
        self.undo.append((ladim.model, "warm_start", orig_ws))

    def restore(self):
        for obj, name, orig in reversed(self.undo):
            if orig is None:
                delattr(obj, name)
            else:
                setattr(obj, name, orig)


# --------------------------------------------------------------------------------------------------
# cases
# --------------------------------------------------------------------------------------------------
def gen_cases(ctx):
    rng = ctx.rng
    out = list(c19_scale.gen_cases())  # deterministic cases of realistic size, always first (no random draws)
    nmax, pmax = (8, 3) if ctx.quick else (14, 5)
    k = 0
    for rep in range(1 if ctx.quick else 4):
        for warm in (False, True):
            for N in range(0, nmax + 1):
                for p in range(1, pmax + 1):
                    modes = {r: MODES[(k + 2 * j + rep) % 5] for j, r in enumerate(ROLES)}
                    if rng.random() < 0.3:
                        modes = {r: rng.choice(MODES) for r in ROLES}
                    close = {"grid": ["no", "yes", "attr"][k % 3], "ibm": ["yes", "no"][(k // 3) % 2],
                             "release": (k // 2) % 3 == 1, "tracker": (k // 5) % 2 == 1}
                    # releases: absolute steps (0 = start of the cold restart run); at least one row at step 0
                    last = (M_RESTART - 1 + N) if warm else N
                    rows = [[0, 3.1 + 0.37 * i] for i in range(rng.randint(2, 3))]
                    for _ in range(rng.randint(0, 4)):
                        rows.append([rng.randint(0, max(0, last - 1)), round(rng.uniform(2.6, 9.4), 3)])
                    if (not warm) and N >= 5 and k % 4 == 2:
                        # every fourth cold run: nothing is released before step 3 (the model runs empty for three steps
                        # under time-varying forcing, then particles arrive, between two forcing frames)
                        rows = [[max(3, r[0]), r[1]] for r in rows]
                    rows.sort(key=lambda r: r[0])
                    npart = len(rows)
                    kills = {}
                    for _ in range(rng.randint(0, 3)):
                        if N > 0:
                            kills.setdefault(rng.randint(0, N - 1), []).append(rng.randint(0, npart - 1))
                    out.append({"k": "run", "id": k, "warm": warm, "N": N, "p": p, "modes": modes, "close": close,
                                "rows": rows, "kills": {str(a): sorted(set(b)) for a, b in kills.items()}})
                    k += 1
    # loader cases
    for fe in (True, False):
        for imp in (True, False):
            for suffix in (True, False):
                for rel in (True, False):
                    out.append({"k": "load", "id": k, "file": fe, "importable": imp, "suffix": suffix, "relative": rel,
                                "stem": rng.choice(["plug", "my_ibm", "a.b", "x", "spy", "happy"])})
                    k += 1
    # dotted plug-in names ("drift_v1.1" for the file drift_v1.1.py, with an older sibling drift_v1.py next to it)
    for stem in ("a.b", "drift_v1.1"):
        for suffix in (True, False):
            for rel in (True, False):
                out.append({"k": "load", "id": k, "file": True, "importable": False, "suffix": suffix, "relative": rel, "stem": stem})
                k += 1
    for suffix in (True, False):
        for rel in (True, False):
            out.append({"k": "pair", "id": k, "suffix": suffix, "relative": rel, "stem": rng.choice(["plug", "same"])})
            k += 1
    return out


def enc(s):
    b = [ord(ch) for ch in s]
    return [len(b)] + b


# --------------------------------------------------------------------------------------------------
# loader cases
# --------------------------------------------------------------------------------------------------
def one_load(d, stem, file, importable, suffix, relative, token):
    """Returns (payload for Coq, oracle message or None, observation)"""
    from ladim.model import load_module

    d.mkdir(parents=True, exist_ok=True)
    pdir = d / "plugdir"
    pdir.mkdir(exist_ok=True)
    idir = d / "importdir"
    idir.mkdir(exist_ok=True)
    if file:
        (pdir / f"{stem}.py").write_text(f'WHO = "{token}"\n')
        if "." in stem:  # an older sibling whose name is the part before the last dot
            (pdir / (stem.rsplit(".", 1)[0] + ".py")).write_text('WHO = "sibling"\n')
    # the same-named importable module: only a bare name can be imported at all
    impname = ""
    if importable:
        (idir / f"{stem}.py").write_text('WHO = "importable"\n')
        impname = stem if "." not in stem else ""
    cwd = os.getcwd()
    if relative:
        os.chdir(pdir)
        given = stem
    else:
        given = str(pdir / stem)
    existing = (f"{stem}.py" if relative else str(pdir / f"{stem}.py")) if file else ""
    if not relative:
        impname = ""  # an absolute path is not an importable name
    if suffix:
        given += ".py"
    sys.path.insert(0, str(idir))
    try:
        try:
            m = load_module(given)
            who = getattr(m, "WHO", None)
            ofile, oname = str(getattr(m, "__file__", "")), m.__name__
            if relative and ofile.startswith(str(pdir.resolve()) + os.sep):
                ofile = os.path.relpath(ofile, pdir.resolve())  # the loader was given a path relative to pdir
            outcome = 0 if oname.startswith("ladim_custom_") else 1
        except SystemExit:
            who, ofile, oname, outcome = None, "", "", 2
        except ModuleNotFoundError:  # pragma: no cover - converted to SystemExit by the code
            who, ofile, oname, outcome = None, "", "", 3
    finally:
        os.chdir(cwd)
        sys.path.remove(str(idir))
        # forget the importable module again (NOT anything the loader itself may have registered)
        for name, mod in list(sys.modules.items()):
            if name == stem and getattr(mod, "WHO", None) is not None:
                del sys.modules[name]
    # property text: a module given by path is the one that runs
    if file:
        want = token
    elif impname:
        want = "importable"
    else:
        want = None
    oracle = None
    if who != want:
        oracle = (f"load_module({given!r}) with file {'present' if file else 'absent'} (token {token}) and importable "
                  f"{'present' if impname else 'absent'}: got module {who!r} ({ofile or oname or 'SystemExit'}), expected {want!r}")
    if outcome == 1:
        ofile = ""
    payload = enc(given) + enc(existing) + enc(impname) + [outcome] + enc(ofile) + enc(oname)
    return payload, oracle, {"given": given, "who": who, "file": ofile, "name": oname, "outcome": outcome}


def eval_load(desc, ctx):
    d = ctx.subdir(f"load_{desc['id']}")
    if desc["k"] == "load":
        payload, oracle, obs = one_load(d, desc["stem"], desc["file"], desc["importable"], desc["suffix"], desc["relative"],
                                        f"file-{desc['id']}")
        return {"ints": [2] + payload, "oracle": oracle, "kind": "load",
                "nontrivial": ("load", desc["file"], desc["importable"], desc["suffix"], desc["relative"]), "observed": obs}
    # two files with the same base name in two directories, loaded one after the other in this process
    p1, o1, obs1 = one_load(d / "first", desc["stem"], True, False, desc["suffix"], desc["relative"], f"first-{desc['id']}")
    p2, o2, obs2 = one_load(d / "second", desc["stem"], True, False, desc["suffix"], desc["relative"], f"second-{desc['id']}")
    return {"ints": [3, len(p1)] + p1 + p2, "oracle": o1 or o2, "kind": "load-pair",
            "nontrivial": ("pair", desc["suffix"], desc["relative"]), "observed": [obs1, obs2]}


# --------------------------------------------------------------------------------------------------
# runs
# --------------------------------------------------------------------------------------------------
def temp_field(nframes):
    t = np.zeros((nframes, NLEV, JMAX, IMAX))
    for k in range(nframes):
        t[k] = 100.0 * k + np.arange(IMAX)[None, None, :]
    return t


def write_inputs(d, rows, nframes):
    times = [k * 2 * DT for k in range(nframes)]  # a forcing frame every SECOND step: the scalar field holds between frames
    rf.write_roms(d / "f.nc", imax=IMAX, jmax=JMAX, N=NLEV, times=times, u=U, extra={"temp": temp_field(nframes)}, h=100.0)
    rf.write_release(d / "r.rls", [[int(s) * DT, float(x), 4.2, 5.0] for s, x in rows])


def base_conf(d, start, stop, p, out_name):
    conf = rf.base_config(start=start * DT, stop=stop * DT, dt=DT, forcing_file=d / "f.nc", release_file=d / "r.rls",
                          out_file=d / out_name, advection="EF", output_period=p * DT, reference=0,
                          instance_variables=("pid", "X", "Y", "Z", "temp"))
    conf["state"] = {"instance_variables": {"temp": "float"}, "default_values": {"temp": -1.0}}
    conf["forcing"]["extra_forcing"] = ["temp"]
    return conf


def install_plugins(d, desc):
    """Write the plug-in files; returns (module strings per role, tokens per role, expected files, cleanup list)"""
    cid = desc["id"]
    mods, tokens, files, syspaths, impnames = {}, {}, {}, [], []
    for role in ROLES:
        mode = desc["modes"][role]
        token = f"{role}-{cid}-{mode}"
        tokens[role] = token
        close = {"grid": desc["close"]["grid"], "ibm": desc["close"]["ibm"]}.get(role, "yes")
        src = PLUGIN_SRC.replace("@ROLE@", role).replace("@WHO@", token).replace("@CLOSE@", close)
        stem = f"rec_{role}"  # the same base name in every case: many same-named plug-in files in one process
        if mode in ("abs", "absdot", "rel"):
            pd = d / "plug"
            pd.mkdir(exist_ok=True)
            f = pd / f"{stem}.py"
            f.write_text(src)
            mods[role] = {"abs": str(pd / stem), "absdot": str(f), "rel": f"plug/{stem}"}[mode]
            files[role] = str(f) if mode != "rel" else f"plug/{stem}.py"
        elif mode == "bare":
            f = d / f"{stem}.py"  # the working directory of the run
            f.write_text(src)
            dd = d / "decoy"
            dd.mkdir(exist_ok=True)
            (dd / f"{stem}.py").write_text(src.replace(token, "WRONG MODULE RAN"))
            if str(dd) not in syspaths:
                syspaths.append(str(dd))
            impnames.append(stem)
            mods[role] = stem
            files[role] = f"{stem}.py"
        else:  # importable only
            idir = d / "imp"
            idir.mkdir(exist_ok=True)
            name = f"c19imp_{role}_{cid}"
            (idir / f"{name}.py").write_text(src)
            if str(idir) not in syspaths:
                syspaths.append(str(idir))
            impnames.append(name)
            mods[role] = name
            files[role] = str(idir / f"{name}.py")
    return mods, tokens, files, syspaths, impnames


def do_run(d, conf, desc, rec):
    """Run through ladim.main.main with the recording set-up; returns (log, exception or None)"""
    mods, tokens, files, syspaths, impnames = install_plugins(d, desc)
    for role in ROLES:
        conf[role]["module"] = mods[role]
    if desc["kills"]:
        conf["ibm"]["kill"] = {int(k): v for k, v in desc["kills"].items()}
    rec.LOG.clear()
    rec.in_output = 0
    patches = Patches(rec, desc["close"]["release"], desc["close"]["tracker"])
    for sp in syspaths:
        sys.path.insert(0, sp)
    err = None
    try:
        rl.run_main(conf, d)
    except (SystemExit, Exception) as e:  # noqa: BLE001
        err = e
    finally:
        patches.restore()
        for sp in syspaths:
            sys.path.remove(sp)
        for name in list(sys.modules):
            if name in impnames:  # importable plug-ins / decoys of this case (NOT what the loader registered)
                del sys.modules[name]
    return list(rec.LOG), err, tokens, files


def eval_case(desc, ctx):
    if desc["k"] == "scale":
        return c19_scale.eval_scale(desc, ctx)
    if desc["k"] in ("load", "pair"):
        return eval_load(desc, ctx)
    rec = sys.modules.get("c19_recorder") or make_recorder()
    d = ctx.subdir(f"run_{desc['id']}")
    warm, N, p = desc["warm"], desc["N"], desc["p"]
    rows = desc["rows"]
    s0 = (M_RESTART - 1) if warm else 0  # absolute step of the start of the recorded run
    write_inputs(d, rows, s0 + N + 3)
    restart = None
    if warm:
        # restart file: plain cold run (built-in modules, no kills) of M_RESTART steps, a record every step
        c0 = base_conf(d, 0, M_RESTART, 1, "restart.nc")
        guard = Patches(rec, False, False)  # only for the guard in front of the tracker's compiled kernels
        try:
            rl.run_main(c0, d)
        finally:
            guard.restore()
        restart = rl.read_sparse(d / "restart.nc")["records"][-1]
        conf = base_conf(d, 0, s0 + N, p, "out.nc")
        del conf["time"]["start"]
        conf["warm_start"] = {"filename": str(d / "restart.nc"), "variables": ["temp"]}
    else:
        conf = base_conf(d, 0, N, p, "out.nc")
    # in half of the runs the output period is not a whole number of time steps (a quarter / three quarters of a step
    # more): records are still due every p steps, and each must carry the time of ITS step
    conf["output"]["output_period"] = p * DT + [0, DT // 4, 0, (3 * DT) // 4][desc["id"] % 4]
    log, err, tokens, files = do_run(d, conf, desc, rec)
    top = [e for e in log if not e["nested"]]
    kinds = [e["kind"] for e in top]
    hc = {"grid": desc["close"]["grid"] == "yes", "forcing": True, "release": desc["close"]["release"],
          "tracker": desc["close"]["tracker"], "ibm": desc["close"]["ibm"] == "yes", "output": True}
    nt = ("run", warm, N, p, tuple(desc["modes"][r] for r in ROLES), tuple(sorted(hc.items())), tuple(sorted(desc["kills"])))
    observed = {"calls": "".join(" " + k[:2] + (str(e["step"]) if k in ("timer",) else "") for k, e in zip(kinds, top))[:600],
                "error": repr(err) if err else None}

    if err is not None:
        # a cold run of zero steps has no release inside the window: refused at start-up (C20)
        if N == 0 and not warm and not any(k in ("timer", "release", "force", "output", "tracker", "ibm", "construct_output")
                                           for k in kinds):
            return {"ints": None, "oracle": None, "nontrivial": nt, "kind": "run-cold-refused-N0", "observed": observed}
        return {"ints": None, "oracle": f"run stopped with {err!r} (warm={warm}, N={N}, p={p})", "nontrivial": None,
                "kind": "run-error", "observed": observed}

    # ---- case for Coq: the call log as (code, step) pairs --------------------------------------------
    obs = []
    for e in top:
        c = KIND_CODE[e["kind"]]
        if e["kind"] == "output" and e.get("writes"):
            c = 7
        obs += [c, e["step"]]
    ints = [1, 1 if warm else 0, N, p] + [1 if hc[m] else 0 for m in ("grid", "forcing", "release", "tracker", "ibm", "output")] + obs

    # ---- oracle: the property text on the log and on the files --------------------------------------
    problems = []
    per_step = {}
    for e in top:
        if e["kind"] in ("release", "force", "output", "tracker", "ibm"):
            per_step.setdefault(e["step"], []).append(e)
    loop_steps = list(range(1, N)) if warm else list(range(0, N))
    want_steps = ([0] if warm else []) + loop_steps
    if sorted(per_step) != want_steps:
        problems.append(f"steps with module calls {sorted(per_step)}, expected {want_steps}")
    for s, es in sorted(per_step.items()):
        want = ["release", "force", "tracker", "ibm"] if (warm and s == 0) else ["release", "force", "output", "tracker", "ibm"]
        got = [e["kind"] for e in es]
        if got != want:
            problems.append(f"step {s}: calls {got}, expected {want}")
    nibm = kinds.count("ibm")
    if nibm != len(want_steps):
        problems.append(f"IBM called {nibm} times in a run of {len(want_steps)} steps")

    # who ran: the plug-in given by path / name of THIS case, never the decoy or a plug-in of another case
    for e in top:
        for role in ROLES:
            if e["kind"] in (f"construct_{role}", f"close_{role}", {"forcing": "force"}.get(role, role)):
                if e["who"] != tokens[role]:
                    problems.append(f"{e['kind']} at step {e['step']} was run by {e['who']!r} from {e['file']}, "
                                    f"the configured {role} module is {tokens[role]!r} ({files[role]})")
    # closes: once per module that has one, after all updates
    for m, has in hc.items():
        n = kinds.count(f"close_{m}")
        if n != (1 if has else 0):
            problems.append(f"close of {m} called {n} times (has a callable close: {has})")
    first_close = min([i for i, k in enumerate(kinds) if k.startswith("close_")], default=len(kinds))
    if any(not k.startswith("close_") for k in kinds[first_close:]):
        problems.append(f"calls after the first close: {kinds[first_close:]}")

    # forcing evaluated with all particles incl. the newly released ones; records
    by = {(e["kind"], e["step"]): e for e in top if e["kind"] in ("force", "ibm", "output")}
    rel_at = {}
    for s, x in rows:
        rel_at.setdefault(int(s), []).append(float(x))
    if warm:
        living = {int(q): float(x) for q, x in zip(restart["vars"]["pid"], restart["vars"]["X"])}
        npid = sum(len(v) for s, v in rel_at.items() if s <= s0)
    else:
        living, npid = {}, 0
    killed_at = {}
    expected_at = {}  # step -> {pid: X} valid at the time of the step, before the move
    for s in want_steps:
        if not (warm and s == 0):
            for x in rel_at.get(s0 + s, []):
                living[npid] = x
                npid += 1
        expected_at[s] = dict(living)
        f = by.get(("force", s))
        if f is not None:
            if sorted(f["pid"]) != sorted(living):
                problems.append(f"step {s}: forcing evaluated for pids {sorted(f['pid'])}, living incl. new ones are {sorted(living)}")
            if f.get("nvar") != len(f["pid"]):
                problems.append(f"step {s}: forcing variables for {f.get('nvar')} particles, state has {len(f['pid'])}")
            for q, x in zip(f["pid"], f["X"]):
                if q in living and abs(x - living[q]) > 1e-12:
                    problems.append(f"step {s}: pid {q} at X={x} when forcing is evaluated, end of previous step / release was {living[q]}")
        i = by.get(("ibm", s))
        if i is not None:
            if sorted(i.get("seen", [])) != sorted(living):
                problems.append(f"step {s}: IBM saw pids {sorted(i.get('seen', []))}, living are {sorted(living)}")
            if f is not None and i["pid"] == f["pid"] and i["X"] and not any(abs(a - b) > 1e-9 for a, b in zip(i["X"], f["X"])):
                problems.append(f"step {s}: IBM called before the particles were moved")
            living = {q: x for q, x, a in zip(i["pid"], i["X"], i["alive"]) if a}
            dead = [q for q, a in zip(i["pid"], i["alive"]) if not a]
            if dead:
                killed_at[s] = dead
    # records
    recs = []
    if (d / "out.nc").exists():
        try:
            recs = rl.read_sparse(d / "out.nc")["records"]
        except Exception as e:  # noqa: BLE001
            problems.append(f"output file unreadable: {e}")
    wrote = [e["step"] for e in top if e["kind"] == "output" and e.get("writes")]
    want_wrote = [s for s in loop_steps if s % p == 0]
    if wrote != want_wrote:
        problems.append(f"records written at steps {wrote}, due at {want_wrote}")
    if len(recs) != len(wrote):
        problems.append(f"{len(recs)} records in the file, output module wrote {len(wrote)} times")
    rec_pids = {}
    for s, r in zip(wrote, recs):
        pid, X, T = [int(q) for q in r["vars"]["pid"]], r["vars"]["X"], r["vars"]["temp"]
        rec_pids[s] = pid
        if r["time"] != float((s0 + s) * DT):
            problems.append(f"record of step {s} has time {r['time']}, expected {(s0 + s) * DT}")
        want = expected_at.get(s, {})
        if sorted(pid) != sorted(want):
            problems.append(f"record of step {s} holds pids {pid}, living at that time: {sorted(want)}")
        for q, x, t in zip(pid, X, T):
            if q in want and abs(x - want[q]) > 1e-12:
                problems.append(f"record of step {s}: pid {q} X={x}, position valid at that time is {want[q]}")
            frac = x - np.floor(x)
            if abs(frac - 0.5) > 1e-6:
                tw = 100.0 * ((s0 + s) // 2) + float(np.round(x))  # the latest frame at or before the step
                if t != tw:
                    problems.append(f"record of step {s}: pid {q} at X={x} has temp={t}, the field there and then is {tw}")
    # kills take effect from the next record on
    for n, dead in killed_at.items():
        for q in dead:
            if n in rec_pids and q not in rec_pids[n]:
                problems.append(f"pid {q} killed in step {n} is missing from the record of step {n}")
            later = [s for s in rec_pids if s > n and q in rec_pids[s]]
            if later:
                problems.append(f"pid {q} killed in step {n} is still in the records of steps {later}")
    for sk, qs in desc["kills"].items():
        sk = int(sk)
        for q in qs:
            if sk in expected_at and q in expected_at[sk] and q not in killed_at.get(sk, []):
                problems.append(f"IBM kill of pid {q} at step {sk} not seen in the state at the end of that step")

    observed["records_at"] = wrote
    observed["killed"] = {str(a): b for a, b in killed_at.items()}
    return {"ints": ints, "oracle": "; ".join(problems[:6]) or None, "nontrivial": nt,
            "kind": ("run-warm" if warm else "run-cold"), "observed": observed}
