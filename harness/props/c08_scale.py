"""C08 at realistic scale: restart transparency of LARGE restart files / LATE restarts — real code end to end.

The generated cases of c08.py are small (a handful of particles, a dozen steps).  The cases here are deterministic and
exercise ladim.main.main with restart files of > 100 000 particle instances (particles x records), last records of
> 100 000 particles, > 100 records per file, > 1000 output files, > 1000 steps between two records, tens of thousands
of particles released in total of which few are alive, and a reference time decades before the run.  The oracle is
the property itself, stated for EVERY record written after the restart: the files of the run restarted from a file
boundary hold the same times, particle counts, identifiers (exactly) and state (to the tolerance of c08_impl.compare,
1e-9) and the same particle variables as the files of the uninterrupted run.  Everything is compared on whole numpy
arrays; nothing here looks at private attributes of ladim.

A scenario (JSON):
  name, P (particles released at step 0 on a dyadic lattice, pids 0..P-1), N (steps), p (output period, steps), numrec,
  dt, adv, u, pvars (particle variable release_time in state + output + warm start variables), reference (seconds after
  2000-01-01 of the output's reference time),
  young [step, count, kill_step]: `count` particles released at `step`, killed by the IBM at `kill_step`,
  edge [step, count]: particles released just inside the open eastern boundary: they die by leaving the grid,
  thin [[step, mod, res], ...]: the step-0 particles with pid % mod == res are killed by the IBM at `step`,
  later [[step, count, as_mult], ...]: releases later on (one row with mult = count, or count rows of which every
  second one lies at the open boundary),
  lifetime (seconds or None), continuous (seconds or None), restart (list of file indices, None = every boundary),
  first_file (number of the first output file, default 0).
Without particle variables the number of particles released so far can only be recovered from the identifiers in
the restart file, so such scenarios restart only from files that hold the highest identifier handed out so far (in
any of its records, not necessarily a late one).
"""
from __future__ import annotations

import numpy as np
import pandas as pd
from netCDF4 import Dataset

import c08_impl
import romsfiles as rf
import run_ladim as rl

TOL = 1e-9  # as c08_impl.compare
IVARS = ("pid", "X", "Y", "Z", "age", "temp")

SCENARIOS = [
    # restart file of 4097 x 32 = 131 000 instances; the youngest particles of the first leg (pids 4097..4146) live
    # for one or two records at the very start of it; releases (a burst of 1025 with mult, single rows) after the
    # restart, where the 4097 die of age (step 40)
    {"name": "4097x32-young-die-early", "P": 4097, "N": 48, "p": 1, "numrec": 32, "dt": 600, "adv": "EF", "u": 0.01, "pvars": False,
     "young": [1, 45, 2], "edge": [1, 5], "thin": [[5, 64, 3]], "later": [[36, 3, False], [40, 1025, True], [44, 7, False]],
     "lifetime": 24000, "restart": [0]},
    # 20 000 x 8 records; RK4; lifetime: the 20 000 die at step 6, the last two records of the restart file are small
    {"name": "20000x8-mass-death", "P": 20000, "N": 12, "p": 1, "numrec": 8, "dt": 600, "adv": "RK4", "u": 0.01, "pvars": False,
     "young": [1, 10, 3], "edge": [2, 3], "thin": [[2, 1000, 999]], "later": [[4, 2, False], [9, 4096, True], [10, 5, False]],
     "lifetime": 3600, "restart": [0]},
    # a last record of > 100 000 particles (130 000 x 3 records = 390 000 instances), output reference time 1970
    {"name": "130000x3-big-last-record", "P": 130000, "N": 5, "p": 1, "numrec": 3, "dt": 600, "adv": "EF", "u": 0.01, "pvars": False,
     "young": [1, 70, 1], "edge": [1, 2], "thin": [[1, 128, 77]], "later": [[3, 10000, True], [4, 3, False]],
     "reference": -946684800, "restart": [0]},
    # many records per file (130), 1025 particles: 133 000 instances, RK2, restarts from both boundaries
    {"name": "1025x130-many-records", "P": 1025, "N": 300, "p": 1, "numrec": 130, "dt": 600, "adv": "RK2", "u": 0.002, "pvars": False,
     "young": [2, 20, 4], "edge": [3, 4], "thin": [[100, 8, 1]], "later": [[140, 1000, True], [255, 2, False], [270, 3, False]],
     "lifetime": 120000, "restart": [0, 1]},
    # continuous release of 1500 + 24 particles every step with a lifetime of 5 steps: > 60 000 released in total
    # (the particle dimension), about 7500 alive; particle variable release_time; restart from every boundary
    {"name": "continuous-62000-released-pvars", "P": 1500, "N": 40, "p": 1, "numrec": 16, "dt": 600, "adv": "EF", "u": 0.01, "pvars": True,
     "young": None, "edge": [0, 24], "thin": [], "later": [], "lifetime": 3000, "continuous": 600, "restart": None},
    # with particle variables, 70 000 + 1030 particles all dead long before the restart, a few released after it
    {"name": "70000-dead-few-alive-pvars", "P": 70000, "N": 9, "p": 1, "numrec": 3, "dt": 600, "adv": "EF", "u": 0.01, "pvars": True,
     "young": [1, 1030, 1], "edge": [1, 1], "thin": [[1, 64, 0]], "later": [[3, 2, False], [7, 3, False], [8, 1, True]],
     "lifetime": 1800, "restart": None},
    # late in the life of a run: 3600 steps of one minute, a record every 1200 steps (> 1000 steps between records and
    # between forcing frames), one record per file, restart from each of them; three particles live and die between
    # two records (steps 1100-1150): only the particle variables know of them
    {"name": "3600-steps-record-every-1200", "P": 17, "N": 3600, "p": 1200, "numrec": 1, "dt": 60, "adv": "EF", "u": 0.0005, "pvars": True,
     "young": [1100, 3, 1150], "edge": [1199, 2], "thin": [[600, 4, 1]], "later": [[1900, 2, False], [2100, 1, False], [2300, 5, True]],
     "restart": None},
    # output files numbered 990 ... 1030 (one record each) as late in a long split run: restarts from files 998, 999
    # (the numbering gets a fourth digit) and 1023
    {"name": "file-numbers-990-to-1030", "P": 5, "N": 40, "p": 1, "numrec": 1, "dt": 600, "adv": "EF", "u": 0.0005, "pvars": True,
     "first_file": 990, "young": [6, 2, 7], "edge": [5, 1], "thin": [[3, 2, 1]], "later": [[11, 2, False], [34, 3, True], [37, 1, False]],
     "restart": [8, 9, 33]},
]


def restart_steps(sc):
    """steps of the last records of the files a restart is made from (None: every file but the last)"""
    nrec = -(-sc["N"] // sc["p"])  # records at steps 0, p, 2p, ... < N
    nfiles = -(-nrec // sc["numrec"])
    rs = range(nfiles - 1) if sc.get("restart") is None else sc["restart"]
    return [((r + 1) * sc["numrec"] - 1) * sc["p"] for r in rs if r < nfiles - 1]


def valid(sc):
    """The plug-in IBM kills by the step counter of the RUN, which a restarted run starts again from zero: a listed
    kill is the same event in both runs only if it happens before the restart (or the restart is at step 0).  Without
    particle variables the restart file has to hold the highest identifier handed out so far (see the module text):
    guaranteed here by construction of the table, checked by eval only through `observed`."""
    kills = [t[0] for t in sc.get("thin") or []] + ([sc["young"][2]] if sc.get("young") else [])
    steps = restart_steps(sc)
    return bool(steps) and all(s == 0 or all(k < s for k in kills) for s in steps) and sc["P"] <= 131072


def release_table(sc):
    """The release file as a DataFrame (release_time, mult, X, Y, Z), built without a loop over particles"""
    dt = sc["dt"]
    P = sc["P"]
    i = np.arange(P)
    # dyadic lattice in the deep western part of the 16 x 8 grid of c08_impl.write_inputs (valid region 1.5 < X < 13.5,
    # 1.5 < Y < 5.5; 100 m deep west of X = 5): all positions distinct, rows of 384, P <= 131072 stays south of Y = 4.5
    parts = [(np.zeros(P, dtype=int), np.ones(P, dtype=int), 2.0 + (i % 384) / 128.0, 1.75 + (i // 384) / 128.0,
              np.where(i % 3 == 0, 70.0, 20.0))]

    def block(step, n, x, y, z, mult=1):
        parts.append((np.full(n, step * dt, dtype=int), np.full(n, mult, dtype=int), np.broadcast_to(np.asarray(x, dtype=float), (n,)),
                      np.broadcast_to(np.asarray(y, dtype=float), (n,)), np.full(n, float(z))))

    if sc.get("edge"):
        s, n = sc["edge"]
        j = np.arange(n)
        # the valid region ends at X = 13.5: they leave it within a few steps (a few hundred when u is tiny)
        block(s, n, 13.4921875 - (j % 4) / 64.0, 2.0 + (j % 24) / 8.0, 5.0)
    if sc.get("young"):  # after the edge block: the youngest of their step
        s, n, _ = sc["young"]
        j = np.arange(n)
        block(s, n, 6.5 + (j % 64) / 32.0, 2.0 + (j // 64) / 32.0, 10.0)
    for k, (s, n, as_mult) in enumerate(sc.get("later") or []):
        if as_mult:
            block(s, 1, 7.25, 3.0 + k / 16.0, 10.0, mult=n)
        else:
            # even rows in the interior, odd rows just inside the open boundary (they die by leaving the grid)
            j = np.arange(n)
            h = j // 2
            block(s, n, np.where(j % 2 == 0, 3.0 + (h % 128) / 32.0, 13.4921875 - (h % 4) / 64.0),
                  np.where(j % 2 == 0, 5.0 + k / 64.0, 2.0625 + (h % 24) / 8.0), 20.0)
    t = np.concatenate([q[0] for q in parts])
    order = np.argsort(t, kind="stable")
    df = pd.DataFrame({
        "release_time": np.datetime_as_string(rf.EPOCH + t[order].astype("timedelta64[s]")),
        "mult": np.concatenate([q[1] for q in parts])[order],
        "X": np.concatenate([q[2] for q in parts])[order],
        "Y": np.concatenate([q[3] for q in parts])[order],
        "Z": np.concatenate([q[4] for q in parts])[order],
    })
    return df


def impl_scenario(sc):
    """The scenario in the vocabulary of c08_impl (forcing, configuration)"""
    kill = {}
    for step, mod, res in sc.get("thin") or []:
        kill.setdefault(int(step), []).extend(int(q) for q in range(res, sc["P"], mod))
    if sc.get("young"):
        s, n, ks = sc["young"]
        # identifiers are handed out in release order: the step-0 lattice first, then block by block in time order
        # (edge, young, later within a step)
        first = sc["P"]
        if sc.get("continuous"):
            raise ValueError("young particles and continuous release are not combined")
        if sc.get("edge") and sc["edge"][0] <= s:
            first += sc["edge"][1]
        for lt in sc.get("later") or []:
            if lt[0] < s:
                first += lt[1]
        kill.setdefault(int(ks), []).extend(range(first, first + n))
    return {"N": sc["N"], "p": sc["p"], "numrec": sc["numrec"], "dt": sc["dt"], "adv": sc.get("adv", "EF"),
            "lifetime": sc.get("lifetime"), "kill": kill or None, "rows": [], "continuous": sc.get("continuous"),
            "u": sc.get("u", 0.01), "reference": sc.get("reference", 0), "offgrid": False, "pvars": sc.get("pvars", False)}


def ref_offset(units):
    """seconds from 2000-01-01 to the reference time of a 'seconds since ...' units string"""
    ref = np.datetime64(units.split("since")[1].strip().replace(" ", "T"), "s")
    return float((ref - rf.EPOCH) / np.timedelta64(1, "s"))


def files_of(d, stem):
    """output files stem_<number>.nc in NUMERIC order (the numbering gets a fourth digit after file 999)"""
    return sorted(d.glob(stem + "_*.nc"), key=lambda f: int(f.stem.split("_")[-1]))


def configuration(d, sc, isc, out_name):
    conf = c08_impl.make_conf(d, isc, out_name)
    conf["release"]["names"] = ["release_time", "mult", "X", "Y", "Z"]
    return conf


def read_files(paths):
    """All records of a sequence of output files as whole arrays:
    time (absolute seconds), count per record, instance variables concatenated, particle variables per file,
    records per file"""
    times, counts, nrec = [], [], []
    inst = {v: [] for v in IVARS}
    pvars = []
    for path in paths:
        with Dataset(path) as nc:
            nc.set_auto_mask(False)
            tv = nc.variables["time"]
            times.append(np.asarray(tv[:], dtype=float) + ref_offset(tv.units))
            counts.append(np.asarray(nc.variables["particle_count"][:], dtype=np.int64))
            nrec.append(len(times[-1]))
            for v in IVARS:
                inst[v].append(np.asarray(nc.variables[v][:]))
            pv = {}
            for v in nc.variables:
                if nc.variables[v].dimensions == ("particle",):
                    a = np.asarray(nc.variables[v][:], dtype=float)
                    un = getattr(nc.variables[v], "units", "")
                    pv[v] = a + ref_offset(un) if "since" in un else a
            pvars.append(pv)
    cat = lambda xs, dt: np.concatenate(xs) if xs else np.zeros(0, dtype=dt)  # noqa: E731
    return {"time": cat(times, float), "count": cat(counts, np.int64), "nrec": nrec,
            "inst": {v: cat(inst[v], float) for v in IVARS}, "pvars": pvars}


def differences(want, got, first_file):
    """The property for every record after the restart: `got` (files of the restarted run) against `want` (the files
    of the uninterrupted run after the restart file).  Returns a list of one-line differences (at most a few)."""
    out = []
    if got["nrec"] != want["nrec"]:
        out.append(f"records per file after the restart {got['nrec'][:6]} != uninterrupted {want['nrec'][:6]} (files {first_file}...)")
    n = min(len(want["time"]), len(got["time"]))
    if n == 0:
        return out
    bad = np.flatnonzero(want["time"][:n] != got["time"][:n])
    if bad.size:
        k = int(bad[0])
        out.append(f"record {k} after the restart: time {got['time'][k]} != {want['time'][k]}")
    bad = np.flatnonzero(want["count"][:n] != got["count"][:n])
    if bad.size:
        k = int(bad[0])
        out.append(f"record {k} after the restart (t={want['time'][k]:.0f} s): {int(got['count'][k])} particles, uninterrupted run has "
                   f"{int(want['count'][k])}")
        n = k  # compare the records before the first one of a different size
    m = int(want["count"][:n].sum())
    ends = np.cumsum(want["count"][:n])
    for v in IVARS:
        a, b = want["inst"][v][:m], got["inst"][v][:m]
        if v == "pid":
            neq = a != b
        else:
            neq = ~((np.abs(a - b) <= TOL) | (np.isnan(a) & np.isnan(b)))
        if neq.any():
            j = int(np.flatnonzero(neq)[0])
            k = int(np.searchsorted(ends, j, side="right"))
            start = int(ends[k] - want["count"][k])
            nrecbad = int(np.unique(np.searchsorted(ends, np.flatnonzero(neq), side="right")).size)
            pid_here = int(want["inst"]["pid"][j])
            out.append(f"record {k} after the restart (t={want['time'][k]:.0f} s), particle {j - start} of {int(want['count'][k])} "
                       f"(pid {pid_here} in the uninterrupted run): {v} {b[j].item()!r} != {a[j].item()!r}; {int(neq.sum())} values of {v} in {nrecbad} "
                       f"records differ")
            if v == "pid":
                break  # the other variables are compared particle by particle: meaningless when the particles differ
    for fi, (pw, pg) in enumerate(zip(want["pvars"], got["pvars"])):
        for v, a in pw.items():
            b = pg.get(v)
            if b is None or b.shape != a.shape:
                out.append(f"file {first_file + fi}: particle variable {v}: {None if b is None else b.shape[0]} values, uninterrupted run "
                           f"has {a.shape[0]}")
            else:
                neq = ~((np.abs(a - b) <= TOL) | (np.isnan(a) & np.isnan(b)))
                if neq.any():
                    j = int(np.flatnonzero(neq)[0])
                    out.append(f"file {first_file + fi}: particle variable {v} of pid {j}: {b[j].item()!r} != {a[j].item()!r} ({int(neq.sum())} differ)")
        if len(out) > 8:
            break
    return out


def run_scale(d, sc):
    """Uninterrupted split run and restarts -> (problems, observed)"""
    isc = impl_scenario(sc)
    c08_impl.write_inputs(d, isc)
    release_table(sc).to_csv(d / "r.rls", sep=" ", header=False, index=False)
    first = int(sc.get("first_file", 0))  # number of the first output file
    rl.run_main(configuration(d, sc, isc, f"cold_{first:03d}.nc" if first else "cold.nc"), d)
    cold_files = files_of(d, "cold")
    nfiles = len(cold_files)
    restarts = list(range(nfiles - 1)) if sc.get("restart") is None else [r for r in sc["restart"] if r < nfiles - 1]
    problems = []
    observed = {"files": nfiles, "restarts": restarts}
    if not restarts:
        return [f"the uninterrupted run wrote {nfiles} file(s) {[f.name for f in cold_files[:3]]}: no file boundary to restart from"], observed
    with Dataset(cold_files[restarts[0]]) as nc:
        observed["instances_in_first_restart_file"] = len(nc.dimensions["particle_instance"])
        observed["last_record"] = int(nc.variables["particle_count"][-1])
    cache = {}

    def cold_from(r):  # records of the uninterrupted run after file r
        if r not in cache:
            cache.clear()
            cache[r] = read_files(cold_files[r + 1:])
        return cache[r]

    released = 0
    for r in restarts:
        stem = f"warm{r}"
        conf = configuration(d, sc, isc, f"{stem}_{first + r + 1:03d}.nc")
        del conf["time"]["start"]
        conf["warm_start"] = {"filename": str(cold_files[r]), "variables": ["age", "temp"] + (["release_time"] if isc["pvars"] else [])}
        try:
            rl.run_main(conf, d)
        except BaseException as e:  # noqa: BLE001
            problems.append(f"restart after file {first + r}: crash {type(e).__name__}: {e}")
            continue
        warm_files = files_of(d, stem)
        want = cold_from(r)
        names_w = [f.name.split("_")[-1] for f in warm_files]
        names_c = [f.name.split("_")[-1] for f in cold_files[r + 1:]]
        if names_w != names_c:
            k = next((i for i, (a, b) in enumerate(zip(names_w, names_c)) if a != b), min(len(names_w), len(names_c)))
            problems.append(f"restart after file {first + r}: {len(names_w)} files {names_w[k:k + 3]}..., the uninterrupted run writes "
                            f"{len(names_c)} files {names_c[k:k + 3]}... after that file")
        got = read_files(warm_files)
        problems += [f"restart after file {first + r}: {m}" for m in differences(want, got, first + r + 1)]
        released = max(released, int(want["inst"]["pid"].max()) + 1 if want["inst"]["pid"].size else 0)
        for f in warm_files:
            f.unlink()
    observed["released_in_total"] = released
    return problems, observed


def eval_scale(desc, d):
    sc = desc["sc"]
    problems, observed = run_scale(d, sc)
    head = (f"scale case {sc['name']} (P={sc['P']} particles at step 0, {sc['N']} steps, numrec {sc['numrec']}, restart file of "
            f"{observed.get('instances_in_first_restart_file')} instances, {'with' if sc.get('pvars') else 'no'} particle variables): ")
    return {"ints": None, "oracle": (head + "; ".join(problems[:3])) if problems else None, "nontrivial": ("scale", sc["name"]),
            "kind": "scale-" + sc["name"], "observed": observed}


assert all(valid(sc) for sc in SCENARIOS), [sc["name"] for sc in SCENARIOS if not valid(sc)]


def gen_scale_cases():
    return [{"k": "scale", "sc": dict(sc)} for sc in SCENARIOS]
