"""C06 — output records are faithful snapshots in a well-formed ragged or dense file."""
from __future__ import annotations

import numpy as np
from netCDF4 import Dataset

import romsfiles as rf

PROP = "C06"
THEOREM_FILE = "Props/C06.v"
CHECKER = "Corr.C06"
SHARD = 40
RULE = ("Generated release/death/update histories driven through the real State + TimeKeeper + Output (both layouts, "
        "numrec 0..3, output period 1..3 steps, arbitrary reference time, instance variables pid/X/Y/age, particle "
        "variables weight (float) and release_time (time-typed)); files read back with netCDF4. Sparse files are "
        "compared with the Coq layout model fed with the snapshots of the real State; the oracle checks the property "
        "text (retrieval by cumulative particle_count, counts sum, time coordinate, particle variables at index pid "
        "for every released pid, dense fill values) against a truth table kept by the harness. Non-trivial = history "
        "with a death before a record and a release after it. Scale cases (c06_scale.py, oracle only): the same clauses "
        "for every record of every file of large runs (1000..130000 particles with a trickle of deaths, a mass death, "
        "> 1000 records, > 1000 files, > 1000 steps between records) through State+Output and through ladim.main. "
        "Option cases (c06_opts.py, oracle only): the same clauses, plus lon/lat = the grid's longitude/latitude at the "
        "state's position, on a fixed pairwise-covering set of small runs over the options on this path (layout, numrec, "
        "numbered first file, period spellings, lon/lat with whole grid / subgrid, f8 / packed / f4 / integer encodings, "
        "particle variable types, empty records, reference time, time reversal; through ladim.main also v1 / v2 / TOML "
        "configuration, EF/RK2/RK4, diffusion, discrete / mult / continuous release, warm start, forcing in one / several "
        "/ float32 / packed files), the truth there being the state recorded by a forcing plug-in at each record.")
TRUSTED = ["Coq 8.16.1 kernel + vm_compute", "hand-written layout model coq/Model/Output.v (sparse_write, retrieve, write_pvars, dense_write) tied by this correspondence",
           "netCDF4/HDF5 store what they are given; values integer-coded"]
ASSUMPTIONS = ["output datatypes lossless (f8/i4)"]
DT = 600


def gen_cases(ctx):
    rng = ctx.rng
    # fixed cases of realistic size come first (they draw nothing from rng): up to 130000 particles with a trickle of
    # deaths, > 1000 records, > 1000 files, > 1000 steps between records, complete runs of ladim.main; see c06_scale.py
    import c06_scale

    out = c06_scale.gen_scale_cases()
    # fixed option-combination cases (they draw nothing from rng either): a pairwise-covering set of small runs over the
    # options on the path of this property (split output, lon/lat variables, subgrid, packed / float32 / integer
    # encodings, dense layout, time reversal, warm start, continuous release, v1 / v2 / TOML configuration, advection
    # schemes, diffusion, forcing in several / float32 / packed files ...); see c06_opts.py
    import c06_opts

    out += c06_opts.gen_opt_cases()
    for _ in range(70 if ctx.quick else 800):
        nsteps = rng.randint(1, 9)
        hist = []
        for s in range(nsteps):
            ops = []
            if s == 0 or rng.random() < 0.5:
                ops.append(["release", rng.randint(0 if s else 1, 3)])
            if rng.random() < 0.5:
                ops.append(["kill", rng.random()])
            if rng.random() < 0.2:
                ops.append(["killall"])
            hist.append(ops)
        out.append({"k": "hist", "hist": hist, "p": rng.choice([1, 1, 2, 3]), "numrec": rng.choice([0, 0, 1, 2, 3]),
                    "layout": rng.choice(["sparse", "sparse", "dense"]), "ref": rng.choice([None, 0, 98765, 250000]),
                    "seed": rng.randrange(10**6), "compact": rng.random() < 0.5,
                    "rem": rng.choice([0, 0, 250, 590]), "pextra": rng.choice([0, 0, 0, 150, 450]), "rev": rng.random() < 0.3})
    # fixed dense histories: between two records some particles die and at least as many are released (the number of
    # living particles does not go down, its composition changes); deaths only; a death and nothing else
    for compact in (True, False):
        for hist in ([[["release", 3]], [["killfirst", 1], ["release", 1]], [["killfirst", 1], ["release", 2]], []],
                     [[["release", 2]], [["release", 2], ["killfirst", 2]], [["release", 1]], [["killfirst", 1]]]):
            out.append({"k": "hist", "hist": hist, "p": 1, "numrec": 0, "layout": "dense", "ref": 0, "seed": 4711, "compact": compact,
                        "rem": 0, "pextra": 0, "rev": False})
    import sim_impl as si

    # fixed: every particle dies of age after two steps, nothing is released later; unsplit and split output
    for p, numrec in ((1, 0), (2, 0), (1, 3)):
        N = 8
        out.append({"k": "alldead", "numrec": numrec, "dead_from": 3, "seed": 60 + p + numrec,
                    "env": {"N": N, "p": p, "life": 2, "utab": [[0.25, 0.5, 0.125] for _ in range(N)],
                            "ttab": [[float(3 * n + 1), float(3 * n + 2), float(3 * n + 3)] for n in range(N)],
                            "rows": [[0, 5.0, 1], [0, 7.0, 0], [1, 6.0, 2]]}})
    for _ in range(2 if ctx.quick else 20):
        out.append({"k": "warm", "env": si.make_env(rng, N=rng.randint(5, 9), p=rng.choice([1, 2])), "numrec": rng.choice([1, 2]), "seed": rng.randrange(10**6)})
    return out


def eval_alldead(desc, d):
    """a run through ladim.main in which every particle is dead well before the stop time and nothing is released
    afterwards: the file still holds one record per due step to the end (the trailing ones empty, each with its time) and
    the per-particle variables of every pid that was released"""
    import sim_impl as si
    from netCDF4 import Dataset

    env, numrec = desc["env"], desc["numrec"]
    recs, files, conf = si.run_forward(d, env, "dead", numrec=numrec)
    N, p = env["N"], env["p"]
    due = [s for s in range(N) if s % p == 0]
    problems = []
    if [r["step"] for r in recs] != due:
        problems.append(f"records at steps {[r['step'] for r in recs]}, due {due} (all particles dead from step {desc['dead_from']} on)")
    released = len(env["rows"])
    seen = 0
    for fi, f in enumerate(files):
        with Dataset(f) as nc:
            nrec = len(nc.variables["time"][:])
            seen += nrec
            rt = nc.variables["release_time"][:]
            want = released  # every row is released during the first steps, before the first file ends
            if nrec and len(rt) != want:
                problems.append(f"{f.name}: particle variable release_time has {len(rt)} entries, {want} particles were released")
    return {"ints": None, "oracle": "; ".join(problems[:2]) or None, "nontrivial": ("alldead", N, p, numrec), "kind": "main-all-dead",
            "observed": {"records": [r["step"] for r in recs], "files": len(files)}}


def eval_warm(desc, d):
    """records written after a warm start are faithful snapshots too: the restarted run's files hold, record
    by record, the state of the uninterrupted run at that time (time coordinate included)"""
    import sim_impl as si

    env = desc["env"]
    cold, files, conf = si.run_forward(d, env, "cold", numrec=desc["numrec"])
    problems = []
    for fi in range(len(files) - 1):
        last = [r for r in cold if r["file"] == files[fi].name][-1]
        warm, wfiles = si.run_warm(d, env, f"w{fi}", conf, files[fi], fi + 1)
        want = [r for r in cold if r["step"] > last["step"]]
        if [(r["time"], r["rows"]) for r in warm] != [(r["time"], r["rows"]) for r in want]:
            problems.append(f"after a restart from {files[fi].name} the records are {[(r['time'], r['rows']) for r in warm][:3]}..., "
                            f"the model state at those times was {[(r['time'], r['rows']) for r in want][:3]}...")
        from netCDF4 import Dataset
        for wf in wfiles:
            with Dataset(wf) as nc:
                if len(nc.variables["release_time"][:]) == 0 and len(nc.variables["time"][:]) > 0:
                    problems.append(f"{wf.name}: particle variables not written")
    return {"ints": None, "oracle": "; ".join(problems[:2]) or None, "nontrivial": (desc["seed"], "warm"), "kind": "warm-records",
            "observed": {"files": len(files)}}


def eval_case(desc, ctx):
    from ladim.out_netcdf import Output
    from ladim.state import State
    from ladim.timekeeper import TimeKeeper

    d = ctx.subdir("c06")
    for f in d.glob("*"):
        f.unlink()
    if desc["k"] == "scale":
        import c06_scale

        return c06_scale.eval_scale(desc, d)
    if desc["k"] == "opts":
        import c06_opts

        return c06_opts.eval_opt(desc, d)
    if desc["k"] == "warm":
        return eval_warm(desc, d)
    if desc["k"] == "alldead":
        return eval_alldead(desc, d)
    hist, p, numrec, layout = desc["hist"], desc["p"], desc["numrec"], desc["layout"]
    nsteps = len(hist)
    tstart = 200000
    ref = desc["ref"]
    rev = bool(desc.get("rev"))
    sgn = -1 if rev else 1
    tstop = tstart + sgn * (nsteps * DT + desc.get("rem", 0))
    refv = min(tstart, tstop) if ref is None else ref
    tk = TimeKeeper(start=rf.iso(tstart), stop=rf.iso(tstop), dt=DT, reference=None if ref is None else rf.iso(ref), time_reversal=rev)
    st = State(instance_variables={"age": float}, particle_variables={"weight": float, "release_time": "time"}, default_values={"age": 0.0})
    ivars = {v: {"encoding": {"datatype": "f8"}, "attributes": {}} for v in ("X", "Y", "age")}
    ivars = {"pid": {"encoding": {"datatype": "i4"}, "attributes": {}}, **ivars}
    pvars = {"weight": {"encoding": {"datatype": "f8"}, "attributes": {}},
             "release_time": {"encoding": {"datatype": "f8"}, "attributes": {"units": "seconds since reference_time"}}}
    if layout == "dense":
        # a packed variable (short integers with a scale factor: Y holds whole numbers, 0.5 * 2k is exact) and a
        # boolean state variable among the outputs: fill values before release and after death for these as well
        ivars["Y"] = {"encoding": {"datatype": "i2"}, "attributes": {"scale_factor": 0.5}}
        ivars["active"] = {"encoding": {"datatype": "i1"}, "attributes": {}}
    out = Output({"time": tk, "state": st, "grid": None}, d / "o.nc", p * DT + desc.get("pextra", 0), dict(ivars), pvars, layout=layout, numrec=numrec)
    rng = np.random.default_rng(desc["seed"])
    truth = {}  # pid -> (weight, release seconds)
    snaps = []  # per record: (step, {pid: (X, Y, age)}, npid, pvar columns)
    VARS = ["pid", "X", "Y", "age"]
    death_before_record = release_after = False
    for s in range(nsteps):
        tk.update()
        if desc["compact"]:
            st.compactify()
        for op in hist[s]:
            if op[0] == "release" and op[1] > 0:
                n = op[1]
                w = rng.integers(1, 99, n).astype(float)
                st.append(X=rng.integers(1, 50, n).astype(float), Y=rng.integers(1, 50, n).astype(float), Z=5.0,
                          weight=w, release_time=np.full(n, np.datetime64(rf.iso(tstart + sgn * s * DT))))
                for j in range(n):
                    truth[st.npid - n + j] = (float(w[j]), tstart + sgn * s * DT - refv)
                if death_before_record:
                    release_after = True
            elif op[0] == "kill":
                m = rng.random(len(st)) < op[1]
                if m.any() and st.alive[m].any():
                    death_before_record = True
                st["alive"] = st.alive & ~m
            elif op[0] == "killfirst":
                m = np.zeros(len(st), dtype=bool)
                m[np.flatnonzero(st.alive)[: op[1]]] = True
                if m.any():
                    death_before_record = True
                st["alive"] = st.alive & ~m
            elif op[0] == "killall":
                if st.alive.any():
                    death_before_record = True
                st["alive"] = np.zeros(len(st), dtype=bool)
        if s % p == 0:
            al = st.alive.copy()
            snaps.append({"step": s, "t": tstart + sgn * s * DT - refv, "npid": int(st.npid),
                          "rows": {int(q): (float(x), float(y), float(a)) for q, x, y, a in zip(st.pid[al], st.X[al], st.Y[al], st.age[al])},
                          "pw": st["weight"].copy(), "pt": ((st["release_time"] - np.datetime64(rf.iso(refv))) / np.timedelta64(1, "s")).copy()})
        out.update()
        st["age"] = st.age + DT
        st["X"] = st.X + 1.0
    out.close()
    # ---- read back, file by file
    files = sorted(d.glob("o*.nc"))
    nr = numrec if numrec else 10**9
    problems, ints_all = [], []
    k0 = 0
    for fi, f in enumerate(files):
        recs = snaps[k0:k0 + nr]
        with Dataset(f) as nc:
            nc.set_auto_mask(False)
            t = [float(x) for x in nc.variables["time"][:]]
            units = nc.variables["time"].units
            if units != f"seconds since {rf.iso(refv)}":
                problems.append(f"{f.name}: time units {units!r}")
            if len(t) != len(recs):
                problems.append(f"{f.name}: {len(t)} records, expected {len(recs)}")
                k0 += nr
                continue
            if t != [float(r["t"]) for r in recs]:
                problems.append(f"{f.name}: time coordinate {t}, model times relative to reference {[r['t'] for r in recs]}")
            npid_end = recs[-1]["npid"] if recs else 0
            pw = nc.variables["weight"][:].tolist(); pt = nc.variables["release_time"][:].tolist()
            wantw = [truth[q][0] for q in range(npid_end)]; wantt = [float(truth[q][1]) for q in range(npid_end)]
            if recs and (pw[:npid_end] != wantw or len(pw) != npid_end or pt[:npid_end] != wantt):
                problems.append(f"{f.name}: particle variables weight={pw} release_time={pt}; every released pid 0..{npid_end - 1} should hold {wantw} / {wantt}")
            if layout == "sparse":
                cnt = [int(c) for c in nc.variables["particle_count"][:]]
                arrs = {v: nc.variables[v][:].tolist() for v in VARS}
                if sum(cnt) != len(nc.dimensions["particle_instance"]) or any(len(a) != sum(cnt) for a in arrs.values()):
                    problems.append(f"{f.name}: counts {cnt} do not sum to the instance dimension {len(nc.dimensions['particle_instance'])}")
                for k, r in enumerate(recs):
                    start = sum(cnt[:k])
                    got = {int(q): (x, y, a) for q, x, y, a in zip(*(arrs[v][start:start + cnt[k]] for v in VARS))}
                    pids = arrs["pid"][start:start + cnt[k]]
                    if got != r["rows"] or len(pids) != len(r["rows"]):
                        problems.append(f"{f.name} record {k}: {got}, particles alive at that time: {r['rows']}")
                    if any(b <= a for a, b in zip(pids, pids[1:])) or any(q < j for j, q in enumerate(pids)):
                        problems.append(f"{f.name} record {k}: pids {pids} not strictly increasing / pid[k] < k")
                ints = [len(VARS), len(recs)]
                for r in recs:
                    order = sorted(r["rows"])
                    ints += [int(r["t"]), len(order)] + order
                    for j in range(3):
                        ints += [int(r["rows"][q][j]) for q in order]
                ints += [len(cnt)] + cnt + [len(t)] + [int(x) for x in t]
                for v in VARS:
                    ints += [len(arrs[v])] + [int(x) for x in arrs[v]]
                if recs:
                    ints += [2, npid_end, len(recs[-1]["pw"])] + [int(x) for x in recs[-1]["pw"]] + [len(recs[-1]["pt"])] + [int(x) for x in recs[-1]["pt"]]
                    ints += [len(pw)] + [int(x) for x in pw] + [len(pt)] + [int(x) for x in pt]
                else:
                    ints += [0, 0]
                ints_all.append(ints)
            else:
                nc.set_auto_mask(True)
                for v in ("X", "Y", "age", "active"):
                    A = nc.variables[v][:]
                    j = (VARS.index(v) - 1) if v != "active" else None
                    for k, r in enumerate(recs):
                        row = np.ma.masked_invalid(np.ma.atleast_1d(A[k])) if A.shape[1:] else np.ma.array([])
                        for q in range(len(row)):
                            present = q in r["rows"]
                            if present and (row.mask[q] if np.ma.is_masked(row) else False):
                                problems.append(f"{f.name} {v}[{k},{q}] is fill but particle {q} is alive")
                            elif present and float(row[q]) != (1.0 if j is None else r["rows"][q][j]):
                                problems.append(f"{f.name} {v}[{k},{q}] = {row[q]}, particle's value {1.0 if j is None else r['rows'][q][j]}")
                            elif not present and not (np.ma.is_masked(row) and row.mask[q]):
                                problems.append(f"{f.name} {v}[{k},{q}] = {row[q]} but particle {q} is not alive at that record (fill value expected)")
                        for q in r["rows"]:
                            if q >= len(row):
                                problems.append(f"{f.name} {v}[{k}] has no entry for living particle {q}")
        k0 += nr
    if sum(1 for _ in files) != max(1, -(-len(snaps) // nr)):
        problems.append(f"{len(files)} files for {len(snaps)} records with numrec={numrec}")
    return {"ints": ints_all or None, "oracle": "; ".join(problems[:3]) or None,
            "nontrivial": (desc["seed"],) if (death_before_record and release_after) else None,
            "kind": layout + ("-multi" if numrec else ""), "observed": {"files": [f.name for f in files], "records": len(snaps)}}
