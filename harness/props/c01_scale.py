"""C01 at scale: long simulations through the real ROMS forcing, the real release, state, tracker (and output).

Every scenario runs the REAL code (Model.update in the loop of ladim.main.main, or ladim.main.main itself) on a
synthetic ROMS data set whose velocity is an affine function of (x, y) with coefficients that are piecewise linear in
time between the forcing frames:

    u dt/dx0 = a(t) + b(t) (x - x0) + c(t) (y - y0)        v dt/dx0 = d(t) + e(t) (x - x0) + g(t) (y - y0)

on a grid of square cells (the ROMS Grid is conformal: Grid.metric hands out dx for both directions) whose size is
either dx0 everywhere or differs from cell to cell (a particle then moves by u dt / dx of the cell it starts the step in).

Bilinear sampling of such a field on the staggered grid is exact, the time interpolation between two frames is linear,
so the velocity that the forcing must supply at the stage positions and fractional times of a step is known in closed
form, for every particle and every step, however long the simulation has run and whatever happened before (empty
state before a late release or between two release campaigns, deaths by an IBM lifetime or at the open boundary,
frames spread over many files, more than a thousand steps between two frames, a population growing from a
thousand to more than a hundred thousand particles).

Oracle (pure numpy, vectorised over the particles):
  local   every update: each particle that is in the state, active, and whose stage positions stay in the interior of
          the grid must have moved from its position before the update (observed) to the position that the scheme's
          Butcher tableau prescribes with that velocity;
  global  the same tableau composed from the release position (no observed position enters) gives the trajectory;
          the observed position must stay on it;
  file    (ladim.main.main) every record of the output file holds the trajectory positions of that time.
Tolerance 1e-6 grid cells, the tolerance of the module's other runs through the ROMS forcing.
"""
from __future__ import annotations

from pathlib import Path

import numpy as np

import romsfiles as rf
import run_ladim as rl

PLUG = str(Path(rf.__file__).resolve().parents[1] / "plugins" / "kill_ibm.py")
TOL = 1e-6
TAB = {
    "EF": ([0.0], [[]], [1.0]),
    "RK2": ([0.0, 0.5], [[], [0.5]], [0.0, 1.0]),
    "RK4": ([0.0, 0.5, 0.5, 1.0], [[], [0.5], [0.0, 0.5], [0.0, 0.0, 1.0]], [1 / 6, 1 / 3, 1 / 3, 1 / 6]),
}


# ---- the field -------------------------------------------------------------------------------------------
def frame_coefs(frame_steps):
    """six coefficients (cells per step) for every frame: deterministic, dyadic, the translation alternates in sign
    and is small next to a long frame interval, so that the particles stay in the grid for thousands of steps"""
    fs = np.asarray(frame_steps, dtype=float)
    gaps = np.diff(fs)
    near = np.concatenate(([gaps[0]], np.maximum(gaps[:-1], gaps[1:]), [gaps[-1]]))  # longest adjacent interval
    out = []
    for k, L in enumerate(near):
        amp = min(0.25, 2.0 ** -np.ceil(np.log2(max(L, 1.0) / 2.0))) if L > 2 else 0.25  # about 2 cells per interval at most
        sgn = 1.0 if k % 2 == 0 else -1.0
        a = sgn * amp * [1.0, 0.5, 0.75][k % 3]
        d = -sgn * amp * [0.5, 1.0, 0.25, 0.75][k % 4]
        w = amp / 8 * [1.0, -0.5, 0.5, -1.0, 0.25][k % 5]  # rotation about (x0, y0)
        b = amp / 32 * [1.0, -1.0, 0.0][k % 3]
        g = amp / 32 * [-1.0, 0.0, 1.0, 0.0][k % 4]
        out.append([a, b, -w, d, w, g])
    return np.array(out)


class Field:
    def __init__(self, frame_steps, coefs, x0, y0, fac=None):
        self.fac = fac  # dx0 / dx of every cell (jmax, imax), None = 1 everywhere
        self.steps = np.asarray(frame_steps, dtype=float)
        self.coefs = np.asarray(coefs, dtype=float)
        self.x0, self.y0 = x0, y0

    def coef_at(self, t):
        """coefficients at the time of (fractional) step t: linear between the frames, held after the last one"""
        s = self.steps
        if t >= s[-1]:
            return self.coefs[-1]
        i = int(np.searchsorted(s, t, side="right")) - 1
        lam = (t - s[i]) / (s[i + 1] - s[i])
        return self.coefs[i] + lam * (self.coefs[i + 1] - self.coefs[i])

    def cells_per_step(self, t, x, y):
        a, b, c, d, e, g = self.coef_at(t)
        return a + b * (x - self.x0) + c * (y - self.y0), d + e * (x - self.x0) + g * (y - self.y0)

    def arrays(self, imax, jmax, N, dt, dx):
        """u, v of every frame on the staggered grid [m/s]"""
        T = len(self.steps)
        xu = (np.arange(imax - 1) + 0.5 - self.x0)[None, :]; yu = (np.arange(jmax) - self.y0)[:, None]
        xv = (np.arange(imax) - self.x0)[None, :]; yv = (np.arange(jmax - 1) + 0.5 - self.y0)[:, None]
        u = np.empty((T, N, jmax, imax - 1)); v = np.empty((T, N, jmax - 1, imax))
        for k, (a, b, c, d, e, g) in enumerate(self.coefs):
            u[k] = (dx / dt) * (a + b * xu + c * yu)[None]
            v[k] = (dx / dt) * (d + e * xv + g * yv)[None]
        return u, v


def scheme_step(adv, field, n, x, y, box):
    """the scheme's step number n (from time n to n + 1, in steps) by its Butcher tableau.
    Returns new x, new y, ok (all stage positions and the end point strictly inside box)"""
    c, A, b = TAB[adv]
    kx, ky = [], []
    ok = np.ones(x.shape, dtype=bool)
    x_lo, x_hi, y_lo, y_hi = box
    # the metric of the cell in which the particle starts the step (Grid.metric: nearest cell)
    f = 1.0 if field.fac is None else field.fac[np.round(y).astype(int), np.round(x).astype(int)]
    for ci, ai in zip(c, A):
        sx = x + sum(aij * k for aij, k in zip(ai, kx) if aij)
        sy = y + sum(aij * k for aij, k in zip(ai, ky) if aij)
        ok &= (sx > x_lo) & (sx < x_hi) & (sy > y_lo) & (sy < y_hi)
        ux, vy = field.cells_per_step(n + ci, sx, sy)
        kx.append(ux * f); ky.append(vy * f)
    nx = x + sum(bi * k for bi, k in zip(b, kx) if bi)
    ny = y + sum(bi * k for bi, k in zip(b, ky) if bi)
    ok &= (nx > x_lo) & (nx < x_hi) & (ny > y_lo) & (ny < y_hi)
    return nx, ny, ok


# ---- scenarios -------------------------------------------------------------------------------------------
def lattice(n, x_lo, x_hi, y_lo, y_hi, salt):
    """n dyadic positions (odd multiples of 1/128: never on a cell boundary) in a box, deterministic"""
    k = np.arange(n, dtype=np.int64)
    nx, ny = int((x_hi - x_lo) * 64), int((y_hi - y_lo) * 64)
    ix = (k * 2654435761 + salt * 97) % nx
    iy = (k * 40503 + (k // nx) * 7 + salt * 31) % ny
    return x_lo + (ix + 0.5) / 64.0, y_lo + (iy + 0.5) / 64.0


def intervals_to_steps(first, intervals):
    return [int(s) for s in np.concatenate(([first], first + np.cumsum(intervals)))]


def scenarios(quick=True):
    """deterministic list of scenario descriptions (small dictionaries; everything else is derived)"""
    out = []
    # (1) release campaigns separated by empty periods of every kind, each campaign lives `life` steps (IBM lifetime):
    #     frames 1, 6 and 64 steps apart, one interval of more than a thousand steps, frames spread over 14 files
    gaps_a = [1, 6, 6, 6, 64, 6, 6, 1025, 6, 6, 6, 64, 6, 6, 6, 6, 70]
    out.append({"k": "scale", "name": "gaps-EF", "adv": "EF", "dt": 600, "dx": 1000.0, "imax": 40, "jmax": 30,
                "first_frame": 0, "intervals": gaps_a, "nfiles": 14, "life": 40, "n_per": 64,
                # start | 5 empty steps inside one interval | empty across two frames | ~1000 empty steps across the long
                # interval and the frames after it | short gap | the only empty step IS a frame step | no gap at all
                "campaigns": [0, 45, 100, 1130, 1175, 1216, 1256], "nsteps": 1290, "min_checked": 15000, "min_empty": 900})
    # the run starts in the middle of a frame interval (frames before the start), first release late, across frames
    gaps_b = [7, 5, 1, 1, 12, 100, 3, 1100, 2, 2, 50, 10, 10, 33]
    out.append({"k": "scale", "name": "gaps-RK2", "adv": "RK2", "dt": 512, "dx": 1024.0, "varying_metric": True, "imax": 36, "jmax": 28,
                "first_frame": -10, "intervals": gaps_b, "nfiles": 15, "life": 25, "n_per": 64,
                "campaigns": [9, 40, 121, 1222, 1250, 1290], "nsteps": 1320, "min_checked": 8000, "min_empty": 1000})
    gaps_c = [3, 3, 3, 3, 24, 24, 2048, 24, 24, 3, 3, 80]
    out.append({"k": "scale", "name": "gaps-RK4", "adv": "RK4", "dt": 60, "dx": 800.0, "imax": 40, "jmax": 30,
                "first_frame": -1, "intervals": gaps_c, "nfiles": 13, "life": 30, "n_per": 64,
                "campaigns": [4, 34, 70, 2110, 2160, 2200], "nsteps": 2230, "min_checked": 10000, "min_empty": 1900})
    # (1b) one population alive for the whole of a long run (no deaths, no empty state): more than a thousand steps of
    #      one trajectory, across every frame interval of the lists above
    out.append({"k": "scale", "name": "long-EF", "adv": "EF", "dt": 60, "dx": 500.0, "imax": 40, "jmax": 30,
                "first_frame": -2, "intervals": gaps_a, "nfiles": 5, "life": None, "n_per": 250,
                "campaigns": [0], "nsteps": 1280, "min_checked": 250000, "min_empty": 0})
    out.append({"k": "scale", "name": "long-RK4", "adv": "RK4", "dt": 900, "dx": 2000.0, "imax": 40, "jmax": 30, "varying_metric": True,
                "first_frame": 0, "intervals": gaps_b, "nfiles": 4, "life": None, "n_per": 250,
                "campaigns": [0, 1], "nsteps": 1300, "min_checked": 500000, "min_empty": 0})
    # (2) a population that grows through 1000, 1024, 1025, 4096, 4097, 5000, 10000, 20000, 40000, 70000, 130000
    #     particles (first release after two frames have passed with an empty state), every particle checked every step
    sizes = [1000, 1024, 1025, 4096, 4097, 5000, 10000, 20000, 40000, 70000, 130000]
    out.append({"k": "scale", "name": "population-RK4", "adv": "RK4", "dt": 600, "dx": 1000.0, "varying_metric": True, "imax": 120, "jmax": 90,
                "first_frame": 0, "intervals": [2, 3, 4, 3, 5, 3, 10], "nfiles": 3, "life": None, "sizes": sizes,
                "campaigns": [4 + j for j in range(len(sizes))], "nsteps": 22, "min_checked": 1000000, "min_empty": 3})
    small = [s for s in sizes if s <= 20000]
    for adv in ("EF", "RK2"):
        out.append({"k": "scale", "name": "population-" + adv, "adv": adv, "dt": 300, "dx": 800.0, "imax": 80, "jmax": 60,
                    "first_frame": 0, "intervals": [1, 3, 4, 3, 5, 10], "nfiles": 2, "life": None, "sizes": small,
                    "campaigns": [3 + j for j in range(len(small))], "nsteps": 18, "min_checked": 150000, "min_empty": 2})
    # (3) through ladim.main.main and the output file: two campaigns of 5000, the first is carried out of the grid
    #     through the open boundary, the state is empty across several frames, then the second; > 100000 stored instances
    out.append({"k": "scale", "name": "main-RK4", "adv": "RK4", "dt": 600, "dx": 1000.0, "imax": 50, "jmax": 40,
                "first_frame": 0, "intervals": [6] * 40, "nfiles": 16, "life": None, "n_per": 5000, "main": True, "outflow": 36,
                "campaigns": [0, 75], "nsteps": 234, "output_every": 6})
    return out


def build(sc):
    frame_steps = intervals_to_steps(sc["first_frame"], sc["intervals"])
    assert frame_steps[0] <= 0 and frame_steps[-1] >= sc["nsteps"], "the frames must cover the run"
    imax, jmax = sc["imax"], sc["jmax"]
    x0, y0 = imax / 2.0, jmax / 2.0
    coefs = frame_coefs(frame_steps)
    if sc.get("outflow"):
        # a strong eastward current during the first `outflow` steps empties the grid through the open boundary
        for k, s in enumerate(frame_steps):
            if s <= sc["outflow"]:
                coefs[k] = [0.875, 0.0, 0.0, 0.0625 * (-1) ** k, 0.0, 0.0]
            elif s <= sc["outflow"] + 12:
                coefs[k] = [0.5, 0.0, 0.0, 0.0, 0.0, 0.0]
    fac = None
    if sc.get("varying_metric"):  # cells of 16/16 .. 22/16 of dx0, differing from cell to cell
        jj, ii = np.meshgrid(np.arange(jmax), np.arange(imax), indexing="ij")
        fac = 16.0 / (16.0 + (3 * ii + 5 * jj) % 7)
    field = Field(frame_steps, coefs, x0, y0, fac)
    # release table: campaign j at step campaigns[j]; pids are handed out in file order
    rel_step, rel_x, rel_y = [], [], []
    total = 0
    for j, s in enumerate(sc["campaigns"]):
        n = (sc["sizes"][j] - total) if "sizes" in sc else sc["n_per"]
        total += n
        if sc.get("outflow") and j == 0:
            x, y = lattice(n, imax - 20.0, imax - 6.0, 6.0, jmax - 6.0, j)
        else:
            x, y = lattice(n, x0 - 8.0, x0 + 8.0, y0 - 6.0, y0 + 6.0, j)
        rel_step.append(np.full(n, s)); rel_x.append(x); rel_y.append(y)
    return field, np.concatenate(rel_step), np.concatenate(rel_x), np.concatenate(rel_y)


def write_inputs(d, sc, field, rel_step, rel_x, rel_y):
    imax, jmax, N, dt = sc["imax"], sc["jmax"], 2, sc["dt"]
    u, v = field.arrays(imax, jmax, N, dt, sc["dx"])
    dxs = sc["dx"] if field.fac is None else sc["dx"] / field.fac
    T = len(field.steps)
    # frames spread over nfiles files of unequal length
    cuts = sorted(set(int(round(q)) for q in np.linspace(0, T, sc["nfiles"] + 1)))
    for fi, (lo, hi) in enumerate(zip(cuts, cuts[1:])):
        rf.write_roms(d / f"f_{fi:03d}.nc", imax=imax, jmax=jmax, N=N, times=[int(s) * dt for s in field.steps[lo:hi]],
                      u=u[lo:hi], v=v[lo:hi], dx=dxs)
    with open(d / "r.rls", "w") as f:
        t = np.array([rf.iso(int(s) * dt) for s in np.unique(rel_step)])
        tt = t[np.searchsorted(np.unique(rel_step), rel_step)]
        f.write("\n".join(f"{a} {b!r} {c!r} 5.0" for a, b, c in zip(tt.tolist(), rel_x.tolist(), rel_y.tolist())) + "\n")
    conf = rf.base_config(start=0, stop=sc["nsteps"] * dt, dt=dt, forcing_file=d / "f_*.nc", grid_file=d / "f_000.nc",
                          release_file=d / "r.rls", out_file=d / "o.nc", advection=sc["adv"],
                          output_period=sc.get("output_every", sc["nsteps"]) * dt, reference=0)
    if sc.get("life"):
        conf["state"] = {"instance_variables": {"age": "float"}, "default_values": {"age": 0.0}}
        conf["ibm"] = {"module": PLUG, "lifetime": sc["life"] * dt}
    return conf


class Watcher:
    """the oracle, fed with the state after every update"""

    def __init__(self, sc, field, rel_step, rel_x, rel_y):
        self.sc, self.field = sc, field
        self.rel_step, self.rel_x, self.rel_y = rel_step, rel_x, rel_y
        n = len(rel_step)
        self.box = (2.0, sc["imax"] - 3.0, 2.0, sc["jmax"] - 3.0)  # well inside the grid (the clip box is wider)
        self.cur_x = np.full(n, np.nan); self.cur_y = np.full(n, np.nan)  # observed position before the coming update
        self.tr_x = rel_x.astype(float).copy(); self.tr_y = rel_y.astype(float).copy()  # trajectory from the release position
        self.tr_ok = np.ones(n, dtype=bool)  # trajectory stayed in the interior so far
        self.tr_step = rel_step.astype(int).copy()  # time (in steps) of tr_x, tr_y
        self.known = np.zeros(n, dtype=bool)
        self.problems = []
        self.checked = 0  # particle-steps verified
        self.empty_steps = 0
        self.max_err = 0.0
        self.traj = {}  # step -> (x, y, ok) copies, for the file check

    def fail(self, msg):
        if len(self.problems) < 3:
            self.problems.append(msg)

    def advance_trajectory(self, n):
        """trajectory of every particle released at or before step n: from time n to n + 1"""
        sel = np.flatnonzero((self.rel_step <= n) & self.tr_ok)
        if sel.size:
            nx, ny, ok = scheme_step(self.sc["adv"], self.field, n, self.tr_x[sel], self.tr_y[sel], self.box)
            self.tr_x[sel], self.tr_y[sel] = nx, ny
            self.tr_ok[sel] = ok

    def __call__(self, model, n):
        sc = self.sc
        st = model.state
        pid = np.asarray(st.pid).astype(np.int64)
        X = np.asarray(st.X, dtype=float); Y = np.asarray(st.Y, dtype=float)
        alive = np.asarray(st.alive, dtype=bool); active = np.asarray(st.active, dtype=bool)
        self.advance_trajectory(n)
        new = np.flatnonzero(self.rel_step == n)
        if new.size:
            self.cur_x[new], self.cur_y[new] = self.rel_x[new], self.rel_y[new]
            self.known[new] = True
            if not np.isin(new, pid).all():
                self.fail(f"step {n}: {int((~np.isin(new, pid)).sum())} of the {new.size} particles released at this step are not in the state")
        if pid.size == 0:
            self.empty_steps += 1
        elif pid.max() >= len(self.rel_step) or not self.known[pid].all():
            self.fail(f"step {n}: the state holds pids that were not released")
        else:
            wx, wy, ok = scheme_step(sc["adv"], self.field, n, self.cur_x[pid], self.cur_y[pid], self.box)
            ok &= alive & active
            err = np.maximum(np.abs(X - wx), np.abs(Y - wy))
            bad = ok & ~(err <= TOL)
            if ok.any():
                self.max_err = max(self.max_err, float(err[ok].max()), float(np.max(np.where(self.tr_ok[pid] & ok, np.maximum(np.abs(X - self.tr_x[pid]), np.abs(Y - self.tr_y[pid])), 0.0))))
            self.checked += int(ok.sum())
            if bad.any():
                j = int(np.flatnonzero(bad)[np.argmax(err[bad])])
                self.fail(f"update {n} ({len(pid)} particles in the state, {int(bad.sum())} wrong): pid {int(pid[j])} released at step "
                          f"{int(self.rel_step[pid[j]])} moved from ({float(self.cur_x[pid[j]])}, {float(self.cur_y[pid[j]])}) to ({float(X[j])}, {float(Y[j])}), "
                          f"the {sc['adv']} step with the forcing's velocity of that time gives ({float(wx[j])}, {float(wy[j])})")
            # the trajectory composed from the release position
            tok = self.tr_ok[pid] & alive & active
            terr = np.maximum(np.abs(X - self.tr_x[pid]), np.abs(Y - self.tr_y[pid]))
            tbad = tok & ~(terr <= TOL)
            if tbad.any() and not bad.any():
                j = int(np.flatnonzero(tbad)[np.argmax(terr[tbad])])
                self.fail(f"after update {n}: pid {int(pid[j])} released at step {int(self.rel_step[pid[j]])} is at ({float(X[j])}, {float(Y[j])}), "
                          f"the {sc['adv']} trajectory from its release position is at ({float(self.tr_x[pid[j]])}, {float(self.tr_y[pid[j]])})")
            self.cur_x[pid], self.cur_y[pid] = X, Y
            self.known[pid] = alive  # the dead are removed before the next step


def eval_scale(sc, ctx):
    d = ctx.subdir("c01scale_" + sc["name"])
    field, rel_step, rel_x, rel_y = build(sc)
    conf = write_inputs(d, sc, field, rel_step, rel_x, rel_y)
    w = Watcher(sc, field, rel_step, rel_x, rel_y)
    label = (f"scale case {sc['name']} [{sc['adv']} through the ROMS forcing, dt {sc['dt']} s; {len(rel_step)} particles released at steps "
             f"{sc['campaigns']}{', each living ' + str(sc['life']) + ' steps' if sc.get('life') else ''}; {sc['nsteps']} steps; {len(field.steps)} frames "
             f"{min(sc['intervals'])}..{max(sc['intervals'])} steps apart, the first at step {sc['first_frame']}, in {sc['nfiles']} files]")
    observed = {}
    if sc.get("main"):
        problems = eval_main(sc, d, conf, w, observed)
    else:
        rl.run_conf(conf, per_step=w)
        problems = w.problems
        observed = {"particle_steps_checked": w.checked, "empty_steps": w.empty_steps, "max_deviation": w.max_err}
        # the case must be what it claims to be
        if not problems and (w.checked < sc["min_checked"] or w.empty_steps < sc["min_empty"]):
            problems = [f"the case is not what it should be: {w.checked} particle-steps checked (at least {sc['min_checked']} expected), "
                        f"{w.empty_steps} steps with an empty state (at least {sc['min_empty']} expected)"]
    oracle = None
    if problems:
        oracle = label + ": " + "; ".join(problems[:2])
    return {"ints": None, "oracle": oracle, "nontrivial": ("scale", sc["name"]), "kind": "scale-" + sc["name"].split("-")[0], "observed": observed}


def eval_main(sc, d, conf, w, observed):
    """ladim.main.main, then the output file against the trajectory (which needs no observation of the state)"""
    from netCDF4 import Dataset

    rl.run_main(conf, d)
    # the trajectory of every particle at the output times
    for n in range(sc["nsteps"]):
        w.advance_trajectory(n)
        if (n + 1) % sc["output_every"] == 0:
            w.traj[n + 1] = (w.tr_x.copy(), w.tr_y.copy(), w.tr_ok & (w.rel_step <= n))
    problems = []
    with Dataset(d / "o.nc") as nc:
        nc.set_auto_mask(False)
        count = nc.variables["particle_count"][:].astype(np.int64)
        pid = nc.variables["pid"][:].astype(np.int64); X = nc.variables["X"][:].astype(float); Y = nc.variables["Y"][:].astype(float)
        time = nc.variables["time"][:].astype(float)
    start = np.concatenate(([0], np.cumsum(count)))
    checked = 0
    for r in range(len(count)):
        n = int(round(time[r] / sc["dt"]))
        p = pid[start[r]:start[r + 1]]; x = X[start[r]:start[r + 1]]; y = Y[start[r]:start[r + 1]]
        if n == 0 or n not in w.traj:
            continue
        tx, ty, ok = w.traj[n]
        # a particle whose trajectory is in the interior of the grid has to be in the record
        missing = np.flatnonzero(ok & ~np.isin(np.arange(len(ok)), p))
        if missing.size and len(problems) < 3:
            problems.append(f"record {r} (step {n}): {missing.size} particles whose trajectory is inside the grid are not in the record, e.g. pid {int(missing[0])}")
        sel = ok[p]
        err = np.maximum(np.abs(x - tx[p]), np.abs(y - ty[p]))
        bad = sel & ~(err <= TOL)
        checked += int(sel.sum())
        if bad.any() and len(problems) < 3:
            j = int(np.flatnonzero(bad)[np.argmax(err[bad])])
            problems.append(f"record {r} (step {n}, {len(p)} particles, {int(bad.sum())} wrong): pid {int(p[j])} released at step {int(w.rel_step[p[j]])} "
                            f"stored at ({float(x[j])}, {float(y[j])}), the {sc['adv']} trajectory from its release position is at ({float(tx[p[j]])}, {float(ty[p[j]])})")
    observed.update({"records": int(len(count)), "instances": int(count.sum()), "instances_checked": checked,
                     "empty_records": int((count == 0).sum())})
    if not problems and (checked < 100000 or (count == 0).sum() < 2):
        problems.append(f"the case is not what it should be: {checked} instances checked, {int((count == 0).sum())} empty records")
    return problems
