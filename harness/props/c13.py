"""C13 — clock arithmetic and period spellings: generator, implementation driver, oracle."""
from __future__ import annotations

import datetime

import numpy as np

import romsfiles as rf
from coqbridge import fl

PROP = "C13"
THEOREM_FILE = "Props/C13.v"
CHECKER = "Corr.C13"
RULE = ("TimeKeeper cases: random start/stop/reference on a one-second lattice, dt dividing or not dividing the "
        "duration, both directions, step queries incl. negative, all four CF units; period cases: the four accepted "
        "spellings plus a malformed stream. Non-trivial = distinct (direction, divisibility, sign of query, unit, "
        "reference given) class for clock cases / distinct spelling text for period cases.")
TRUSTED = ["Coq 8.16.1 kernel + vm_compute", "hand-written model coq/Model/Time.v tied by this correspondence",
           "numpy datetime64/timedelta64 arithmetic (glue)", "Python re for \\d (ASCII digits only generated)"]
ASSUMPTIONS = ["dt > 0 seconds; int64 overflow of datetime64 not modelled",
               "Unicode digits and a trailing newline in ISO strings are outside the model and the generator"]
UNITS = ["s", "m", "h", "d"]
USECS = {"s": 1, "m": 60, "h": 3600, "d": 86400}


def gen_cases(ctx):
    rng = ctx.rng
    n = 250 if ctx.quick else 4000
    out = []
    for _ in range(n):
        dt = rng.choice([1, 7, 60, 600, 3600, rng.randint(1, 5000)])
        nst = rng.randint(0, 40)
        rem = rng.choice([0, 0, rng.randint(0, max(0, dt - 1))])
        start = rng.randint(-10**6, 10**7)
        rev = rng.random() < 0.5
        dur = nst * dt + rem
        stop = start - dur if rev else start + dur
        wrongdir = rng.random() < 0.08
        missing = rng.choice([None] * 12 + ["start", "stop", "dt"])
        ref = rng.choice([None, None, rng.randint(-10**6, 10**7), start, min(start, stop)])
        q = rng.randint(-50, 60)
        x = (start + (-1 if rev else 1) * rng.randint(-30, 60) * dt) if rng.random() < 0.6 else rng.randint(start - 50 * dt, start + 50 * dt)
        out.append({"k": "tk", "start": start, "stop": stop, "dt": dt, "ref": ref, "rev": (not rev) if wrongdir else rev,
                    "missing": missing, "n": q, "x": x, "unit": rng.choice(UNITS), "updates": rng.randint(0, 45)})
    # fixed clocks: a stop time a hair (1 s, 1 % of dt) short of / past a whole number of steps, both directions
    for dt, nst, rem in [(600, 5, 599), (600, 5, 594), (3600, 3, 3599), (3600, 3, 3565), (100, 7, 99), (600, 5, 1), (86400, 2, 86399)]:
        for rev in (False, True):
            start = 500000
            stop = start - (nst * dt + rem) if rev else start + nst * dt + rem
            out.append({"k": "tk", "start": start, "stop": stop, "dt": dt, "ref": None, "rev": rev, "missing": None, "n": nst,
                        "x": stop, "unit": UNITS[0], "updates": nst + 1})
    # fixed period spellings: durations of a day and more in every type (a datetime.timedelta keeps days apart from seconds)
    for v in [86399, 86400, 86401, 129600, 172800, 1000000]:
        for sk in ("tdelta", "delta", "int"):
            out.append({"k": "period", "sk": sk, "value": v, "text": ""})
    # fixed: [value, unit] lists whose value is not a whole number (value + 0.5) with every legal unit
    for v, text in [(1, "h"), (2, "m"), (0, "h"), (5, "s"), (1, "D"), (90, "m")]:
        out.append({"k": "period", "sk": "list", "value": v, "text": text, "bad_value": True})
    # the CF time value as it reaches the output files: records of histories whose output period is NOT a whole number
    # of time steps, several reference times, both directions (driver and oracle of C06: every record's time must be the
    # offset of ITS step from the reference)
    import c06

    k = 0
    for d in c06.gen_cases(ctx):
        if d.get("k") == "hist" and k < (8 if ctx.quick else 60):
            d = dict(d, pextra=[150, 450, 300, 590][k % 4], ref=[None, 0, 98765, 250000][k % 4], rev=(k % 3 == 2), numrec=[0, 2][k % 2])
            out.append({"k": "outtime", "c06": d})
            k += 1
    # period spellings
    for _ in range(n // 2):
        v = rng.choice([0, 1, 5, 60, 90, 3600, rng.randint(0, 10**6)])
        sk = rng.choice(["int", "delta", "tdelta", "list", "list", "str", "str", "str", "other"])
        d = {"k": "period", "sk": sk, "value": v, "text": ""}
        if sk == "list":
            d["text"] = rng.choice(["s", "m", "h", "D", "s", "m", "h", "x", "hh", ""])
            d["value"] = rng.choice([v % 5000, 1, 2, 24])
            d["bad_value"] = rng.random() < 0.1
        elif sk == "str":
            d["text"] = gen_iso(rng)
        out.append(d)
    return out


def gen_iso(rng):
    def num():
        return rng.choice(["0", "1", "5", "12", "007", "90", str(rng.randint(0, 99999))])
    if rng.random() < 0.6:  # well formed
        parts = [(num() + L) if rng.random() < 0.55 else "" for L in "HMS"]
        return "PT" + "".join(parts)
    bad = ["PT", "P", "", "PT5S3M", "PT3M2H", "pt5s", "PT5s", "PT-5S", "PT+5S", "P1D", "P1DT1H", "PT1.5H", "PT5", "5S",
           " PT5S", "PT5S ", "PT5S5S", "PTH", "PT1H2H", "T5S", "PT1H 5M", "PT1H5M3", "PTS", "XPT5S", "PT5SX", "PT1HM"]
    return rng.choice(bad)


# ---- specification of the period spellings (property text, no regex) ---------------------------
def spec_iso(s):
    if not s.startswith("PT"):
        return None
    r, tot, any_ = s[2:], 0, False
    for L, k in (("H", 3600), ("M", 60), ("S", 1)):
        j = 0
        while j < len(r) and r[j] in "0123456789":
            j += 1
        if j > 0 and j < len(r) and r[j] == L:
            tot += int(r[:j]) * k
            any_ = True
            r = r[j + 1:]
    return tot if (r == "" and any_) else None


def iso_extended(s):
    """A well-formed ISO-8601 duration BEYOND the documented PTxHyMzS form (weeks, days, a decimal fraction in the last
    component): its meaning in seconds as a Fraction, else None.  The property lists PTxHyMzS as the accepted ISO
    spelling and wants malformed strings rejected; a well-formed duration of this wider class is neither: the code
    may refuse it (it does) or accept it with its ISO meaning."""
    from fractions import Fraction
    import re
    m = re.fullmatch(r"P(?:(\d+)W)?(?:(\d+)D)?(?:T(?:(\d+)H)?(?:(\d+)M)?(?:(\d+(?:[.,]\d+)?)S)?)?", s, flags=re.ASCII)
    m2 = re.fullmatch(r"P(?:(\d+)D)?T(?:(\d+(?:[.,]\d+)?)H|(?:(\d+)H)?(\d+(?:[.,]\d+)?)M)", s, flags=re.ASCII)
    if m and any(g is not None for g in m.groups()) and not s.endswith("T"):
        w, dd, h, mi, se = m.groups()
        return (Fraction(int(w or 0)) * 604800 + Fraction(int(dd or 0)) * 86400 + Fraction(int(h or 0)) * 3600 + Fraction(int(mi or 0)) * 60
                + Fraction((se or "0").replace(",", ".")))
    if m2:
        dd, hf, h, mf = m2.groups()
        if hf is not None:
            return Fraction(int(dd or 0)) * 86400 + Fraction(hf.replace(",", ".")) * 3600
        return Fraction(int(dd or 0)) * 86400 + Fraction(int(h or 0)) * 3600 + Fraction(mf.replace(",", ".")) * 60
    return None


def sec(t):
    return int((np.datetime64(t, "s") - rf.EPOCH) / np.timedelta64(1, "s"))


def eval_case(desc, ctx):
    from ladim.timekeeper import TimeKeeper, normalize_period

    if desc["k"] == "outtime":
        import c06

        r = c06.eval_case(desc["c06"], ctx)
        msg = r["oracle"] if (r["oracle"] and ("time" in r["oracle"] or "units" in r["oracle"] or "records" in r["oracle"])) else None
        return {"ints": None, "oracle": ("time coordinate of the output records: " + msg) if msg else None,
                "nontrivial": ("outtime",) + tuple(r["nontrivial"]) if r.get("nontrivial") else None, "kind": "outtime-" + r["kind"],
                "observed": r.get("observed")}
    if desc["k"] == "period":
        sk, v, text = desc["sk"], desc["value"], desc["text"]
        if sk == "int":
            arg, code, want = v, 0, v
        elif sk == "delta":
            arg, code, want = np.timedelta64(v, "s"), 1, v
        elif sk == "tdelta":
            arg, code, want = datetime.timedelta(seconds=v), 1, v
        elif sk == "list":
            val = (v + 0.5) if desc.get("bad_value") else v
            arg, code = [val, text], 2
            want = None if desc.get("bad_value") else {"s": v, "m": 60 * v, "h": 3600 * v, "D": 86400 * v}.get(text)
            if desc.get("bad_value"):
                code, text = 4, ""
        elif sk == "str":
            arg, code, want = text, 3, spec_iso(text)
        else:
            arg, code, want, text = 2.5, 4, None, ""
        try:
            got = normalize_period(arg)
            got = int(got / np.timedelta64(1, "s"))
        except ValueError:
            got = None
        oracle = None
        ext = iso_extended(text) if (sk == "str" and want is None) else None
        if ext is not None:
            # well-formed ISO-8601 outside the documented PTxHyMzS form: refusing it is fine, accepting it is fine as long
            # as the value is its ISO meaning; not part of the correspondence (the model is the recogniser as coded)
            if got is not None and got != ext:
                oracle = f"normalize_period({arg!r}) = {got}, this ISO-8601 duration denotes {ext} s"
            return {"ints": None, "oracle": oracle, "nontrivial": None, "kind": "period-str-iso-extended", "observed": got}
        if sk == "list" and desc.get("bad_value") and got is not None:
            # a fractional value with a legal unit: the code refuses it; accepting it with its exact meaning (a whole
            # number of seconds) would denote the same duration and is not a violation — and not the modelled recogniser
            unit = {"s": 1, "m": 60, "h": 3600, "D": 86400}.get(desc["text"])
            if unit is not None and (2 * v + 1) * unit % 2 == 0 and got == (2 * v + 1) * unit // 2:
                return {"ints": None, "oracle": None, "nontrivial": None, "kind": "period-list-fraction-accepted", "observed": got}
        if got != want:
            oracle = f"normalize_period({arg!r}) = {got}, the spelling denotes {want}"
        ints = [2, code, v, 0 if got is None else 1, 0 if got is None else got] + [ord(ch) for ch in text]
        return {"ints": ints, "oracle": oracle, "nontrivial": ("period", sk, text if sk in ("str", "list") else v),
                "kind": f"period-{sk}" + ("-rejected" if want is None else ""), "observed": got}

    s, e, dt, ref, rev = desc["start"], desc["stop"], desc["dt"], desc["ref"], desc["rev"]
    miss = desc["missing"]
    kw = dict(start=rf.iso(s), stop=rf.iso(e), dt=dt, time_reversal=rev)
    if ref is not None:
        kw["reference"] = rf.iso(ref)
    if miss == "start":
        kw["start"] = ""
    if miss == "stop":
        kw["stop"] = ""
    if miss == "dt":
        kw["dt"] = 0
    head = [1, 0 if miss == "start" else 1, s, 0 if miss == "stop" else 1, e, 0 if miss == "dt" else dt,
            0 if ref is None else 1, 0 if ref is None else ref, 1 if rev else 0]
    should_refuse = miss is not None or (rev != (e - s < 0))
    try:
        tk = TimeKeeper(**kw)
    except SystemExit:
        oracle = None if should_refuse else "valid clock set-up refused"
        return {"ints": head + [0], "oracle": oracle, "nontrivial": ("refused", miss, rev), "kind": "tk-refused", "observed": "SystemExit"}
    if should_refuse:
        return {"ints": head + [1] + [0] * 14, "oracle": f"impossible clock set-up accepted (missing={miss}, rev={rev}, start={s}, stop={e})",
                "nontrivial": ("accepted-bad",), "kind": "tk-accepted-bad", "observed": "accepted"}
    n, x, u, k = desc["n"], desc["x"], desc["unit"], desc["updates"]
    sgn = -1 if rev else 1
    refv = ref if ref is not None else min(s, e)
    problems = []
    oN = int(tk.Nsteps)
    if oN != abs(e - s) // dt:
        problems.append(f"Nsteps={oN}, floor(|stop-start|/dt)={abs(e - s) // dt}")
    oref = sec(tk.reference_time)
    if oref != refv:
        problems.append(f"reference_time {oref} != {refv}")
    os2t = sec(tk.step2time(n))
    if os2t != s + sgn * n * dt:
        problems.append(f"step2time({n})={os2t}, start{'-' if rev else '+'}n*dt={s + sgn * n * dt}")
    if tk.step2isotime(n) != rf.iso(s + sgn * n * dt):
        problems.append(f"step2isotime({n})={tk.step2isotime(n)}")
    if int(tk.time2step(tk.step2time(n))) != n:
        problems.append(f"time2step(step2time({n}))={int(tk.time2step(tk.step2time(n)))}")
    ot2s = int(tk.time2step(rf.iso(x)))
    if (x - s) % dt == 0 and sec(tk.step2time(ot2s)) != x:
        problems.append(f"step2time(time2step({x}))={sec(tk.step2time(ot2s))}")
    onc = float(tk.step2nctime(n, u))
    want_nc = (s + sgn * n * dt - refv) / USECS[u]
    if abs(onc - want_nc) > 1e-9 * max(1.0, abs(want_nc)):
        problems.append(f"step2nctime({n},{u})={onc}, offset from reference={want_nc}")
    if tk.cf_units(u) != f"{TimeKeeper.unit_table[u]} since {rf.iso(refv)}":
        problems.append(f"cf_units({u})={tk.cf_units(u)}")
    for _ in range(k):
        tk.update()
    ostep, otime, cnc = int(tk.step), sec(tk.time), float(tk.nctime())
    if ostep != k - 1 or otime != s + sgn * (k - 1) * dt:
        problems.append(f"after {k} updates step={ostep} time={otime}, expected step={k - 1} time={s + sgn * (k - 1) * dt}")
    if cnc != float(otime - refv):
        problems.append(f"nctime()={cnc}, expected {otime - refv}")
    # the clock set back the way Model.__init__ does on a warm start (step and time assigned, then updates):
    # the CF value is the offset of the clock's TIME from the reference, whatever set that time
    tk.step = 0
    tk.time = tk.step2time(tk.step)
    w0 = float(tk.nctime())
    tk.update()
    w1 = float(tk.nctime(u))
    if w0 != float(s - refv) or int(tk.step) != 1 or sec(tk.time) != s + sgn * dt:
        problems.append(f"clock set to step 0 (as on a warm start): nctime()={w0}, step={int(tk.step)}, time={sec(tk.time)}; expected {s - refv}, 1, {s + sgn * dt}")
    if abs(w1 - (s + sgn * dt - refv) / USECS[u]) > 1e-9 * max(1.0, abs(w1)):
        problems.append(f"clock set to step 0 then one update: nctime({u})={w1}, offset from reference={(s + sgn * dt - refv) / USECS[u]}")
    # a second clock in the same process: same start and dt, opposite direction (a backtracking run from the same
    # instant); every clock is a function of its own arguments only
    try:
        tk2 = TimeKeeper(start=rf.iso(s), stop=rf.iso(s - (e - s)), dt=dt, time_reversal=not rev)
        sg2 = -sgn
        if sec(tk2.time) != s - sg2 * dt or sec(tk2.step2time(n)) != s + sg2 * n * dt or int(tk2.time2step(tk2.step2time(n))) != n:
            problems.append(f"second clock (same start and dt, opposite direction): time={sec(tk2.time)}, step2time({n})={sec(tk2.step2time(n))}; "
                            f"expected {s - sg2 * dt} and {s + sg2 * n * dt}")
        tk2.update()
        if sec(tk2.time) != s or float(tk2.nctime()) != float(s - sec(tk2.reference_time)):
            problems.append(f"second clock after one update reads {sec(tk2.time)} (nctime {float(tk2.nctime())}), expected {s}")
    except SystemExit:
        if e != s:
            problems.append("the clock of the opposite direction over the mirrored window was refused")
    ints = head + [1, oN, oref, n, os2t, x, ot2s, UNITS.index(u)] + fl(onc) + [k, ostep, otime] + fl(cnc)
    # step2nctime in units other than seconds is a float quotient: exact only when representable;
    # use exact stream when divisible, otherwise compare in the oracle only
    if (s + sgn * n * dt - refv) % USECS[u] != 0 and u != "s":
        ints[9 + 7] = 0  # unit seconds in the Coq comparison
        ints[9 + 8: 9 + 10] = fl(float(tk.step2nctime(n, "s")))
    nt = ("tk", rev, abs(e - s) % dt == 0, n < 0, u, ref is not None, (x - s) % dt == 0)
    return {"ints": ints, "oracle": "; ".join(problems) or None, "nontrivial": nt, "kind": "tk-rev" if rev else "tk-fwd",
            "observed": {"Nsteps": oN, "step2time": os2t, "time2step": ot2s, "step2nctime": onc, "clock": [ostep, otime, cnc]}}
