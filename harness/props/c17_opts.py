"""C17 under option combinations: a deterministic, pairwise-covering family of small simulations.

The property (the compiled sampling kernels never read outside the forcing arrays, for every position the model itself
produces, in particular the clipped Runge-Kutta stage positions in fast flow near the open boundary) is decided by
c17.eval_sim / c17.eval_boundscheck exactly as for the other simulations; this module only writes the set-ups and runs
them through the entry point the case asks for.  What varies (every PAIR of values of two different options that can be
combined occurs in at least one case, see pairwise_report()):

  rev      time.time_reversal off / on (the file then stores the NEGATED flow, so that the reversed particles still head
           for the boundary named by `dir`; start > stop, release times count backwards)
  adv      RK4 / RK2 / EF
  sub      grid.subgrid with i0 != j0 / whole grid
  diff     tracker.diffusion off / on            vdiff   tracker.vertdiff off / on (depths reflected at surface and bottom)
  files    forcing in one file / in three files of two frames each (flow strength differs between the frames, a frame
           BEFORE the start, frame steps and steps between frames: the time-interpolated u + f * dU path)
  store    u, v (and temp) stored as f8 / f4 / packed i2 with scale_factor
  release  once at the start / continuous (release_frequency = dt) / rows with several release times
  cfg      v2 dictionary -> Model (the loop of main) / v2 YAML file -> ladim.main.main / v2 TOML file -> ladim.main.main /
           v1 YAML file (legacy module name ladim1.gridforce.ROMS) -> ladim.main.main
  state    float64 positions / positions cast to float32 after every step / a real WARM START from the output file
           (X, Y stored as f4) of a first leg of the same simulation
  ibm      none / harness IBM that kills and settles particles (the state shrinks between forcing.update and the next step)
  extra    forcing.extra_forcing temp (nearest-neighbour sampler) / none
  dir      flow towards +x / -x / +y / (-x, -y)          speed   1.8 / 2.6 / 0.8 cells per step

Combinations that are not legal inputs are excluded from the pair count: a v1 file cannot ask for time reversal, vertical
diffusion or a warm start; the float32 cast needs the per-step hook of the dictionary entry point.
Options that do not touch the sampling path (output layout, numrec, packed output variables, lon/lat output) are left
to the properties they belong to.

The table (TABLE, 21 rows, frozen below) was produced by a seeded greedy construction (build_table) after four directed
cases (time reversal x RK4 / RK2 x subgrid / whole grid).
"""
from __future__ import annotations

import itertools
import json
import math
import random
from pathlib import Path

import numpy as np

import romsfiles as rf

DIRS = [(1, 0), (-1, 0), (0, 1), (0, -1), (1, 1), (-1, -1), (1, -1), (-1, 1)]
PLUG = str(Path(rf.__file__).resolve().parents[1] / "plugins" / "kill_ibm.py")
SEED0 = 171600

FACTORS = [
    ("rev", [0, 1]),
    ("adv", ["RK4", "RK2", "EF"]),
    ("sub", [1, 0]),
    ("diff", [0, 1]),
    ("vdiff", [0, 1]),
    ("files", [1, 3]),
    ("store", ["f8", "f4", "packed"]),
    ("release", ["once", "continuous", "timed"]),
    ("cfg", ["dict", "yaml2", "toml2", "yaml1"]),
    ("state", ["f64", "f32", "warm"]),
    ("ibm", [0, 1]),
    ("extra", [1, 0]),
    ("dir", [0, 1, 2, 5]),
    ("speed", [1.8, 2.6, 0.8]),
]
NAMES = [f[0] for f in FACTORS]

DIRECTED = [
    dict(rev=1, adv="RK4", sub=0, diff=0, vdiff=0, files=1, store="f4", release="once", cfg="yaml2", state="f64", ibm=0, extra=0, dir=0, speed=1.8),
    dict(rev=1, adv="RK2", sub=1, diff=0, vdiff=0, files=3, store="f8", release="once", cfg="dict", state="f64", ibm=0, extra=1, dir=2, speed=2.6),
    dict(rev=1, adv="RK4", sub=1, diff=0, vdiff=0, files=1, store="packed", release="timed", cfg="toml2", state="f64", ibm=1, extra=1, dir=5, speed=1.8),
    dict(rev=1, adv="RK2", sub=0, diff=0, vdiff=0, files=1, store="f8", release="continuous", cfg="dict", state="f32", ibm=0, extra=0, dir=1, speed=2.6),
]


def legal(o):
    """is the (possibly partial) assignment a legal input of ladim?"""
    if o.get("cfg") == "yaml1" and (o.get("rev") == 1 or o.get("vdiff") == 1 or o.get("state") == "warm"):
        return False        # the v1 format has no time reversal, no vertical diffusion, no warm start
    if o.get("state") == "f32" and o.get("cfg") not in (None, "dict"):
        return False        # the cast is a per-step hook of the dictionary entry point
    return True


def _pairs_of(o):
    return {((a, o[a]), (b, o[b])) for a, b in itertools.combinations(NAMES, 2)}


def all_legal_pairs():
    out = set()
    for (a, la), (b, lb) in itertools.combinations(FACTORS, 2):
        for x in la:
            for y in lb:
                if legal({a: x, b: y}):
                    out.add(((a, x), (b, y)))
    return out


# the covering array, one row per case in the order of FACTORS (output of build_table(), frozen here so that the cases
# do not depend on the implementation of a random generator; pairwise_report() re-checks legality and coverage)
TABLE = [
    (1, "RK4", 0, 0, 0, 1, "f4", "once", "yaml2", "f64", 0, 0, 0, 1.8),
    (1, "RK2", 1, 0, 0, 3, "f8", "once", "dict", "f64", 0, 1, 2, 2.6),
    (1, "RK4", 1, 0, 0, 1, "packed", "timed", "toml2", "f64", 1, 1, 5, 1.8),
    (1, "RK2", 0, 0, 0, 1, "f8", "continuous", "dict", "f32", 0, 0, 1, 2.6),
    (0, "EF", 0, 1, 1, 3, "packed", "timed", "dict", "warm", 1, 0, 0, 0.8),
    (0, "EF", 1, 1, 1, 1, "f4", "continuous", "toml2", "warm", 0, 1, 2, 0.8),
    (0, "EF", 0, 1, 0, 3, "f8", "once", "yaml1", "f64", 1, 1, 1, 1.8),
    (0, "EF", 1, 0, 1, 3, "f4", "continuous", "yaml2", "warm", 1, 0, 5, 2.6),
    (1, "EF", 1, 1, 1, 3, "f8", "once", "dict", "f32", 1, 1, 5, 0.8),
    (0, "RK2", 0, 1, 1, 3, "packed", "once", "toml2", "warm", 1, 0, 2, 1.8),
    (0, "RK2", 1, 0, 0, 1, "f4", "timed", "yaml1", "f64", 0, 0, 1, 0.8),
    (1, "RK2", 1, 1, 0, 3, "f8", "timed", "yaml2", "warm", 0, 1, 0, 2.6),
    (0, "RK2", 0, 1, 0, 1, "packed", "continuous", "yaml1", "f64", 0, 1, 5, 2.6),
    (0, "RK4", 0, 1, 1, 3, "f4", "timed", "dict", "f32", 0, 1, 2, 1.8),
    (0, "RK4", 1, 0, 0, 3, "f8", "continuous", "yaml1", "f64", 1, 1, 0, 2.6),
    (0, "RK4", 1, 0, 1, 3, "packed", "timed", "yaml2", "warm", 1, 1, 1, 0.8),
    (0, "RK2", 0, 1, 1, 1, "f8", "once", "toml2", "f64", 1, 0, 0, 2.6),
    (1, "EF", 0, 1, 1, 1, "packed", "continuous", "toml2", "f64", 1, 0, 1, 1.8),
    (0, "EF", 0, 1, 0, 3, "f4", "once", "yaml1", "f64", 0, 0, 2, 2.6),
    (0, "RK4", 1, 0, 0, 1, "f8", "once", "yaml2", "warm", 1, 1, 2, 0.8),
    (1, "RK4", 1, 0, 0, 3, "packed", "timed", "dict", "f32", 1, 1, 0, 0.8),
]


def table():
    """the covering array as a list of option dictionaries"""
    return [dict(zip(NAMES, row)) for row in TABLE]


def build_table(tries=300):
    """the construction TABLE was produced with: the four directed cases, then greedily (seeded) a legal case that
    covers most of the still uncovered legal pairs, until none is left"""
    rnd = random.Random(17)
    todo = all_legal_pairs()
    cases = []
    for o in DIRECTED:
        assert legal(o)
        cases.append(dict(o))
        todo -= _pairs_of(o)
    while todo:
        best, gain = None, -1
        seedpair = sorted(todo, key=repr)[0]
        for _ in range(tries):
            o = {seedpair[0][0]: seedpair[0][1], seedpair[1][0]: seedpair[1][1]}
            order = [n for n in NAMES if n not in o]
            rnd.shuffle(order)
            ok = True
            for n in order:
                levels = [v for v in dict(FACTORS)[n] if legal({**o, n: v})]
                if not levels:
                    ok = False
                    break
                # the level that covers most of the still uncovered pairs with what is already chosen
                score = [sum(1 for m, w in o.items() if _norm(n, v, m, w) in todo) for v in levels]
                top = max(score)
                o[n] = rnd.choice([v for v, s in zip(levels, score) if s == top])
            if not ok or not legal(o):
                continue
            g = len(_pairs_of(o) & todo)
            if g > gain:
                best, gain = o, g
        cases.append(best)
        todo -= _pairs_of(best)
    return cases


def _norm(a, x, b, y):
    return ((a, x), (b, y)) if NAMES.index(a) < NAMES.index(b) else ((b, y), (a, x))


def pairwise_report():
    """(number of legal pairs, pairs not covered by the table)"""
    want = all_legal_pairs()
    have = set()
    for o in table():
        assert legal(o) and all(o[n] in lv for n, lv in FACTORS), o
        have |= _pairs_of(o)
    return len(want), sorted(want - have, key=repr)


def opts_descs():
    """the descriptions (k = "sim"): fixed, the same in every run and in both tiers"""
    out = []
    for n, o in enumerate(table()):
        out.append({"k": "sim", "seed": SEED0 + n, "adv": o["adv"], "dir": o["dir"], "speed": o["speed"], "diffusion": bool(o["diff"]),
                    "opts": dict(o)})
    return out


def describe(desc):
    o = desc["opts"]
    txt = ", ".join([
        "time_reversal=True" if o["rev"] else "forward",
        f"advection={o['adv']}",
        "subgrid" if o["sub"] else "whole grid",
        f"diffusion={'on' if o['diff'] else 'off'}",
        f"vertdiff={'on' if o['vdiff'] else 'off'}",
        f"{o['files']} forcing file(s)",
        f"u/v stored {o['store']}",
        f"release {o['release']}",
        {"dict": "v2 dictionary", "yaml2": "v2 YAML through main", "toml2": "v2 TOML through main", "yaml1": "v1 YAML through main"}[o["cfg"]],
        {"f64": "float64 state", "f32": "float32 state positions", "warm": "warm start from f4 output"}[o["state"]],
        "killing IBM" if o["ibm"] else "no IBM",
        "extra forcing temp" if o["extra"] else "no extra forcing",
    ])
    return f" OPTION-COMBINATION case {desc['seed'] - SEED0} ({txt}; seed {desc['seed']})"


# ------------------------------------------------------------------------------------ files
DT, DX, NSTEPS = 600, 1000.0, 5
SPAN = NSTEPS + 2          # frames at 0 ... SPAN * DT; forward run DT -> (NSTEPS + 1) DT, reversed run (SPAN - 1) DT -> DT


def write_opts_scenario(d, desc):
    """files + run plan of one option-combination simulation, all derived from the description"""
    o = desc["opts"]
    rng = np.random.default_rng(desc["seed"])
    rev = bool(o["rev"])
    imax0, jmax0, N = int(rng.integers(12, 17)), int(rng.integers(10, 15)), int(rng.integers(2, 5))
    h = rng.uniform(30, 200, size=(jmax0, imax0))
    if o["sub"]:
        while True:
            i0 = int(rng.integers(1, imax0 - 6)); i1 = int(rng.integers(i0 + 5, imax0))
            j0 = int(rng.integers(1, jmax0 - 6)); j1 = int(rng.integers(j0 + 5, jmax0))
            if i0 != j0:
                break
        sub = g = (i0, i1, j0, j1)
    else:
        sub = None
        g = (1, imax0 - 1, 1, jmax0 - 1)
    dxs, dys = DIRS[o["dir"]]
    sign = -1.0 if rev else 1.0           # reversed particles move AGAINST the stored flow
    speed = o["speed"] * DX / DT          # cells per step -> m/s
    lev = 1.0 + 0.15 * np.arange(N)[:, None, None]
    u1 = sign * dxs * speed * lev * np.ones((N, jmax0, imax0 - 1))
    v1 = sign * dys * speed * lev * np.ones((N, jmax0 - 1, imax0))
    temp = rng.uniform(0, 10, size=(N, jmax0, imax0))

    # forcing frames (multiples of DT): one file with a frame before and a frame after the run, or three files with
    # a frame before the start, frame steps, and steps between frames
    if o["files"] == 1:
        groups = [[0, SPAN]]
    else:
        groups = [[0, 2], [3, 4], [SPAN - 1, SPAN]]
    fac = {0: 1.0, 2: 1.25, 3: 0.75, 4: 1.0, SPAN - 1: 1.25, SPAN: 0.75} if o["files"] == 3 else {0: 1.0, SPAN: 1.0}
    kw = {}
    if o["store"] == "f4":
        kw["dtype"] = "f4"
    elif o["store"] == "packed":
        kw["packed"] = {"u": 0.001, "v": 0.001, "temp": 0.001}
    names = []
    for f, ks in enumerate(groups):
        name = d / ("f.nc" if len(groups) == 1 else f"f_{f:03d}.nc")
        rf.write_roms(name, imax=imax0, jmax=jmax0, N=N, times=[k * DT for k in ks], u=np.stack([fac[k] * u1 for k in ks]),
                      v=np.stack([fac[k] * v1 for k in ks]), h=h, dx=DX, extra={"temp": np.stack([temp] * len(ks))}, **kw)
        names.append(name)
    pattern = names[0] if len(names) == 1 else d / "f_*.nc"

    # run interval
    t_start, t_stop, tdir = ((SPAN - 1) * DT, DT, -1) if rev else (DT, (NSTEPS + 1) * DT, 1)

    # particles inside the valid region, most of them within reach of the boundary the particles are carried to
    xlo, xhi, ylo, yhi = g[0] + 0.5, g[1] - 1.5, g[2] + 0.5, g[3] - 1.5
    nrows = 10
    rows = []
    for p in range(nrows):
        def coord(lo, hi, sgn):
            r = rng.random()
            reach = float(rng.choice([0.001, 0.05, 0.3, 0.7, 1.2, 2.0]))
            reach += o["speed"] * (p % 3)      # a third of them within reach only after one / two steps
            if sgn > 0 and r < 0.75:
                return max(hi - reach, lo + 0.001)
            if sgn < 0 and r < 0.75:
                return min(lo + reach, hi - 0.001)
            return float(rng.uniform(lo + 0.001, hi - 0.001))
        X, Y = coord(xlo, xhi, dxs), coord(ylo, yhi, dys)
        hh = float(h[round(Y), round(X)])
        Z = float(rng.choice([0.0, hh, hh + 3.0, rng.uniform(0, hh)]))
        when = t_start
        if o["release"] == "timed":
            when = t_start + tdir * DT * [0, 0, 0, 1, 2, 3][p % 6]
        rows.append([int(when), X, Y, Z])
    if o["release"] == "timed":
        rows.sort(key=lambda r: tdir * r[0])
    rf.write_release(d / "r.rls", rows)

    ivars = ("pid", "X", "Y", "Z") + (("temp",) if o["extra"] else ())

    def v2conf(start, stop, out_name, warm=None, f4pos=False):
        conf = rf.base_config(start=int(start), stop=int(stop), dt=DT, forcing_file=pattern, grid_file=names[0], release_file=d / "r.rls",
                              out_file=d / out_name, advection=o["adv"], subgrid=sub, time_reversal=rev, instance_variables=ivars)
        if o["extra"]:
            conf["state"] = {"instance_variables": {"temp": "float"}, "default_values": {"temp": 0.0}}
            conf["forcing"]["extra_forcing"] = ["temp"]
        if o["diff"]:
            conf["tracker"]["diffusion"] = 50.0
        if o["vdiff"]:
            conf["tracker"]["vertdiff"] = 0.01
        if o["release"] == "continuous":
            conf["release"]["continuous"] = True
            conf["release"]["release_frequency"] = DT
        if o["ibm"]:
            conf["ibm"] = {"module": PLUG, "kill": {"1": [0, 3], "2": [5]}, "settle": {"1": [2]}}
        if f4pos:
            for v in ("X", "Y"):
                conf["output"]["instance_variables"][v]["encoding"]["datatype"] = "f4"
        if warm:
            conf["warm_start"] = {"filename": str(d / warm), "variables": ["temp"] if o["extra"] else []}
        return conf

    legs = []
    if o["state"] == "warm":
        mid = t_start + tdir * 2 * DT
        legs.append(v2conf(t_start, mid, "leg1.nc", f4pos=True))
        legs.append(v2conf(mid, t_stop, "out.nc", warm="leg1.nc"))
    else:
        legs.append(v2conf(t_start, t_stop, "out.nc"))

    plan = {"dir": str(d), "cfg": o["cfg"], "legs": [], "f32": o["state"] == "f32"}
    for n, conf in enumerate(legs):
        if o["cfg"] == "dict":
            plan["legs"].append({"conf": conf})
        elif o["cfg"] == "yaml2":
            import yaml
            (d / f"ladim{n}.yaml").write_text(yaml.safe_dump(conf))
            plan["legs"].append({"file": str(d / f"ladim{n}.yaml")})
        elif o["cfg"] == "toml2":
            (d / f"ladim{n}.toml").write_text(emit_toml(conf))
            plan["legs"].append({"file": str(d / f"ladim{n}.toml")})
        else:
            import yaml
            (d / f"ladim{n}.yaml").write_text(yaml.safe_dump(v1_of(conf, o)))
            plan["legs"].append({"file": str(d / f"ladim{n}.yaml")})
    return plan, {"sub": sub, "g": g, "shape": (imax0, jmax0, N), "rows": rows}


def v1_of(conf, o):
    """the same set-up as a version 1 configuration file"""
    out = conf["output"]
    v1 = {
        "time_control": {"start_time": conf["time"]["start"], "stop_time": conf["time"]["stop"]},
        "files": {"particle_release_file": conf["release"]["release_file"], "output_file": out["filename"]},
        "gridforce": {"module": "ladim1.gridforce.ROMS", "input_file": conf["forcing"]["filename"], "gridfile": conf["grid"]["filename"]},
        "particle_release": {"variables": list(conf["release"]["names"])},
        "numerics": {"dt": conf["time"]["dt"], "advection": conf["tracker"]["advection"], "diffusion": conf["tracker"].get("diffusion", 0.0)},
        "output_variables": {"outper": out["output_period"], "format": "NETCDF4", "instance": list(out["instance_variables"]), "particle": []},
    }
    for v, spec in out["instance_variables"].items():
        v1["output_variables"][v] = {"ncformat": spec["encoding"]["datatype"], **spec["attributes"]}
    if "subgrid" in conf["grid"]:
        v1["gridforce"]["subgrid"] = list(conf["grid"]["subgrid"])
    if o["extra"]:
        v1["gridforce"]["extra_forcing"] = ["temp"]
        v1["ibm"] = {"variables": ["temp"]}
    if conf["release"].get("continuous"):
        v1["particle_release"]["release_type"] = "continuous"
        v1["particle_release"]["release_frequency"] = conf["release"]["release_frequency"]
    if conf.get("ibm"):
        v1.setdefault("ibm", {})
        v1["ibm"]["ibm_module"] = conf["ibm"]["module"]
        for k, v in conf["ibm"].items():
            if k != "module":
                v1["ibm"][k] = v
    return v1


def _tval(v):
    if isinstance(v, dict):
        return "{" + ", ".join(json.dumps(str(k)) + " = " + _tval(x) for k, x in v.items()) + "}"
    if isinstance(v, (list, tuple)):
        return "[" + ", ".join(_tval(x) for x in v) + "]"
    if isinstance(v, bool):
        return "true" if v else "false"
    if isinstance(v, (int, np.integer)):
        return str(int(v))
    if isinstance(v, float):
        return repr(v)
    return json.dumps(str(v))


def emit_toml(conf):
    """a v2 configuration dictionary as TOML: scalars first, one table per section, inline tables below"""
    out = [f"{k} = {_tval(v)}\n" for k, v in conf.items() if not isinstance(v, dict)]
    for k, v in conf.items():
        if isinstance(v, dict):
            out.append(f"\n[{k}]\n")
            out.extend(f"{json.dumps(str(k2))} = {_tval(v2)}\n" for k2, v2 in v.items())
    return "".join(out)


# ------------------------------------------------------------------------------------ running
def run_opts(plan, desc):
    """run the legs of the plan through the entry point the case asks for"""
    import run_ladim  # noqa: F401  (puts the repository under test on sys.path, silences logging)

    def cast(model, k):
        st = model.state
        st.variables["X"] = st.X.astype("f4")
        st.variables["Y"] = st.Y.astype("f4")

    for leg in plan["legs"]:
        if "conf" in leg:
            _run_dict(leg["conf"], cast if plan["f32"] else None)
        else:
            _run_main(leg["file"], plan["dir"])


def _run_dict(conf, per_step):
    """Model on a v2 dictionary with the loop of ladim.main.main (a warm start has taken step 0 during initialisation)"""
    import copy

    from ladim.configure import configure_v2
    from ladim.model import Model

    conf = copy.deepcopy(conf)
    configure_v2(conf)
    model = Model(conf)
    try:
        for k in range(model.timer.step + 1, model.timer.Nsteps):
            model.update()
            if per_step:
                per_step(model, k)
    finally:
        try:
            model.finish()
        except Exception:  # noqa: BLE001
            pass


def _run_main(fname, workdir):
    import logging
    import os

    from ladim.main import main

    cwd = os.getcwd()
    os.chdir(workdir)
    try:
        main(str(fname), loglevel=logging.CRITICAL + 10)
    finally:
        os.chdir(cwd)
        logging.disable(logging.CRITICAL)
