"""C05 — particle identity: random / exhaustive operation sequences on the real ladim.state.State."""
from __future__ import annotations

import itertools

import numpy as np

PROP = "C05"
THEOREM_FILE = "Props/C05.v"
CHECKER = "Corr.C05"
SHARD = 60
RULE = ("Operation sequences over {append scalar / array / broadcast / with and without defaults / shape mismatch / "
        "invalid name, kill in place, kill by assignment, compactify, item assignment, column copy, in-place poke, "
        "particle-variable assignment} on the real State; full state compared with the Coq model after every "
        "operation, and with a row-wise reference (the property text) by the oracle. Non-trivial = distinct sequence "
        "containing at least one append after a compactify that removed something.")
TRUSTED = ["Coq 8.16.1 kernel + vm_compute", "hand-written model coq/Model/State.v tied by this correspondence",
           "values are integer-coded (the operations only move values); numpy concatenate/boolean indexing as run"]
ASSUMPTIONS = ["item assignment keeps the column length (the code does not check; the property's quantifier is over length-preserving assignments)",
               "NaN is coded as a reserved integer in the comparison"]
EXHAUSTIVE = {"quick": False, "thorough": True}
NAN = -777777

# column layout: instance columns (model order) and particle columns
ICOLS = ["alive", "active", "X", "Y", "Z", "age", "stage", "temp"]
PCOLS = ["weight", "origin"]
IDEF = {"alive": 1, "active": 1, "age": 0, "stage": 1}
PDEF = {"origin": 7}


def make_state():
    from ladim.state import State

    return State(instance_variables={"age": float, "stage": int, "temp": float},
                 particle_variables={"weight": float, "origin": int},
                 default_values={"age": 0.0, "stage": 1, "origin": 7})


def code(name, arr):
    a = np.asarray(arr)
    if a.dtype == bool:
        return [int(x) for x in a]
    out = []
    for x in a.tolist():
        if isinstance(x, float) and x != x:
            out.append(NAN)
        else:
            out.append(int(x))
    return out


def observe(st, how="dict"):
    """the full state; read through the storage dictionary, item access or attribute access (three spellings of a
    read — none of them may have an effect on the state; which one is used is part of the case)"""
    if how == "item":
        get = lambda c: st[c]  # noqa: E731
    elif how == "attr":
        get = lambda c: getattr(st, c)  # noqa: E731
    else:
        get = lambda c: st.variables[c]  # noqa: E731
    return {"npid": int(st.npid), "pid": [int(p) for p in get("pid")],
            "inst": [code(c, get(c)) for c in ICOLS], "pvar": [code(c, get(c)) for c in PCOLS]}


def pyval(name, v):
    if name in ("alive", "active"):
        return np.array(v, dtype=bool) if isinstance(v, list) else bool(v)
    if name in ("stage", "origin"):
        return np.array(v, dtype=int) if isinstance(v, list) else int(v)
    return np.array(v, dtype=float) if isinstance(v, list) else float(v)


def apply_real(st, op):
    """returns 'ok' or 'ValueError'"""
    k = op[0]
    try:
        if k == "append":
            st.append(**{n: pyval(n, v) for n, v in op[1].items()})
        elif k == "append_invalid":
            st.append(**{op[1]: 1, "X": 1.0, "Y": 1.0, "Z": 1.0})
        elif k == "kill":
            st.alive[np.array(op[1], dtype=bool)] = False
        elif k == "kill_assign":
            st["alive"] = st.alive & ~np.array(op[1], dtype=bool)
        elif k == "compactify":
            st.compactify()
        elif k == "set":
            st[op[1]] = pyval(op[1], op[2])
        elif k == "copy":
            st[op[1]] = st[op[2]]
        elif k == "poke":
            st[op[1]][np.array(op[2], dtype=bool)] = op[3]
        elif k == "setp":
            st[op[1]] = pyval(op[1], op[2])
        else:
            raise RuntimeError(k)
    except ValueError:
        return "ValueError"
    return "ok"


# ---- row-wise reference: the property text ---------------------------------------------------
class Ref:
    def __init__(self):
        self.rows = []  # dicts: pid + instance values
        self.pvals = {c: [] for c in PCOLS}
        self.npid = 0
        self.issued = []

    def apply(self, op):
        k = op[0]
        if k == "append":
            args = op[1]
            lens = {len(v) for v in args.values() if isinstance(v, list)}
            big = {n for n in lens if n != 1}
            if len(big) > 1:
                return  # incompatible shapes: rejected, nothing changes
            n = big.pop() if big else 1

            def val(name, j):
                if name in args:
                    v = args[name]
                    return (v[j] if len(v) > 1 else v[0]) if isinstance(v, list) else v
                return IDEF.get(name, PDEF.get(name, NAN))
            for j in range(n):
                row = {"pid": self.npid}
                for c in ICOLS:
                    row[c] = int(val(c, j))
                self.rows.append(row)
                for c in PCOLS:
                    self.pvals[c].append(int(val(c, j)))
                self.issued.append(self.npid)
                self.npid += 1
        elif k in ("kill", "kill_assign"):
            for r, m in zip(self.rows, op[1]):
                if m:
                    r["alive"] = 0
        elif k == "compactify":
            self.rows = [r for r in self.rows if r["alive"]]
        elif k == "set":
            for r, v in zip(self.rows, op[2]):
                r[op[1]] = int(v)
        elif k == "copy":
            for r in self.rows:
                r[op[1]] = r[op[2]]
        elif k == "poke":
            for r, m in zip(self.rows, op[2]):
                if m:
                    r[op[1]] = int(op[3])
        elif k == "setp":
            self.pvals[op[1]] = [int(v) for v in op[2]]

    def check(self, obs):
        pid = obs["pid"]
        if any(b <= a for a, b in zip(pid, pid[1:])):
            return f"pids not strictly increasing: {pid}"
        if any(p < k for k, p in enumerate(pid)):
            return f"pid[k] < k in {pid}"
        if obs["npid"] != self.npid:
            return f"npid {obs['npid']} != number of particles released {self.npid}"
        if any(len(c) != len(pid) for c in obs["inst"]):
            return f"instance arrays not equally long: {[len(c) for c in obs['inst']]} vs {len(pid)} pids"
        if any(len(c) != self.npid for c in obs["pvar"]):
            return f"particle arrays {[len(c) for c in obs['pvar']]} != npid {self.npid}"
        if pid != [r["pid"] for r in self.rows]:
            return f"particles present {pid} != expected {[r['pid'] for r in self.rows]}"
        for j, c in enumerate(ICOLS):
            want = [r[c] for r in self.rows]
            if obs["inst"][j] != want:
                return f"instance variable {c}: {obs['inst'][j]} != each particle's own value {want}"
        for j, c in enumerate(PCOLS):
            if obs["pvar"][j] != self.pvals[c]:
                return f"particle variable {c}: {obs['pvar'][j]} != {self.pvals[c]}"
        if self.issued != list(range(self.npid)):
            return f"identifiers not dense: {self.issued}"
        return None


# ---- encoding for Coq -------------------------------------------------------------------------
def enc_arg(v):
    if v is None:
        return [0]
    if isinstance(v, list):
        return [2, len(v)] + [int(x) for x in v]
    return [1, int(v)]


def enc_op(op, cur):
    k = op[0]
    if k == "append":
        out = [0]
        for c in ICOLS:
            out += enc_arg(op[1].get(c))
        for c in PCOLS:
            out += enc_arg(op[1].get(c))
        return out
    if k == "append_invalid":
        return [1]
    if k in ("kill", "kill_assign"):
        return [2, len(op[1])] + [int(b) for b in op[1]]
    if k == "compactify":
        return [3]
    if k == "set":
        return [4, ICOLS.index(op[1]), len(op[2])] + [int(x) for x in op[2]]
    if k == "copy":  # model: item assignment of the source column's current values
        vals = cur["inst"][ICOLS.index(op[2])]
        return [4, ICOLS.index(op[1]), len(vals)] + vals
    if k == "poke":
        return [6, ICOLS.index(op[1]), int(op[3]), len(op[2])] + [int(b) for b in op[2]]
    if k == "setp":
        return [5, PCOLS.index(op[1]), len(op[2])] + [int(x) for x in op[2]]
    raise RuntimeError(k)


def enc_obs(o):
    out = [o["npid"], len(o["pid"])] + o["pid"]
    for c in o["inst"] + o["pvar"]:
        out += [len(c)] + c
    return out


def eval_case(desc, ctx):
    if desc["k"] == "records":
        # the output-record clause: identifiers in every record strictly increasing, pid[k] >= k, each
        # record holding exactly the living particles with their own values (driver and oracle of C06)
        import c06

        r = c06.eval_case(desc["c06"], ctx)
        return {"ints": None, "oracle": ("output records: " + r["oracle"]) if r["oracle"] else None,
                "nontrivial": ("records",) + tuple(r["nontrivial"]) if r.get("nontrivial") else None, "kind": "records-" + r["kind"],
                "observed": r.get("observed")}
    if desc["k"] == "bulk":
        return eval_bulk(desc)
    if desc["k"] == "warmpid":
        # identifiers across a warm start (oracle only): the restarted run must hand out the identifiers the
        # uninterrupted run hands out — never one that a (dead) particle of the first leg already had
        import c08_impl

        d = ctx.subdir("c05warm")
        for f in d.glob("*"):
            f.unlink()
        diffs, pids = c08_impl.warm_pid_scenario(d, desc["adv"])
        bad = [x for x in diffs if "pid" in x or "records" in x or "files" in x or "crash" in x]
        return {"ints": None, "oracle": ("identifiers after a warm start: " + "; ".join(bad[:2])) if bad else None,
                "nontrivial": ("warmpid", desc["adv"]), "kind": "warm-start-pids", "observed": {"pids_uninterrupted": pids}}
    st = make_state()
    ref = Ref()
    ints = [len(ICOLS), len(PCOLS)] + [IDEF.get(c, NAN) for c in ICOLS] + [PDEF.get(c, NAN) for c in PCOLS] + [len(desc["ops"])]
    oracle = None
    how = desc.get("obs", "dict")
    cur = observe(st, how)
    removed, nontriv = False, False
    other = None
    for i, op in enumerate(desc["ops"]):
        if i == len(desc["ops"]) // 2 and len(desc["ops"]) >= 2:
            # a second, unrelated State comes to life in the same process (another simulation side by side)
            other = make_state()
            other.append(X=np.array([1.0, 2.0]), Y=1.0, Z=1.0, weight=np.array([0.5, 0.25]))
        ints += enc_op(op, cur)
        before = len(cur["pid"])
        status = apply_real(st, op)
        ref.apply(op)
        cur = observe(st, how)
        ints += enc_obs(cur)
        if op[0] == "compactify" and len(cur["pid"]) < before:
            removed = True
        if op[0] == "append" and removed:
            nontriv = True
        if oracle is None:
            msg = ref.check(cur)
            if msg:
                oracle = f"after op {i} {op}: {msg}"
            if op[0] == "append_invalid" and status != "ValueError":
                oracle = f"after op {i}: invalid argument name accepted"
    if other is not None and oracle is None:
        other.append(X=3.0, Y=1.0, Z=1.0, weight=1.0)
        if [int(q) for q in other.variables["pid"]] != [0, 1, 2] or int(other.npid) != 3:
            oracle = f"a second State in the same process: pids {[int(q) for q in other.variables['pid']]}, npid {int(other.npid)} after releasing 2 + 1 particles"
    return {"ints": ints, "oracle": oracle, "nontrivial": (str(desc["ops"]) if nontriv else None),
            "kind": "ops-len-%d" % min(len(desc["ops"]) // 5 * 5, 50), "observed": cur}


def eval_bulk(desc):
    """oracle only (too large for a Coq literal): a state of realistic size — hundreds of thousands of particles, of
    which a handful die between two removals; releases in between; the invariants and the exact-removal clause on the
    whole arrays"""
    n, dead, more = desc["n"], desc["dead"], desc["more"]
    st = make_state()
    st.append(X=np.arange(n, dtype=float), Y=1.0, Z=1.0, weight=np.arange(n, dtype=float) + 0.5)
    alive = np.ones(n, dtype=bool)
    alive[np.array(dead, dtype=int)] = False
    st["alive"] = alive
    st.compactify()
    problems = []
    want = np.flatnonzero(alive)
    pid = np.asarray(st.pid)
    if len(st) != len(want) or not np.array_equal(pid, want):
        extra = sorted(set(pid.tolist()) - set(want.tolist()))[:5]
        problems.append(f"after removal of {len(dead)} dead among {n}: {len(st)} particles instead of {len(want)}; dead pids still present: {extra}")
    elif not np.array_equal(np.asarray(st.X), want.astype(float)):
        problems.append("after removal the X values are not those of the survivors")
    if more:
        st.append(X=np.full(more, -1.0), Y=1.0, Z=1.0, weight=7.0)
        pid = np.asarray(st.pid)
        if int(st.npid) != n + more or not np.array_equal(pid[-more:], np.arange(n, n + more)):
            problems.append(f"release of {more} after the removal: pids {pid[-more:].tolist()[:5]}..., npid {int(st.npid)} (expected {n}.., {n + more})")
        if len(np.asarray(st["weight"])) != n + more:
            problems.append(f"particle variable has {len(np.asarray(st['weight']))} entries for {n + more} particles released")
    if pid.size > 1 and not (np.diff(pid) > 0).all():
        problems.append("pids not strictly increasing")
    return {"ints": None, "oracle": "; ".join(problems[:2]) or None, "nontrivial": ("bulk", n, len(dead)), "kind": "bulk",
            "observed": {"n": n, "dead": len(dead), "left": int(len(st))}}


# ---- generators ----------------------------------------------------------------------------------
def rand_ops(rng, length):
    ops, n, alive = [], 0, []
    npid = 0
    for _ in range(length):
        r = rng.random()
        if n == 0 or r < 0.3:
            args = {}
            k = rng.choice([1, 1, 2, 3, 4])
            style = rng.choice(["scalar", "array", "mixed", "mixed", "broadcast1"])
            for c in ("X", "Y", "Z"):
                if style == "scalar":
                    args[c] = rng.randint(1, 50)
                elif style == "broadcast1" and c == "Y":
                    args[c] = [rng.randint(1, 50)]
                else:
                    args[c] = [rng.randint(1, 50) for _ in range(k)] if (style != "mixed" or rng.random() < 0.6) else rng.randint(1, 50)
            for c, p in (("age", 0.4), ("stage", 0.3), ("temp", 0.5), ("weight", 0.7), ("origin", 0.3), ("active", 0.2), ("alive", 0.1)):
                if rng.random() < p:
                    hi = 1 if c in ("active", "alive") else 90
                    args[c] = [rng.randint(0, hi) for _ in range(k)] if (style in ("array", "mixed") and rng.random() < 0.5) else rng.randint(0, hi)
            if rng.random() < 0.07:  # shape mismatch
                args["X"] = [1, 2, 3]
                args["Y"] = [1, 2]
            ops.append(["append", args])
            lens = {len(v) for v in args.values() if isinstance(v, list)} - {1}
            if len(lens) <= 1:
                m = lens.pop() if lens else 1
                for j in range(m):
                    a = args.get("alive", 1)
                    alive.append(bool((a[j] if len(a) > 1 else a[0]) if isinstance(a, list) else a))
                n += m
                npid += m
        elif r < 0.34:
            ops.append(["append_invalid", rng.choice(["pid", "foo", "x"])])
        elif r < 0.52:
            mask = [rng.random() < 0.35 for _ in range(n)]
            ops.append([rng.choice(["kill", "kill_assign"]), mask])
            alive = [a and not m for a, m in zip(alive, mask)]
        elif r < 0.72:
            ops.append(["compactify"])
            alive = [a for a in alive if a]
            n = len(alive)
        elif r < 0.82:
            ops.append(["set", rng.choice(["X", "Y", "Z", "age", "stage", "temp"]), [rng.randint(0, 99) for _ in range(n)]])
        elif r < 0.88:
            dst, src = rng.choice([("X", "Y"), ("age", "temp"), ("temp", "Z"), ("Y", "X"), ("temp", "age")])
            ops.append(["copy", dst, src])
        elif r < 0.94:
            ops.append(["poke", rng.choice(["X", "Y", "Z", "age", "temp", "stage"]), [rng.random() < 0.5 for _ in range(n)], rng.randint(0, 99)])
        elif npid > 0:  # a particle variable is assigned as a whole: one value per particle released so far
            ops.append(["setp", rng.choice(["weight", "origin"]), [rng.randint(0, 99) for _ in range(npid)]])
    return ops


ALPHABET = [
    ["append", {"X": 1, "Y": 2, "Z": 3}],
    ["append", {"X": [4, 5], "Y": 6, "Z": [7, 8], "weight": [9, 10]}],
    ["append", {"X": [1, 2, 3], "Y": [1, 2], "Z": 1}],
    ["append_invalid", "pid"],
    ["killfirst"], ["killlast"], ["compactify"], ["copyXY"], ["pokeX"],
]


def expand(seq):
    """turn the small-alphabet letters into concrete ops (masks depend on the current length)"""
    ops, alive = [], []
    for o in seq:
        k = o[0]
        if k == "append":
            lens = {len(v) for v in o[1].values() if isinstance(v, list)} - {1}
            ops.append(o)
            if len(lens) <= 1:
                alive += [True] * (lens.pop() if lens else 1)
        elif k == "append_invalid":
            ops.append(o)
        elif k in ("killfirst", "killlast"):
            n = len(alive)
            mask = [False] * n
            if n:
                mask[0 if k == "killfirst" else n - 1] = True
                alive[0 if k == "killfirst" else n - 1] = False
            ops.append(["kill", mask])
        elif k == "compactify":
            ops.append(o)
            alive = [a for a in alive if a]
        elif k == "copyXY":
            ops.append(["copy", "X", "Y"])
        elif k == "pokeX":
            ops.append(["poke", "X", [j % 2 == 0 for j in range(len(alive))], 77])
    return ops


def gen_cases(ctx):
    rng = ctx.rng
    out = []
    if ctx.quick:
        nrand, lens, exh = 150, [3, 8, 15, 30], 3
    else:
        nrand, lens, exh = 1500, [3, 8, 15, 30, 80, 200], 4
    for L in range(1, exh + 1):
        for seq in itertools.product(ALPHABET, repeat=L):
            out.append({"k": "ops", "gen": f"exhaustive-{L}", "ops": expand(seq), "obs": ["dict", "attr", "item"][len(out) % 3]})
    for i in range(nrand):
        out.append({"k": "ops", "gen": "random", "ops": rand_ops(rng, rng.choice(lens)), "obs": ["dict", "attr", "item"][i % 3]})
    # fixed: whole-array assignment of particle variables while the number of living particles differs from the number
    # released (one released and gone; three released, two left), followed by further releases
    for i, ops in enumerate([
        [["append", {"X": 1, "Y": 2, "Z": 3, "weight": 5}], ["kill", [True]], ["compactify"], ["setp", "weight", [42]],
         ["append", {"X": [4, 5], "Y": 6, "Z": 7, "weight": [8, 9]}], ["setp", "origin", [1, 2, 3]]],
        [["append", {"X": [1, 2, 3], "Y": 2, "Z": 3, "weight": [5, 6, 7]}], ["kill", [True, False, True]], ["compactify"],
         ["setp", "weight", [11, 12, 13]], ["set", "X", [9]], ["append", {"X": 4, "Y": 6, "Z": 7}], ["setp", "origin", [1, 2, 3, 4]]],
        [["append", {"X": 1, "Y": 2, "Z": 3}], ["setp", "weight", [42]], ["set", "age", [3]], ["kill", [True]], ["setp", "origin", [7]],
         ["compactify"], ["setp", "origin", [8]], ["append", {"X": 1, "Y": 2, "Z": 3, "origin": 4}]],
    ]):
        out.append({"k": "ops", "gen": "fixed-setp", "ops": ops, "obs": ["dict", "attr", "item"][i % 3]})
    out.append({"k": "warmpid", "adv": "EF"})
    # states of realistic size (oracle only)
    for n, dead, more in [(150000, [17], 3), (300000, [17, 123456], 0), (120000, [0, 119999], 2), (100001, [50000], 1)]:
        out.append({"k": "bulk", "n": n, "dead": dead, "more": more})
    import c06

    # (the generated histories of C06; its fixed scale / option families come with their own layout and split)
    for d in [d for d in c06.gen_cases(ctx) if d.get("k") not in ("scale", "opts")][: (25 if ctx.quick else 200)]:
        d["layout"] = "sparse"
        d["numrec"] = rng.choice([1, 2, 2, 3])
        out.append({"k": "records", "c06": d})
    return out
