"""C20 at scale: set-ups with long forcing series, long files, long windows and long release tables.

The descriptions have exactly the format of the small cases of c20.py (so the fault list of the property text,
`c20.faults_of`, and the oracle `c20.oracle` decide them unchanged, for every file / frame / row of the large
set-up); they carry in addition
    "scale":  True
    "fnames": the names of the forcing files, one per entry of "files", in the order of the names (the package
              takes the files matching the pattern in the order of their names; "files" lists them in that order)
The forcing files of these cases are not written one by one with netCDF4 (10 ms each): a template with the same
variables is written once by romsfiles.write_roms, every other file is a byte copy of it with the values of
ocean_time replaced (the position of the values is found by sentinel values, the result is read back with netCDF4;
when that is not possible the file is written by write_roms), and the files of a case are hard links into a pool.

Nothing here draws from the random generator of the check: the family is the same in every run.
"""
from __future__ import annotations

import os
import shutil
import struct
from pathlib import Path

import romsfiles as rf

# ------------------------------------------------------------------------------------------------
# forcing files: pool of byte-patched copies
# ------------------------------------------------------------------------------------------------
_TEMPLATES = {}  # (pool, imax, jmax, nframes, shift) -> (bytes, [offsets]) or None (no patching possible)
_POOL = {}  # (pool, imax, jmax, times, shift) -> path
PATCH_MAX_FRAMES = 8
SHIFTS = [0, -86400, 43200]


def _sentinels(n):
    return [float(1234567891 + 7919 * j) for j in range(n)]


def _to_classic(src: Path, dst: Path):
    """the same dimensions, variables, attributes and values in a netCDF-3 file"""
    from netCDF4 import Dataset

    with Dataset(src) as a, Dataset(dst, "w", format="NETCDF3_64BIT_OFFSET") as b:
        for name, dim in a.dimensions.items():
            b.createDimension(name, None if dim.isunlimited() else len(dim))
        for name, v in a.variables.items():
            w = b.createVariable(name, v.dtype, v.dimensions)
            w.setncatts({k: v.getncattr(k) for k in v.ncattrs()})
            w[...] = v[...]


def _template(pool: Path, imax, jmax, n, shift):
    key = (str(pool), imax, jmax, n, shift)
    if key in _TEMPLATES:
        return _TEMPLATES[key]
    res = None
    if 0 < n <= PATCH_MAX_FRAMES:
        p = pool / f"template_{imax}x{jmax}_{n}_{shift}.nc"
        sent = _sentinels(n)
        rf.write_roms(p, imax=imax, jmax=jmax, N=2, times=[int(s) + shift for s in sent], u=0.0, v=0.0,
                      time_ref_shift=shift)
        # the copies are netCDF-3 files (64-bit offset, what ROMS writes by default): opened five times faster
        # than netCDF-4 files, which is what a start-up over a thousand files costs
        p3 = pool / f"template3_{imax}x{jmax}_{n}_{shift}.nc"
        _to_classic(p, p3)
        raw = p3.read_bytes()
        offs = []
        for s in sent:
            b = struct.pack(">d", s)
            if raw.count(b) != 1:
                offs = None
                break
            offs.append(raw.find(b))
        if offs is not None:
            # read one patched copy back before trusting the method
            from netCDF4 import Dataset

            probe = pool / f"probe_{imax}x{jmax}_{n}_{shift}.nc"
            want = [3600.0 * (j + 1) for j in range(n)]
            buf = bytearray(raw)
            for o, t in zip(offs, want):
                buf[o:o + 8] = struct.pack(">d", t)
            probe.write_bytes(bytes(buf))
            try:
                with Dataset(probe) as nc:
                    got = [float(x) for x in nc.variables["ocean_time"][:]]
                    ok = got == want and nc.variables["u"].shape[0] == n
            except OSError:
                ok = False
            probe.unlink()
            if ok:
                res = (raw, offs)
    _TEMPLATES[key] = res
    return res


def pool_file(pool: Path, imax, jmax, times, shift=0) -> Path:
    """a ROMS file with the given frame times (seconds after EPOCH), its own time reference EPOCH + shift"""
    key = (str(pool), imax, jmax, tuple(times), shift)
    p = _POOL.get(key)
    if p is not None and p.exists():
        return p
    pool.mkdir(parents=True, exist_ok=True)
    p = pool / f"f{len(_POOL):06d}.nc"
    tpl = _template(pool, imax, jmax, len(times), shift)
    if tpl is None:
        rf.write_roms(p, imax=imax, jmax=jmax, N=2, times=list(times), u=0.0, v=0.0, time_ref_shift=shift)
    else:
        raw, offs = tpl
        buf = bytearray(raw)
        for o, t in zip(offs, times):
            buf[o:o + 8] = struct.pack(">d", float(t) - float(shift))
        p.write_bytes(bytes(buf))
    _POOL[key] = p
    return p


def link_forcing(desc, fdir: Path):
    """the forcing files of a scale description, under their names, in the (emptied) directory fdir"""
    pool = fdir.parent / "pool"
    names = list(desc["fnames"])[:len(desc["files"])]
    assert names == sorted(names) and len(set(names)) == len(names) == len(desc["files"]), "fnames must be in name order"
    for k, (name, times) in enumerate(zip(names, desc["files"])):
        src = pool_file(pool, desc["imax"], desc["jmax"], times, SHIFTS[k % len(SHIFTS)])
        dst = fdir / name
        try:
            os.link(src, dst)
        except OSError:
            shutil.copyfile(src, dst)


# ------------------------------------------------------------------------------------------------
# the family
# ------------------------------------------------------------------------------------------------
T0 = 86400  # first frame of every series
IMAX, JMAX = 8, 7


def series(n, fpf, sp):
    """n files of fpf frames each, spacing sp, in time order"""
    return [[T0 + (k * fpf + j) * sp for j in range(fpf)] for k in range(n)]


def padded_names(n, first=0):
    w = len(str(n - 1 + first))
    return [f"ocean_{k + first:0{w}d}.nc" for k in range(n)]


def base(files, fnames, lo, nsteps, dt, *, rev=False, cont=None, rel_times=None, gridfile=True, subgrid=None,
         pos="xy", out_every=3, label=()):
    hi = lo + nsteps * dt
    start, stop = (hi, lo) if rev else (lo, hi)
    sg = -1 if rev else 1
    if rel_times is None:
        rel_times = [start] if cont else [start, start + sg * 2 * dt]
    return {
        "scale": True, "fnames": list(fnames),
        "rev0": rev, "multi0": len(files) > 1, "cont0": cont is not None, "label": ["scale", *label],
        "cf": "ok", "sec": {n: "present" for n in ("time", "forcing", "release", "tracker", "output")},
        "grid_has_module": True, "grid_has_filename": gridfile, "forcing_has_module": True,
        "forcing_has_filename": True,
        "start": start, "stop": stop, "dt": dt, "ref": None, "rev": rev,
        "grid_file": True, "imax": IMAX, "jmax": JMAX, "subgrid": subgrid,
        "files": [list(f) for f in files], "forcing_matches": True, "forcing_single_name": False,
        "rel_has_key": True, "rel_name_empty": False, "rel_file": True, "rel_pos": pos,
        "rel_times": list(rel_times), "rel_cont": cont,
        "out_filename": True, "out_period": out_every * dt, "out_ivars": True,
    }


def many_files(n, w, *, fpf=2, sp=3600, dt=600, nsteps=15, names="padded", rev=False, cont=None, gridfile=True,
               fault=None, p=None, label=()):
    """a series of n files; the window begins one step after the first frame of the w-th file (in time) and ends
    in the file after it.  names: 'padded' (ocean_00 .. in time order), 'unpadded' (ocean_1 .. ocean_n: the order
    of the names is not the order in time from the 10th file on), 'short' (numbers padded to one digit less than
    the largest needs).  fault at file p: 'swap' (last frame of file p and first frame of file p+1 exchanged),
    'dup' (file p+1 begins with the last frame of file p once more), 'fileswap' (files p and p+1 hold each other's
    frames), 'stale' (file p+1 holds the frames of file p: a copy under the next name), 'back' (file p+1 holds
    the frames of the file 5 places earlier)"""
    files = series(n, fpf, sp)
    lo = files[w][0] + dt
    if names == "padded":
        fnames = padded_names(n)
    else:
        width = 1 if names == "unpadded" else len(str(n)) - 1
        pairs = sorted((f"ocean_{k + 1:0{width}d}.nc", files[k]) for k in range(n))
        fnames = [a for a, _ in pairs]
        files = [list(b) for _, b in pairs]
    if fault == "swap":
        files[p][-1], files[p + 1][0] = files[p + 1][0], files[p][-1]
    elif fault == "dup":
        files[p + 1].insert(0, files[p][-1])
    elif fault == "fileswap":
        files[p], files[p + 1] = files[p + 1], files[p]
    elif fault == "stale":
        files[p + 1] = list(files[p])
    elif fault == "back":
        files[p + 1] = list(files[p - 4])
    elif fault is not None:
        raise ValueError(fault)
    lab = [f"{n} forcing files ({names} names)", f"window in file {w}" + (" reversed" if rev else "")]
    if fault:
        lab.append(f"{fault} at file {p}")
    return base(files, fnames, lo, nsteps, dt, rev=rev, cont=cont, gridfile=gridfile, label=[*lab, *label])


def long_files(nfiles, fpf, wframe, *, sp=3600, dt=600, nsteps=15, rev=False, fault=None, q=None, label=()):
    """few files with very many frames each; the window begins one step after frame number wframe of the whole
    series; fault at frame q of the series: 'swap' (frames q and q+1 exchanged), 'dup' (frame q+1 repeats frame q)"""
    files = series(nfiles, fpf, sp)
    lo = T0 + wframe * sp + dt
    flat = [t for f in files for t in f]
    if fault == "swap":
        flat[q], flat[q + 1] = flat[q + 1], flat[q]
    elif fault == "dup":
        flat[q + 1] = flat[q]
    files = [flat[k * fpf:(k + 1) * fpf] for k in range(nfiles)]
    lab = [f"{nfiles} forcing file(s) of {fpf} frames", f"window at frame {wframe}" + (" reversed" if rev else "")]
    if fault:
        lab.append(f"{fault} at frame {q}")
    return base(files, padded_names(nfiles), lo, nsteps, dt, rev=rev, label=[*lab, *label])


def long_window(nsteps, dt, sp, *, rev=False, short=None, label=()):
    """a window of very many steps, frames sp apart (many steps between two frames).  short: 'end' the last frame
    lies one step before the maximum time, 'begin' the first frame one step after the minimum time, 'tight' first and
    last frame exactly at the ends of the window (valid)"""
    lo = T0 + sp + dt
    hi = lo + nsteps * dt
    nfr = (hi - T0) // sp + 2
    frames = [T0 + j * sp for j in range(nfr)]
    if short == "end":
        frames = [t for t in frames if t < hi - dt] + [hi - dt]
    elif short == "begin":
        frames = [lo + dt] + [t for t in frames if t > lo + dt]
    elif short == "tight":
        frames = [lo] + [t for t in frames if lo < t < hi] + [hi]
    half = len(frames) // 2
    files = [frames[:half], frames[half:]]
    lab = [f"window of {nsteps} steps, {sp // dt} steps between frames" + (" reversed" if rev else "")]
    if short:
        lab.append({"end": "last frame one step before the maximum time", "begin": "first frame one step after the minimum time",
                    "tight": "first and last frame at the ends of the window"}[short])
    return base(files, padded_names(2), lo, nsteps, dt, rev=rev, out_every=max(3, nsteps // 4), label=[*lab, *label])


def long_release(nrows, kind, *, rev=False, label=()):
    """a release table of very many rows, one every second.  kind: 'last-inside' only the last row lies inside
    the window (valid), 'all-before' every row before the start, 'all-after' every row at or after the stop,
    'last-no-position' all rows inside the window, the last one without its Y value"""
    d = many_files(13, 6, rev=rev, nsteps=18)
    sg = -1 if rev else 1
    start, stop, dt = d["start"], d["stop"], d["dt"]
    if kind == "last-inside":
        rel = [start - sg * (nrows - 1 - j) for j in range(nrows - 1)] + [start + sg * 2 * dt]
    elif kind == "all-before":
        rel = [start - sg * (nrows - j) for j in range(nrows)]
    elif kind == "all-after":
        rel = [stop + sg * j for j in range(nrows)]
    elif kind == "last-no-position":
        rel = [start + sg * 2 * dt] * nrows
        d["rel_pos"] = "rowgap"
    else:
        raise ValueError(kind)
    d["rel_times"] = rel
    d["label"] = ["scale", f"release table of {nrows} rows: {kind}" + (" reversed" if rev else ""), *label]
    return d


def gen_scale_cases():
    cases = []
    add = cases.append
    # -- number of forcing files: well-formed long series run, whatever the place of the window ----------------
    add(many_files(13, 1))
    add(many_files(17, 14, rev=True, gridfile=False))
    add(many_files(40, 20, cont=1200, fpf=3))
    add(many_files(129, 0, rev=True))
    add(many_files(257, 250, fpf=1, nsteps=9))
    add(many_files(1024, 700, fpf=1, nsteps=9, rev=True))
    # -- the order of the names is not the order in time (file number width) -------------------------------
    add(many_files(13, 1, names="unpadded"))
    add(many_files(24, 1, names="unpadded", fpf=4, rev=True))
    add(many_files(40, 21, names="unpadded", gridfile=False))
    add(many_files(101, 55, names="short", fpf=1, nsteps=9))
    add(many_files(1001, 2, names="short", fpf=1, nsteps=9, rev=True))
    # -- one fault in the frames, anywhere in a long series, the window anywhere else -------------------------
    add(many_files(13, 1, fault="dup", p=10))
    add(many_files(16, 12, fault="swap", p=0))
    add(many_files(17, 2, fault="fileswap", p=8, rev=True))
    add(many_files(25, 3, fault="dup", p=23, fpf=4))
    add(many_files(33, 30, fault="swap", p=15, rev=True))
    add(many_files(48, 20, fault="dup", p=22))  # the window ends in file 21
    add(many_files(50, 20, fault="swap", p=18, rev=True))  # the window begins in file 20
    add(many_files(64, 60, fault="dup", p=1, cont=600))
    add(many_files(65, 10, fault="stale", p=40, fpf=1, nsteps=9))
    add(many_files(100, 50, fault="back", p=52))
    add(many_files(129, 5, fault="swap", p=127, rev=True))
    add(many_files(1025, 1000, fault="dup", p=512, fpf=1, nsteps=9))
    # -- few files, very many frames -------------------------------------------------------------------
    add(long_files(1, 1500, 1200))
    add(long_files(1, 1500, 1200, fault="swap", q=40))
    add(long_files(1, 1500, 30, fault="dup", q=1490, rev=True))
    add(long_files(12, 125, 300, fault="swap", q=1124))
    # -- very many steps, very many steps between two frames -------------------------------------------------
    add(long_window(3000, 60, 86400, short="tight"))
    add(long_window(3000, 60, 86400, short="end"))
    add(long_window(5000, 30, 43200, rev=True))
    add(long_window(5000, 30, 43200, short="begin", rev=True))
    add(long_window(4097, 60, 86400, short="end", rev=True))
    # -- very many release rows ----------------------------------------------------------------------
    add(long_release(5000, "last-inside"))
    add(long_release(5000, "all-before", rev=True))
    add(long_release(4096, "all-after"))
    add(long_release(10000, "last-no-position"))
    return cases
