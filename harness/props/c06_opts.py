"""C06 under OPTION COMBINATIONS: a fixed, pairwise-covering family of small cases, decided by an exact oracle in Python
(oracle-only, ints=None).

The clause decided, for EVERY record of EVERY file of each run: the record holds exactly the particles alive at its
time with the values the model state had at that time (lon/lat: the grid's longitude/latitude at the position the state
had), retrievable through the cumulative particle_count; the counts sum to the instance dimension; the time coordinate
is the record's model time relative to the reference time; per-particle variables are stored at index pid for every
particle released so far; the dense layout holds the same values at [time, pid] and fill values elsewhere; split output
(numrec) puts records k*numrec .. (k+1)*numrec-1 into the k-th file of the documented name sequence.

Options on the path of this property (each occurs with each other one in at least one case, see uncovered_pairs()):
  Output:      layout sparse/dense; numrec 0/1/2/3; numbered first file name; output period 1/2/3 steps given as int,
               ISO 8601 string or [value, unit]; lon/lat among the instance variables (real ROMS Grid, whole grid or a
               subgrid with offsets); encodings f8, packed (integer + scale_factor/add_offset), f4 / plain integers /
               bool; particle variables none / float + time-typed / integer-typed; caller compactifies or not; an
               empty record; reference time default / explicit; time reversal
  whole runs:  configuration v2 YAML / v2 TOML / v1 YAML; advection EF/RK2/RK4; diffusion off/on; release discrete /
               with mult / continuous; warm start; forcing in one file / several files / float32 / packed int16

Two ways of driving the REAL code:
  mode "direct": State + TimeKeeper + Output (+ ladim.ROMS.Grid for lon/lat) driven by hand, truth table kept here;
  mode "main":   ladim.main.main on synthetic ROMS files.  The truth is the model state itself at the moment of each
                 record, taken by a recording forcing plug-in (class Forcing below, a subclass of ladim.ROMS.Forcing
                 loaded through the documented `forcing: module:` mechanism): Model.update calls release, forcing,
                 output in this order, so the state seen at the end of Forcing.update is the state of the record.
                 Nothing is assumed about advection, diffusion or the release logic.
"""
from __future__ import annotations

from pathlib import Path

import numpy as np
from netCDF4 import Dataset

import romsfiles as rf

THIS = str(Path(__file__).resolve())
PLUG = str(Path(rf.__file__).resolve().parents[1] / "plugins" / "kill_ibm.py")
SNAPS: list = []  # filled by the recording plug-in (the copy of this file that ladim loads appends to the harness' copy)
NEVER = 10**9
LLTOL = 1e-9  # lon/lat: bilinear interpolation of a field that is linear in x and y, rounding only


# ------------------------------------------------------------------------------------- recording plug-in
def __getattr__(name):
    """ladim loads this file as grid/forcing module: Grid is the real one, Forcing the real one plus a recorder"""
    if name == "Grid":
        from ladim.ROMS import Grid

        return Grid
    if name == "Forcing":
        from ladim.ROMS import Forcing as Base

        class Forcing(Base):
            def update(self):
                super().update()
                _record(self.modules)

        return Forcing
    raise AttributeError(name)


def _record(modules):
    import c06_opts as host  # the harness' copy of this module

    state, timer = modules["state"], modules["time"]
    alive = np.asarray(state.alive, dtype=bool).copy()
    host.SNAPS.append({"step": int(timer.step), "npid": int(state.npid),
                       "ivars": {v: np.array(state[v])[alive] for v in state.instance_variables},
                       "pvars": {v: np.array(state[v]) for v in state.particle_variables}})


# ------------------------------------------------------------------------------------- geometry
IMAX, JMAX, NLEV = 24, 12, 3
SUB = [3, 21, 2, 11]  # subgrid with offsets i0 = 3, j0 = 2


def lon_of(X, Y):
    return X / 64.0 + Y / 256.0


def lat_of(X, Y):
    return 60.0 + Y / 32.0 - X / 512.0


def grid_fields():
    jj, ii = np.meshgrid(np.arange(JMAX), np.arange(IMAX), indexing="ij")
    return lon_of(ii.astype(float), jj.astype(float)), lat_of(ii.astype(float), jj.astype(float))


# ------------------------------------------------------------------------------------- case tables
# direct mode.  columns: layout numrec ll enc p pform rev ref pv compact first empty
D_COLS = ("layout", "numrec", "ll", "enc", "p", "pform", "rev", "ref", "pv", "compact", "first", "empty")
D_ROWS = [
    ('dense', 2, 'none', 'f8', 2, 'int', True, None, 'ft', False, None, False),
    ('dense', 1, 'sub', 'f4', 1, 'list', False, 0, 'int', True, 7, True),
    ('dense', 0, 'full', 'packed', 3, 'iso', False, 98765, 'none', False, None, True),
    ('dense', 3, 'full', 'f4', 2, 'iso', True, 0, 'none', True, 7, False),
    ('sparse', 2, 'sub', 'packed', 3, 'list', True, 98765, 'ft', True, 7, False),
    ('sparse', 3, 'none', 'f8', 1, 'int', False, 0, 'int', False, None, True),
    ('sparse', 0, 'sub', 'f8', 2, 'list', True, None, 'none', True, None, True),
    ('sparse', 1, 'full', 'packed', 1, 'iso', True, None, 'int', False, 7, False),
    ('sparse', 1, 'none', 'f4', 3, 'int', False, 98765, 'none', True, 7, False),
    ('sparse', 2, 'full', 'f4', 1, 'list', False, None, 'ft', False, 7, True),
    ('sparse', 0, 'none', 'packed', 2, 'int', False, 98765, 'int', True, None, False),
    ('sparse', 3, 'sub', 'f8', 3, 'iso', True, 98765, 'ft', False, 7, True),
    ('sparse', 0, 'none', 'f4', 1, 'iso', True, 0, 'ft', False, None, False),
    ('sparse', 2, 'full', 'f8', 3, 'iso', True, 0, 'int', True, None, False),
    ('sparse', 1, 'full', 'packed', 2, 'int', True, 0, 'ft', True, None, True),
    ('sparse', 3, 'none', 'packed', 3, 'list', True, None, 'int', False, 7, False),
    ('sparse', 2, 'sub', 'f8', 1, 'int', False, 98765, 'none', False, None, False),
    ('sparse', 1, 'sub', 'f8', 2, 'int', False, 98765, 'ft', False, None, True),
]
# main mode.  columns: cfg layout numrec ll grid enc adv diff rel warm rev frc p ref pv
M_COLS = ("cfg", "layout", "numrec", "ll", "grid", "enc", "adv", "diff", "rel", "warm", "rev", "frc", "p", "ref", "pv")
M_ROWS = [
    ('yaml', 'dense', 0, 'll', 'sub', 'f8', 'RK4', 0, 'mult', True, True, 'multi', 1, None, 'ft'),
    ('toml', 'dense', 3, 'none', 'full', 'packed', 'EF', 1, 'cont', False, False, 'one', 2, None, 'rt'),
    ('toml', 'dense', 2, 'll', 'sub', 'f4', 'RK2', 0, 'disc', False, False, 'f4', 2, 0, 'none'),
    ('yaml', 'dense', 3, 'none', 'full', 'f4', 'RK4', 1, 'disc', True, True, 'packed', 1, 0, 'none'),
    ('v1', 'sparse', 0, 'none', 'full', 'f8', 'RK2', 1, 'mult', False, False, 'packed', 2, None, 'ft'),
    ('toml', 'sparse', 2, 'none', 'sub', 'packed', 'EF', 0, 'cont', True, True, 'multi', 1, 0, 'rt'),
    ('v1', 'sparse', 0, 'll', 'sub', 'f4', 'RK4', 0, 'cont', False, False, 'one', 1, 0, 'none'),
    ('yaml', 'sparse', 3, 'll', 'full', 'packed', 'RK2', 0, 'mult', True, True, 'f4', 1, None, 'rt'),
    ('yaml', 'sparse', 2, 'll', 'sub', 'f4', 'EF', 1, 'mult', False, True, 'one', 2, None, 'ft'),
    ('toml', 'sparse', 2, 'none', 'full', 'f8', 'RK4', 1, 'disc', True, False, 'multi', 2, None, 'rt'),
    ('yaml', 'sparse', 3, 'none', 'sub', 'f8', 'RK4', 1, 'cont', False, False, 'f4', 2, 0, 'ft'),
    ('v1', 'sparse', 0, 'none', 'sub', 'packed', 'EF', 0, 'disc', False, False, 'packed', 2, 0, 'rt'),
    ('toml', 'sparse', 0, 'll', 'sub', 'f8', 'EF', 0, 'mult', False, False, 'f4', 2, None, 'none'),
    ('toml', 'sparse', 2, 'll', 'full', 'packed', 'RK4', 0, 'cont', True, True, 'packed', 2, 0, 'ft'),
    ('yaml', 'sparse', 3, 'll', 'full', 'packed', 'RK2', 1, 'mult', False, False, 'multi', 1, 0, 'none'),
    ('toml', 'sparse', 3, 'll', 'sub', 'f8', 'RK2', 1, 'disc', True, False, 'one', 2, 0, 'ft'),
    ('v1', 'sparse', 0, 'none', 'full', 'f4', 'EF', 1, 'mult', False, False, 'multi', 2, 0, 'rt'),
    ('v1', 'sparse', 0, 'none', 'full', 'f4', 'RK2', 0, 'cont', False, False, 'f4', 1, 0, 'ft'),
]


def gen_opt_cases():
    out = []
    for i, row in enumerate(D_ROWS):
        d = dict(zip(D_COLS, row))
        d.update(k="opts", mode="direct", name="direct-%02d-" % i + "-".join(str(x) for x in row))
        out.append(d)
    for i, row in enumerate(M_ROWS):
        d = dict(zip(M_COLS, row))
        d.update(k="opts", mode="main", name="main-%02d-" % i + "-".join(str(x) for x in row))
        out.append(d)
    return out


def feasible(mode, a, va, b, vb):
    """pairs of option values that cannot be configured together (v1 configurations know neither layout, numrec,
    time reversal nor warm start; a first file number needs split output)"""
    s = {a: va, b: vb}
    if mode == "main" and s.get("cfg") == "v1":
        if s.get("layout") == "dense" or s.get("numrec", 0) or s.get("rev") or s.get("warm"):
            return False
    if mode == "direct" and s.get("first") is not None and "numrec" in s and s["numrec"] == 0:
        return False
    return True


def uncovered_pairs():
    """audit: pairs of option values (feasible together) that occur in no case; expected to be empty"""
    missing = []
    for mode, cols, rows in (("direct", D_COLS, D_ROWS), ("main", M_COLS, M_ROWS)):
        vals = [sorted({r[c] for r in rows}, key=repr) for c in range(len(cols))]
        for a in range(len(cols)):
            for b in range(a + 1, len(cols)):
                seen = {(r[a], r[b]) for r in rows}
                for va in vals[a]:
                    for vb in vals[b]:
                        if (va, vb) not in seen and feasible(mode, cols[a], va, cols[b], vb):
                            missing.append((mode, cols[a], va, cols[b], vb))
    return missing


# ------------------------------------------------------------------------------------- encodings
def var_conf(dtype, **attrs):
    return {"encoding": {"datatype": dtype}, "attributes": dict(attrs)}


def encodings(enc, names, exact):
    """output configuration and comparison rule of the instance variables `names`.
    exact: the values are dyadic by construction (direct mode), packing and float32 lose nothing that matters"""
    conf, rule = {}, {}
    for v in names:
        if v == "pid":
            conf[v], rule[v] = var_conf("i4", long_name="particle identifier"), ("exact",)
        elif v == "active":
            conf[v], rule[v] = var_conf("i1", long_name="active flag"), ("exact",)
        elif v == "age" and enc != "f8":
            conf[v], rule[v] = var_conf("i4", long_name="age", units="s"), ("exact",)  # whole seconds
        elif enc == "packed" and v in ("X", "lon", "lat"):
            if exact:
                sf, off = {"X": (1.0 / 16, 1.0), "lon": (2.0**-12, 0.0), "lat": (2.0**-13, 60.0)}[v]
            else:
                sf, off = {"X": (0.001, 0.0), "lon": (1e-6, 0.0), "lat": (1e-6, 60.0)}[v]
            conf[v] = var_conf("i4", long_name=v, scale_factor=sf, add_offset=off)
            rule[v] = ("abs", LLTOL if v != "X" else 0.0) if exact else ("abs", 0.51 * sf)
        elif enc == "packed" and v == "Y" and exact:
            conf[v], rule[v] = var_conf("i2", long_name=v, scale_factor=0.125, add_offset=-2.0), ("exact",)
        elif enc == "f4" and v in ("X", "Y", "lon", "lat"):
            conf[v], rule[v] = var_conf("f4", long_name=v), ("f4",)
        else:
            conf[v] = var_conf("f8", long_name=v)
            rule[v] = ("abs", LLTOL) if v in ("lon", "lat") else ("exact",)
    return conf, rule


def differs(got, want, rule):
    """index of the first entry of got that is not the stored form of want, None when all agree"""
    got = np.asarray(got, dtype=float)
    want = np.asarray(want, dtype=float)
    if got.shape != want.shape:
        return 0
    if rule[0] == "exact":
        bad = got != want
    elif rule[0] == "abs":
        bad = ~(np.abs(got - want) <= rule[1])
    else:  # f4: the nearest float32 (half an ulp), plus the tolerance of lon/lat
        bad = ~(np.abs(got - want) <= 6.0e-8 * np.abs(want) + LLTOL)
    idx = np.flatnonzero(bad)
    return int(idx[0]) if len(idx) else None


# ------------------------------------------------------------------------------------- direct mode
DDT = 600


def n_records(desc):
    """a dense file costs the real writer > 10 MB per variable (two unlimited dimensions): dense runs are kept to one
    complete file and a second one (four records when unsplit); sparse runs are cheap and get more"""
    if desc["layout"] == "dense":
        return desc["numrec"] + 2 if desc["numrec"] else 4
    return None


def direct_plan(desc):
    """release step, death step (first record step from which the particle is absent) and kill lists per step"""
    p = desc["p"]
    nrec = n_records(desc) or max(desc["numrec"] + 2, 4)
    nsteps = max(p * (nrec - 1) + 1, 8 if desc["layout"] == "sparse" else 0)
    per_step = [9] + [(3 * s) % 4 for s in range(1, nsteps)]
    pat = [1, 0, 2, 1, 0, 3, 1, 2]
    M = sum(per_step)
    rel = np.repeat(np.arange(nsteps), per_step)
    death = np.full(M, NEVER)
    kills = []
    for s in range(nsteps):
        idx = np.flatnonzero((rel <= s) & (death > s))
        k = min(pat[s % 8], len(idx))
        kl = idx[np.unique((s * 7 + np.arange(k) * 5) % len(idx))] if k else np.zeros(0, dtype=int)
        if desc["empty"] and s == p:
            kl = idx  # nobody is left: the second record is empty, releases follow
        if s == nsteps - 1 and len(idx) > 3:
            kl = np.union1d(kl, idx[-2:])  # the highest pids are dead at the end
        kills.append(kl)
        death[kl] = s
    return nsteps, per_step, rel, death, kills


def period_spelling(seconds, form):
    if form == "iso":
        m, s = divmod(seconds, 60)
        return "PT" + (f"{m}M" if m else "") + (f"{s}S" if s or not m else "")
    if form == "list":
        return [seconds // 60, "m"] if seconds % 60 == 0 else [seconds, "s"]
    return seconds


def file_names(d, base, numrec, nrec):
    """the documented sequence: cake.nc -> cake_000.nc, cake_001.nc, ...; cake_04.nc -> cake_04.nc, cake_05.nc, ..."""
    if not numrec:
        return [d / base]
    stem = Path(base).stem
    head, _, tail = stem.rpartition("_")
    if head and tail.isdigit():
        first, width, root = int(tail), len(tail), head
    else:
        first, width, root = 0, 3, stem
    n = max(1, -(-nrec // numrec))
    return [d / f"{root}_{first + k:0{width}d}.nc" for k in range(n)]


def run_direct(desc, d):
    from ladim.out_netcdf import Output
    from ladim.state import State
    from ladim.timekeeper import TimeKeeper

    nsteps, per_step, rel, death, kills = direct_plan(desc)
    M = len(rel)
    pid = np.arange(M)
    X0 = 4.0 + (pid * 5 % 64) / 8.0
    Y0 = 3.0 + (pid * 7 % 32) / 8.0
    W = (pid * 13 % 97) + 0.125
    C = (pid * 3 % 11).astype(int)
    layout, numrec, p, rev, ref = desc["layout"], desc["numrec"], desc["p"], desc["rev"], desc["ref"]
    sgn = -1 if rev else 1
    tstart = 200000
    tstop = tstart + sgn * nsteps * DDT
    refv = min(tstart, tstop) if ref is None else ref
    tk = TimeKeeper(start=rf.iso(tstart), stop=rf.iso(tstop), dt=DDT, reference=None if ref is None else rf.iso(ref), time_reversal=rev)
    pvtypes = {"none": {}, "ft": {"weight": float, "release_time": "time"}, "int": {"cohort": int, "release_time": "time"}}[desc["pv"]]
    st = State(instance_variables={"age": float}, particle_variables=dict(pvtypes), default_values={"age": 0.0})
    grid = None
    names = ["pid", "X", "Y", "Z", "age"] if layout == "sparse" else ["X", "age"]
    names += ["active"] if desc["enc"] == "f4" else []
    if desc["ll"] != "none":
        from ladim.ROMS import Grid

        lon, lat = grid_fields()
        rf.write_roms(d / "g.nc", imax=IMAX, jmax=JMAX, N=NLEV, times=[], lon=lon, lat=lat, grid_only=True)
        grid = Grid(d / "g.nc", subgrid=SUB if desc["ll"] == "sub" else None)
        names += ["lon", "lat"]
    ivars, rules = encodings(desc["enc"], names, exact=True)
    pvars = {}
    for v in pvtypes:
        if v == "release_time":
            pvars[v] = var_conf("f8", long_name="release time", units="seconds since reference_time")
        else:
            pvars[v] = var_conf("i4" if v == "cohort" else "f8", long_name=v)
    base = "o.nc" if desc["first"] is None else "o_%02d.nc" % desc["first"]
    out = Output({"time": tk, "state": st, "grid": grid}, d / base, period_spelling(p * DDT, desc["pform"]), dict(ivars), dict(pvars),
                 layout=layout, numrec=numrec)
    first = 0
    for s in range(nsteps):
        tk.update()
        if desc["compact"]:
            st.compactify()
        c = per_step[s]
        if c:
            q = slice(first, first + c)
            extra = {}
            if "weight" in pvtypes:
                extra["weight"] = W[q]
            if "cohort" in pvtypes:
                extra["cohort"] = C[q]
            if "release_time" in pvtypes:
                extra["release_time"] = np.full(c, np.datetime64(rf.iso(tstart + sgn * s * DDT)))
            st.append(X=X0[q], Y=Y0[q], Z=5.0, **extra)
            first += c
        if len(kills[s]):
            st["alive"] = st.alive & ~np.isin(st.pid, kills[s])
        out.update()
        st["age"] = st.age + DDT
        st["X"] = st.X + 0.0625
    out.close()
    recs = []
    for s in range(0, nsteps, p):
        q = np.flatnonzero((rel <= s) & (death > s))
        X = X0[q] + (s - rel[q]) / 16.0
        vals = {"X": X, "Y": Y0[q], "Z": np.full(len(q), 5.0), "age": (s - rel[q]) * float(DDT), "active": np.ones(len(q)),
                "lon": lon_of(X, Y0[q]), "lat": lat_of(X, Y0[q])}
        npid = int(np.count_nonzero(rel <= s))
        pv = {"weight": W[:npid], "cohort": C[:npid].astype(float), "release_time": (tstart - refv) + sgn * rel[:npid] * float(DDT)}
        recs.append({"step": s, "t": float(tstart + sgn * s * DDT - refv), "pid": q, "vals": {v: vals[v] for v in names if v != "pid"},
                     "npid": npid, "pvals": {v: pv[v] for v in pvtypes}})
    spec = {"files": file_names(d, base, numrec, len(recs)), "numrec": numrec, "layout": layout, "rules": rules,
            "units": f"seconds since {rf.iso(refv)}", "particles": M, "nsteps": nsteps, "via": "State+Output"}
    return recs, spec


# ------------------------------------------------------------------------------------- main mode
MDT, MDX = 512, 1024.0
WARM_AT = 2  # a warm start takes over at this step of the cold run


def toml_text(tree):
    """a nested dictionary of strings, numbers, booleans and flat lists as TOML"""
    lines = []

    def scalar(x):
        if isinstance(x, bool):
            return "true" if x else "false"
        if isinstance(x, (int, float)):
            return repr(x)
        if isinstance(x, (list, tuple)):
            return "[" + ", ".join(scalar(y) for y in x) + "]"
        return '"' + str(x).replace("\\", "\\\\").replace('"', '\\"') + '"'

    def table(t, path):
        for k, v in t.items():
            if not isinstance(v, dict):
                lines.append(f"{bare(k)} = {scalar(v)}")
        for k, v in t.items():
            if isinstance(v, dict):
                lines.append("")
                lines.append("[" + ".".join([*path, bare(k)]) + "]")
                table(v, [*path, bare(k)])

    def bare(k):
        k = str(k)
        return k if k.replace("_", "").replace("-", "").isalnum() else '"' + k + '"'

    table(tree, [])
    return "\n".join(lines) + "\n"


def release_rows(desc, t_of_step):
    """rows of the release file [time, X, Y, Z, (mult), (weight)] and the column names"""
    cont, mult, weight = desc["rel"] == "cont", desc["rel"] == "mult", desc["pv"] == "ft"
    steps = [0, 0, 0, 4, 4] if cont else [0, 0, 0, 1, 3, 3, 4, 6, 6, 6, 9]
    rows = []
    for j, s in enumerate(steps):
        r = [t_of_step(s), 8.0 + (j * 5 % 16) / 8.0, 4.0 + (j * 3 % 8) / 4.0, 10.0]
        if mult:
            r.append(1 + j % 3)
        if weight:
            r.append(j * 0.5 + 0.25)
        rows.append(r)
    names = ["release_time", "X", "Y", "Z"] + (["mult"] if mult else []) + (["weight"] if weight else [])
    return rows, names


def write_forcing(desc, d, times):
    kw = dict(imax=IMAX, jmax=JMAX, N=NLEV, u=0.5, v=0.125, h=120.0, dx=MDX)
    lon, lat = grid_fields()
    kw.update(lon=lon, lat=lat)
    frc = desc["frc"]
    if frc == "f4":
        kw["dtype"] = "f4"
    if frc == "packed":
        kw["packed"] = {"u": 2.0**-10, "v": 2.0**-10}
    if frc == "multi":
        cut = len(times) // 2
        rf.write_roms(d / "f_0.nc", times=times[:cut], **kw)
        rf.write_roms(d / "f_1.nc", times=times[cut:], **kw)
        return d / "f_*.nc", d / "f_0.nc"
    rf.write_roms(d / "f_0.nc", times=times, **kw)
    return d / "f_0.nc", d / "f_0.nc"


def kill_lists(nsteps, shift=0):
    """pids to be killed by the plug-in IBM at each step (pids not alive then are ignored by it)"""
    return {s: [int((4 * (s + shift) + 1) % 11), int(9 + (5 * (s + shift)) % 13)] for s in range(nsteps) if (s + shift) % 4 != 3}


def run_main(desc, d):
    import run_ladim as rl

    layout, numrec, p, rev, warm = desc["layout"], desc["numrec"], desc["p"], desc["rev"], desc["warm"]
    sgn = -1 if rev else 1
    lo = 50000
    nrec = n_records(desc)
    # steps from the (cold) start to the stop: records at steps 0, p, ... (after a warm start at WARM_AT: p, 2p, ...)
    MN = 12 if nrec is None else ((p * nrec + 1 + WARM_AT) if warm else (p * (nrec - 1) + 1))
    start = lo + MN * MDT if rev else lo
    stop = lo if rev else lo + MN * MDT

    def t_of_step(s):
        return start + sgn * s * MDT

    pattern, gridfile = write_forcing(desc, d, [lo + k * MDT for k in range(MN + 1)])
    rows, names = release_rows(desc, t_of_step)
    rf.write_release(d / "r.rls", rows)
    ref = None if desc["ref"] is None else desc["ref"]
    # default reference time: the earlier one of start and stop of the run under test (a warm start begins later)
    refv = min(t_of_step(WARM_AT if warm else 0), stop) if ref is None else ref
    out_names = (["pid", "X", "Y", "Z", "age"] if layout == "sparse" else ["X", "age"]) + (["lon", "lat"] if desc["ll"] == "ll" else [])
    ivars, rules = encodings(desc["enc"], out_names, exact=False)
    ptypes = {"none": {}, "rt": {"release_time": "time"}, "ft": {"release_time": "time", "weight": "float"}}[desc["pv"]]
    pvars = {v: (var_conf("f8", long_name="release time", units="seconds since reference_time") if v == "release_time"
                 else var_conf("f8", long_name=v)) for v in ptypes}
    subgrid = SUB if desc["grid"] == "sub" else None
    cont = desc["rel"] == "cont"

    def v2(out_file, forcing_module, numrec_, layout_, ivars_, period, kills):
        conf = rf.base_config(start=start, stop=stop, dt=MDT, forcing_file=pattern, release_file=d / "r.rls", out_file=out_file,
                              names=names, advection=desc["adv"], output_period=period, numrec=numrec_, layout=layout_,
                              time_reversal=rev, reference=ref, grid_file=gridfile, subgrid=subgrid, instance_variables=())
        conf["forcing"]["module"] = forcing_module
        conf["state"] = {"instance_variables": {"age": "float"}, "default_values": {"age": 0.0}, "particle_variables": dict(ptypes)}
        conf["output"]["instance_variables"] = ivars_
        conf["output"]["particle_variables"] = dict(pvars)
        conf["tracker"]["diffusion"] = float(desc["diff"])
        conf["ibm"] = {"module": PLUG, "age": True, "kill": kills}
        if cont:
            conf["release"]["continuous"] = True
            conf["release"]["release_frequency"] = 2 * MDT
        return conf

    nsteps = MN
    first_step = 0
    base = "o.nc"
    if warm:
        # an ordinary cold run up to the restart file, then the run under test takes over from its last record
        plain, _ = encodings("f8", ["pid", "X", "Y", "Z", "age"], exact=False)
        cold = v2(d / "c.nc", "ladim.ROMS", WARM_AT + 1, "sparse", plain, MDT, kill_lists(WARM_AT + 1))
        cold["time"]["stop"] = rf.iso(t_of_step(WARM_AT + 1))  # records of steps 0 .. WARM_AT, one file c_000.nc
        rl.run_main(cold, d, "cold.yaml")
        nsteps = MN - WARM_AT
        first_step = 1
        base = "o_05.nc" if numrec else "o.nc"
        start_w = t_of_step(WARM_AT)
        t_of = lambda s: start_w + sgn * s * MDT  # noqa: E731
    else:
        t_of = t_of_step
    kills = kill_lists(nsteps, shift=WARM_AT + 1 if warm else 0)
    if desc["cfg"] == "v1":
        conf = {"time_control": {"start_time": rf.iso(start), "stop_time": rf.iso(stop)},
                "files": {"particle_release_file": str(d / "r.rls"), "output_file": str(d / base)},
                "gridforce": {"module": THIS, "input_file": str(pattern), "gridfile": str(gridfile)},
                "particle_release": {"variables": names, "particle_variables": list(ptypes), **{v: t for v, t in ptypes.items()}},
                "ibm": {"ibm_module": PLUG, "variables": ["age"], "age": True, "kill": kills},
                "output_variables": {"outper": p * MDT, "format": "NETCDF4", "instance": list(ivars), "particle": list(pvars)},
                "numerics": {"dt": MDT, "advection": desc["adv"], "diffusion": float(desc["diff"])}}
        if ref is not None:
            conf["time_control"]["reference_time"] = rf.iso(ref)
        if subgrid:
            conf["gridforce"]["subgrid"] = subgrid
        if cont:
            conf["particle_release"].update(release_type="continuous", release_frequency=[2 * MDT, "s"])
        for v, c in {**ivars, **pvars}.items():
            conf["output_variables"][v] = dict(c["attributes"], ncformat=c["encoding"]["datatype"])
    else:
        conf = v2(d / base, THIS, numrec, layout, ivars, p * MDT, kills)
        if warm:
            del conf["time"]["start"]
            conf["warm_start"] = {"filename": str(d / "c_000.nc"), "variables": ["age", *ptypes]}
    SNAPS.clear()
    if desc["cfg"] == "toml":
        from ladim.main import main
        import logging
        import os

        conf["ibm"]["kill"] = {str(k): v for k, v in conf["ibm"]["kill"].items()}
        conf = {k: v for k, v in conf.items() if v != {}}
        (d / "ladim.toml").write_text(toml_text(conf), encoding="utf-8")
        cwd = os.getcwd()
        os.chdir(d)
        try:
            main(str(d / "ladim.toml"), loglevel=logging.CRITICAL + 10)
        finally:
            os.chdir(cwd)
            logging.disable(logging.CRITICAL)
    else:
        rl.run_main(conf, d)
    snaps = {s["step"]: s for s in SNAPS}
    SNAPS.clear()
    recs = []
    reft = np.datetime64(rf.iso(refv))
    for s in range(0, nsteps, p):
        if s < first_step:
            continue
        if s not in snaps:
            raise RuntimeError(f"harness: the recording forcing saw no update at step {s} (steps seen: {sorted(snaps)})")
        sn = snaps[s]
        iv = sn["ivars"]
        order = np.argsort(iv["pid"], kind="stable")
        X, Y = iv["X"][order].astype(float), iv["Y"][order].astype(float)
        vals = {"X": X, "Y": Y, "Z": iv["Z"][order].astype(float), "age": iv["age"][order].astype(float),
                "lon": lon_of(X, Y), "lat": lat_of(X, Y)}
        pv = {}
        for v in ptypes:
            a = sn["pvars"][v][: sn["npid"]]
            pv[v] = ((a.astype("M8[s]") - reft) / np.timedelta64(1, "s")) if v == "release_time" else a.astype(float)
        recs.append({"step": s, "t": float(t_of(s) - refv), "pid": iv["pid"][order].astype(np.int64),
                     "vals": {v: vals[v] for v in out_names if v != "pid"}, "npid": sn["npid"], "pvals": pv})
    spec = {"files": file_names(d, base, numrec, len(recs)), "numrec": numrec, "layout": layout, "rules": rules,
            "units": f"seconds since {rf.iso(refv)}", "particles": max([r["npid"] for r in recs] + [0]), "nsteps": nsteps,
            "via": "ladim.main" + (" (warm start)" if warm else "")}
    return recs, spec


# ------------------------------------------------------------------------------------- oracle
def _some(a, n=5):
    return np.asarray(a)[:n].tolist()


def check_files(d, recs, spec):
    numrec, layout, rules = spec["numrec"], spec["layout"], spec["rules"]
    files = spec["files"]
    groups = [recs[k:k + numrec] for k in range(0, len(recs), numrec)] if numrec else [recs]
    problems = []
    present = sorted(f.name for f in d.glob("o*.nc"))
    if present != sorted(f.name for f in files):
        problems.append(f"output files {present} for {len(recs)} records with numrec={numrec}, expected {[f.name for f in files]}")
    for f, group in zip(files, groups):
        if len(problems) > 3 or not f.exists():
            break
        with Dataset(f) as nc:
            t = np.ma.filled(nc.variables["time"][:].astype(float), np.nan)
            units = nc.variables["time"].units
            if units != spec["units"]:
                problems.append(f"{f.name}: time units {units!r}, expected {spec['units']!r}")
            if len(t) != len(group):
                problems.append(f"{f.name}: {len(t)} records, {len(group)} are due (steps {[r['step'] for r in group]})")
                continue
            want_t = np.array([r["t"] for r in group])
            if not np.array_equal(t, want_t):
                k = int(np.flatnonzero(t != want_t)[0])
                problems.append(f"{f.name}: time[{k}] = {t[k]}, the record's model time relative to the reference time is {want_t[k]}")
            last = group[-1]
            for v, want in last["pvals"].items():
                got = np.ma.filled(nc.variables[v][:].astype(float), np.nan)
                if len(got) != last["npid"] or not np.array_equal(got, want):
                    m = min(len(got), last["npid"])
                    bad = np.flatnonzero(got[:m] != np.asarray(want, dtype=float)[:m])
                    problems.append(f"{f.name}: particle variable {v} has {len(got)} entries for {last['npid']} particles released; first wrong pids {_some(bad)}"
                                    + (f" (pid {int(bad[0])}: {got[bad[0]]}, the state has {want[bad[0]]})" if len(bad) else ""))
                if v == "release_time" and getattr(nc.variables[v], "units", None) != spec["units"]:
                    problems.append(f"{f.name}: units of {v} are {getattr(nc.variables[v], 'units', None)!r}, expected {spec['units']!r}")
            names = list(group[0]["vals"])
            if layout == "sparse":
                cnt = np.ma.filled(nc.variables["particle_count"][:], -1).astype(np.int64)
                ninst = len(nc.dimensions["particle_instance"])
                arrs = {v: nc.variables[v][:] for v in ["pid", *names]}
                if cnt.sum() != ninst or (cnt < 0).any() or any(len(a) != ninst for a in arrs.values()):
                    problems.append(f"{f.name}: particle_count {cnt.tolist()} sums to {int(cnt.sum())}, the particle_instance dimension has length {ninst}")
                    continue
                ends = np.cumsum(cnt)
                for k, r in enumerate(group):
                    sl = slice(int(ends[k] - cnt[k]), int(ends[k]))
                    got = np.ma.filled(arrs["pid"][sl], -1).astype(np.int64)
                    order = np.argsort(got, kind="stable")
                    got = got[order]
                    if not np.array_equal(got, r["pid"]):
                        problems.append(f"{f.name} record {k} (step {r['step']}): pids {_some(got, 8)}..., the particles alive at that time are {_some(r['pid'], 8)}... "
                                        f"({len(got)} written, {len(r['pid'])} alive)")
                        break
                    for v in names:
                        gv = np.ma.filled(arrs[v][sl].astype(float), np.nan)[order]
                        j = differs(gv, r["vals"][v], rules[v])
                        if j is not None:
                            problems.append(f"{f.name} record {k} (step {r['step']}): {v} of pid {int(got[j])} is {gv[j]}, the state had {r['vals'][v][j]}")
                            break
            else:
                for v in names:
                    A = np.ma.masked_invalid(nc.variables[v][:].astype(float))
                    if A.ndim != 2 or A.shape[0] != len(group):
                        problems.append(f"{f.name}: {v} has shape {A.shape} for {len(group)} records")
                        continue
                    mask = np.ma.getmaskarray(A)
                    for k, r in enumerate(group):
                        want = r["pid"]
                        if len(want) and want[-1] >= A.shape[1]:
                            problems.append(f"{f.name} {v}[{k}] has {A.shape[1]} entries, no place for the living particle {int(want[-1])}")
                            break
                        here = np.flatnonzero(~mask[k])
                        if not np.array_equal(here, want):
                            extra, missing = np.setdiff1d(here, want), np.setdiff1d(want, here)
                            problems.append(f"{f.name} {v}[{k}] (step {r['step']}): {len(extra)} values where no particle is alive (pids {_some(extra)}), "
                                            f"{len(missing)} fill values at living particles (pids {_some(missing)})")
                            break
                        gv = np.asarray(A.data[k, want], dtype=float)
                        j = differs(gv, r["vals"][v], rules[v])
                        if j is not None:
                            problems.append(f"{f.name} {v}[{k},{int(want[j])}] = {gv[j]}, the state had {r['vals'][v][j]}")
                            break
    return problems


def eval_opt(desc, d):
    recs, spec = (run_main if desc["mode"] == "main" else run_direct)(desc, d)
    problems = check_files(d, recs, spec)
    nfiles = len(list(d.glob("o*.nc")))
    for f in d.glob("*"):
        f.unlink()
    msg = None
    if problems:
        opts = ", ".join(f"{k}={desc[k]}" for k in (D_COLS if desc["mode"] == "direct" else M_COLS))
        msg = f"option case {desc['name']} ({opts}; {spec['particles']} particles, {spec['nsteps']} steps, {len(recs)} records, through {spec['via']}): " \
              + "; ".join(problems[:2])
    deaths = any(len(np.setdiff1d(a["pid"], b["pid"])) for a, b in zip(recs, recs[1:]))
    return {"ints": None, "oracle": msg, "nontrivial": ("opts", desc["name"]) if deaths else None,
            "kind": "opts-" + desc["mode"] + "-" + desc["layout"] + ("-multi" if desc["numrec"] else ""),
            "observed": {"files": nfiles, "records": len(recs), "particles": int(spec["particles"])}}
