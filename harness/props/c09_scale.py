"""C09 at scale: deterministic cases of realistic size for "particles stay in the water inside the domain; the dead
stay dead" (oracle only: far too large for Coq literals).

Four families, all driven through public entry points of the real package (ROMS.Grid, Tracker, State; ladim.main.main
with ROMS grid + forcing, release file and NetCDF output) and decided on the whole arrays with numpy:

 scalemove  one step of Tracker.update for N particles (N straddling powers of two and round decimal numbers) on a
            real ROMS.Grid with a ragged coast, islands and a one-cell channel; dyadic positions and velocities, so the
            candidate X + U dt/dx is exact and every clause of the property is decided exactly for every particle
            (moved to the candidate / cancelled on land / killed outside / inactive not moved / dead not revived).
 scalehist  histories of many particles (EF/RK2/RK4, diffusion on or off) with removal of the dead and releases in
            between; after every step every living particle finite, inside the valid region, in a sea cell; inactive
            not moved; the dead stay dead (by identifier); for EF without diffusion the candidate is exact
            (dt/dx is a power of two) and the move / cancel / kill clauses are decided exactly as well.
            The "long" members: few particles at a time but thousands of steps and identifiers far beyond the
            number of particles in the state.
 scalemain  ladim.main.main with tens of thousands of particles released in two batches, current towards the coast
            plus diffusion; every record of the output: positions finite, inside, at sea; identifiers unique;
            an identifier that has vanished never comes back.
"""
from __future__ import annotations

import numpy as np

import tracker_impl as ti

DT, DX = 512.0, 1024.0  # dt/dx = 1/2: scaling by a power of two, exact in floating point whatever the association

MOVE_SIZES = [1000, 1024, 1025, 4096, 4097, 5000, 8192, 8193, 10000, 16385, 20000, 32769, 40000, 65537, 70000, 130000]


def gen_scale_cases(ctx):
    """deterministic: nothing is drawn from ctx.rng (the random families that follow are not shifted)"""
    out = []
    for k, n in enumerate(MOVE_SIZES):
        out.append({"k": "scalemove", "n": n, "imax": 64, "jmax": 48, "mseed": 9, "subgrid": None, "seed": 900 + k})
    # a grid with more than 2^16 cells, a subgrid far from the origin
    out.append({"k": "scalemove", "n": 50000, "imax": 300, "jmax": 260, "mseed": 11, "subgrid": [37, 290, 21, 250], "seed": 950})
    H = {"imax": 64, "jmax": 48, "mseed": 9, "subgrid": None}
    out += [
        dict(H, k="scalehist", n=9000, adv="RK2", D=DX * DX / (8 * DT), flow="east", steps=8, every=3, rel=600, seed=1),
        dict(H, k="scalehist", n=20000, adv="EF", D=0.0, flow="swirl", steps=10, every=3, rel=1500, seed=2),
        dict(H, k="scalehist", n=20000, adv="RK4", D=DX * DX / (8 * DT), flow="swirl", steps=8, every=3, rel=1000, seed=3),
        dict(H, k="scalehist", n=70000, adv="EF", D=DX * DX / (8 * DT), flow="east", steps=6, every=2, rel=5000, seed=4),
        # long lives: thousands of steps, continuous release, identifiers far beyond the size of the state
        dict(H, k="scalehist", n=300, adv="EF", D=DX * DX / (32 * DT), flow="swirl", steps=1600, every=1, rel=8, seed=5),
        dict(H, k="scalehist", n=300, adv="EF", D=0.0, flow="swirl", steps=1100, every=1, rel=8, seed=6),
    ]
    out.append({"k": "scalemain", "n": 18000, "n2": 9000, "imax": 64, "jmax": 48, "mseed": 9, "adv": "EF", "steps": 12, "seed": 7})
    return out


# ---- grid ------------------------------------------------------------------------------------------
def scale_mask(jmax, imax, mseed):
    """sea with a ragged mainland to the east, islands of one to three cells, a wall with a one-cell channel and
    land along a part of the southern boundary"""
    rng = np.random.default_rng(mseed)
    M = np.ones((jmax, imax), dtype=int)
    coast = imax - 7 + rng.integers(-2, 3, size=jmax)
    for j in range(jmax):
        M[j, coast[j]:] = 0
    for _ in range(max(12, jmax * imax // 60)):
        j, i = int(rng.integers(1, jmax - 1)), int(rng.integers(1, imax - 8))
        M[j:j + int(rng.integers(1, 4)), i:i + int(rng.integers(1, 4))] = 0
    i = imax // 3
    M[:, i] = 0
    M[jmax // 2, i] = 1
    M[:3, : imax // 2] = 0
    return M


def limits(sub, imax, jmax):
    return tuple(sub) if sub else (1, imax - 1, 1, jmax - 1)


_GRIDS = {}


def grid_of(desc, ctx):
    key = (str(ctx.work), desc["imax"], desc["jmax"], desc["mseed"], str(desc["subgrid"]))
    if key not in _GRIDS:
        M = scale_mask(desc["jmax"], desc["imax"], desc["mseed"])
        d = ctx.subdir("c09scale")
        name = f"g_{desc['imax']}_{desc['jmax']}_{desc['mseed']}_{'s' if desc['subgrid'] else 'w'}.nc"
        g = ti.real_grid(d, name, desc["imax"], desc["jmax"], M, dx=DX, subgrid=tuple(desc["subgrid"]) if desc["subgrid"] else None)
        _GRIDS[key] = (g, M)
    return _GRIDS[key]


def in_valid(X, Y, lim):
    i0, i1, j0, j1 = lim
    with np.errstate(invalid="ignore"):
        return np.isfinite(X) & np.isfinite(Y) & (i0 + 0.5 < X) & (X < i1 - 1.5) & (j0 + 0.5 < Y) & (Y < j1 - 1.5)


def at_sea(M, X, Y, ok):
    """sea cell of the points flagged ok (the others: False); numpy rounds half to even like the grid's own lookup"""
    I = np.where(ok, X, 0.0).round().astype(int)
    J = np.where(ok, Y, 0.0).round().astype(int)
    return ok & (M[J, I] == 1)


def sea_points(rng, M, lim, n):
    """n dyadic positions (multiples of 1/64) in sea cells of the valid region"""
    i0, i1, j0, j1 = lim
    xs, ys = np.empty(0), np.empty(0)
    while len(xs) < n:
        x = rng.integers(int((i0 + 0.5) * 64) + 1, int((i1 - 1.5) * 64), size=2 * n + 64) / 64
        y = rng.integers(int((j0 + 0.5) * 64) + 1, int((j1 - 1.5) * 64), size=2 * n + 64) / 64
        sea = M[y.round().astype(int), x.round().astype(int)] == 1
        xs, ys = np.concatenate((xs, x[sea])), np.concatenate((ys, y[sea]))
    return xs[:n].copy(), ys[:n].copy()


def first(mask, fmt):
    """message for the first flagged particle, with the number of them"""
    k = int(np.flatnonzero(mask)[0])
    return f"{int(mask.sum())} particles, first at index {k}: " + fmt(k)


# ---- one step, N particles, exact ------------------------------------------------------------------
def eval_scalemove(desc, ctx):
    grid, M = grid_of(desc, ctx)
    imax, jmax, n = desc["imax"], desc["jmax"], desc["n"]
    lim = limits(desc["subgrid"], imax, jmax)
    i0, i1, j0, j1 = lim
    rng = np.random.default_rng(desc["seed"])
    X, Y = sea_points(rng, M, lim, n)
    kind = rng.choice(9, size=n, p=[0.30, 0.10, 0.05, 0.10, 0.05, 0.02, 0.02, 0.03, 0.33])
    U = rng.integers(-24, 25, size=n) / 8  # up to a cell and a half per step
    V = rng.integers(-24, 25, size=n) / 8
    big = kind == 1
    U[big], V[big] = (rng.integers(-80, 81, size=n) / 4)[big], (rng.integers(-80, 81, size=n) / 4)[big]
    U[kind == 2], V[kind == 2] = 0.0, 0.0
    half = kind == 3  # candidate exactly on a cell face: the cell it belongs to decides
    xh = rng.integers(i0 + 1, i1 - 1, size=n) + 0.5
    yh = rng.integers(j0 + 1, j1 - 1, size=n) + 0.5
    U[half] = ((xh - X) * DX / DT)[half]
    V[half] = np.where(rng.random(n) < 0.5, (yh - Y) * DX / DT, 0.0)[half]
    edge = kind == 4  # candidate exactly on the border of the valid region
    U[edge] = ((np.where(rng.random(n) < 0.5, i0 + 0.5, i1 - 1.5) - X) * DX / DT)[edge]
    V[edge] = 0.0
    U[kind == 5], V[kind == 5] = np.nan, 0.25
    inf = kind == 6
    U[inf], V[inf] = np.where(rng.random(n) < 0.5, np.inf, -np.inf)[inf], 0.0
    huge = kind == 7
    U[huge] = (np.where(rng.random(n) < 0.5, 1.0, -1.0) * 2.0 ** rng.integers(20, 61, size=n))[huge]
    V[huge] = (rng.integers(-4, 5, size=n) / 4)[huge]
    aim = kind == 8  # aimed at a land cell of the valid region (its centre plus a dyadic offset inside the cell)
    LJ, LI = np.nonzero(M[j0 + 1:j1 - 1, i0 + 1:i1 - 1] == 0)
    pick = rng.integers(0, len(LJ), size=n)
    tx = LI[pick] + i0 + 1 + rng.integers(-24, 25, size=n) / 64
    ty = LJ[pick] + j0 + 1 + rng.integers(-24, 25, size=n) / 64
    U[aim], V[aim] = ((tx - X) * DX / DT)[aim], ((ty - Y) * DX / DT)[aim]
    al0 = rng.random(n) > 0.04
    ac0 = rng.random(n) > 0.15

    forcing = ti.StubForcing(U=U, V=V)
    tr, st, _ = ti.make_tracker(grid, forcing, DT, "EF")
    st.append(X=X.copy(), Y=Y.copy(), Z=5.0, alive=al0.copy(), active=ac0.copy())
    with np.errstate(all="ignore"):
        tr.update()
    forcing.calls.clear()
    what = f"scale case: one step of {n} particles on a {imax}x{jmax} grid" + (f", subgrid {desc['subgrid']}" if desc["subgrid"] else "")
    pid = np.asarray(st.pid)
    if len(pid) != n or not np.array_equal(np.sort(pid), np.arange(n)):
        return {"ints": None, "oracle": f"{what}: the tracker changed the set of particles in the state ({len(pid)} particles after the step)",
                "nontrivial": None, "kind": "scale-move", "observed": {"n": int(len(pid))}}
    o = slice(None) if np.array_equal(pid, np.arange(n)) else np.argsort(pid, kind="stable")  # followed by identifier
    oX, oY = np.asarray(st.X, dtype=float)[o], np.asarray(st.Y, dtype=float)[o]
    oal, oac = np.asarray(st.alive, dtype=bool)[o], np.asarray(st.active, dtype=bool)[o]
    with np.errstate(all="ignore"):
        cx, cy = X + U * DT / DX, Y + V * DT / DX
    cin = in_valid(cx, cy, lim)
    csea = at_sea(M, cx, cy, cin)
    cland = cin & ~csea
    oin = in_valid(oX, oY, lim)
    osea = at_sea(M, oX, oY, oin)
    moved = (oX != X) | (oY != Y)  # a non-finite position counts as moved
    pos = lambda k: f"from ({X[k]}, {Y[k]}) with candidate ({cx[k]}, {cy[k]}) is at ({oX[k]}, {oY[k]}) alive={bool(oal[k])}"  # noqa: E731
    problems = []
    for mask, text in (
        (oal & ~al0, "dead particle became alive"),
        (oal & ~oin, "alive outside the valid region or at a non-finite position"),
        (oal & oin & ~osea, "alive on land"),
        (cland & moved, "move onto land not cancelled"),
        (al0 & ~cin & oal, "move leaves the grid but the particle is still alive"),
        (al0 & cin & ~oal, "killed although the candidate is inside the grid"),
        (~ac0 & moved, "inactive particle moved"),
        (al0 & ac0 & csea & ((oX != cx) | (oY != cy)), "legal move to a sea cell not made"),
    ):
        if mask.any():
            problems.append(f"{text}: " + first(mask, pos))
    hits = int(cland.sum()) + int((~cin).sum())
    return {"ints": None, "oracle": (what + ": " + "; ".join(problems[:3])) if problems else None,
            "nontrivial": ("scalemove", n, imax, jmax) if hits else None, "kind": "scale-move",
            "observed": {"n": n, "candidates_on_land": int(cland.sum()), "candidates_outside": int((~cin).sum()),
                         "alive_after": int(oal.sum())}}


# ---- histories -------------------------------------------------------------------------------------
def flow_of(desc, lim):
    i0, i1, j0, j1 = lim
    cx, cy = (i0 + i1) / 2, (j0 + j1) / 2
    if desc["flow"] == "east":  # three quarters of a cell per step towards the mainland

        def func(X, Y, f):
            return np.full(np.shape(X), 1.5), np.full(np.shape(X), 0.25)
    else:  # divergent flow with rotation: towards the islands, the coast and the open boundary, up to ~2 cells per step

        def func(X, Y, f):
            return 0.125 * ((X - cx) * 0.5 - (Y - cy)) + 0.25 * f, 0.125 * ((Y - cy) * 0.5 + (X - cx)) - 0.25 * f
    return func


def eval_scalehist(desc, ctx):
    grid, M = grid_of(desc, ctx)
    lim = limits(desc["subgrid"], desc["imax"], desc["jmax"])
    rng = np.random.default_rng(desc["seed"])
    n, adv, D = desc["n"], desc["adv"], desc["D"]
    exact = adv == "EF" and D == 0.0
    func = flow_of(desc, lim)
    forcing = ti.StubForcing(func=func)
    tr, st, _ = ti.make_tracker(grid, forcing, DT, adv, diffusion=D)
    tr.rng = np.random.default_rng(desc["seed"] + 1000)
    xs, ys = sea_points(rng, M, lim, n)
    st.append(X=xs, Y=ys, Z=5.0)
    act = np.asarray(st.active, dtype=bool).copy()
    act[::5] = False  # some inactive (settled) particles
    st["active"] = act
    released = n
    deadflag = np.zeros(n + desc["rel"] * (desc["steps"] // desc["every"] + 2), dtype=bool)
    what = f"scale case: history of {desc['steps']} steps from {n} particles, {adv}, diffusion {D}, flow {desc['flow']}"
    problems = []
    nland = nout = 0
    maxlen = 0
    for s in range(desc["steps"]):
        pid0 = np.asarray(st.pid).copy()
        X0, Y0 = np.asarray(st.X, dtype=float).copy(), np.asarray(st.Y, dtype=float).copy()
        al0, ac0 = np.asarray(st.alive, dtype=bool).copy(), np.asarray(st.active, dtype=bool).copy()
        maxlen = max(maxlen, len(pid0))
        with np.errstate(all="ignore"):
            tr.update()
        forcing.calls.clear()
        pid = np.asarray(st.pid)
        if len(pid) != len(pid0) or not np.array_equal(np.sort(pid), np.sort(pid0)):
            problems.append(f"step {s}: the tracker changed the set of particles in the state ({len(pid0)} before, {len(pid)} after)")
            break
        if np.array_equal(pid, pid0):
            o = slice(None)
        else:  # a tracker that keeps the state in another order: particles are followed by identifier
            sorter = np.argsort(pid, kind="stable")
            o = sorter[np.searchsorted(pid[sorter], pid0)]
        X1, Y1 = np.asarray(st.X, dtype=float)[o], np.asarray(st.Y, dtype=float)[o]
        al, ac = np.asarray(st.alive, dtype=bool)[o], np.asarray(st.active, dtype=bool)[o]
        inside = in_valid(X1, Y1, lim)
        sea = at_sea(M, X1, Y1, inside)
        moved = (X1 != X0) | (Y1 != Y0)
        pos = lambda k: f"pid {int(pid0[k])} from ({X0[k]}, {Y0[k]}) is at ({X1[k]}, {Y1[k]}) alive={bool(al[k])}"  # noqa: E731
        checks = [
            (al & (deadflag[pid0] | ~al0), "dead particle alive again"),
            (al & ~inside, "alive outside the valid region or at a non-finite position"),
            (al & inside & ~sea, "alive on land"),
            (~ac0 & moved, "inactive particle moved"),
        ]
        if exact:
            U, V = func(X0, Y0, 0.0)
            cx, cy = X0 + U * DT / DX, Y0 + V * DT / DX
            cin = in_valid(cx, cy, lim)
            csea = at_sea(M, cx, cy, cin)
            nland += int((cin & ~csea & ac0).sum())
            checks += [
                (cin & ~csea & moved, "move onto land not cancelled"),
                (al0 & ~cin & al, "move leaves the grid but the particle is still alive"),
                (al0 & cin & ~al, "killed although the candidate is inside the grid"),
                (al0 & ac0 & csea & ((X1 != cx) | (Y1 != cy)), "legal move to a sea cell not made"),
            ]
        else:
            nland += int((al & ac0 & ~moved).sum())  # cancelled moves (a diffusive step of exactly zero does not occur)
        nout += int((al0 & ~al).sum())
        for mask, text in checks:
            if mask.any():
                problems.append(f"step {s} ({len(pid0)} particles in the state): {text}: " + first(mask, pos))
        if len(problems) >= 3:
            break
        deadflag[pid0[~al]] = True
        if s % desc["every"] == desc["every"] - 1:
            st.compactify()
            k = desc["rel"]
            j = rng.integers(0, n, size=k)
            st.append(X=xs[j], Y=ys[j], Z=5.0)
            released += k
            p = np.asarray(st.pid)
            if len(np.unique(p)) != len(p):
                problems.append(f"step {s}: identifiers in the state not unique after a release")
            elif deadflag[p[np.asarray(st.alive, dtype=bool)]].any():
                problems.append(f"step {s}: after removal and release, identifiers of dead particles are alive in the state")
    if not problems and int(st.npid) != released:
        problems.append(f"{released} particles released, identifier counter says {int(st.npid)}")
    return {"ints": None, "oracle": (what + ": " + "; ".join(problems[:3])) if problems else None,
            "nontrivial": ("scalehist", n, adv, D, desc["flow"], desc["steps"]) if (nland or nout) else None,
            "kind": "scale-history-" + adv,
            "observed": {"released": released, "largest_state": maxlen, "died": nout, "cancelled_or_land_candidates": nland,
                         "alive_at_end": int(np.asarray(st.alive).sum())}}


# ---- whole simulation through ladim.main.main -------------------------------------------------------
def eval_scalemain(desc, ctx):
    import romsfiles as rf
    import run_ladim as rl
    from netCDF4 import Dataset

    imax, jmax, n, n2, steps = desc["imax"], desc["jmax"], desc["n"], desc["n2"], desc["steps"]
    M = scale_mask(jmax, imax, desc["mseed"])
    lim = limits(None, imax, jmax)
    d = ctx.subdir("c09scalemain")
    for f in d.glob("*"):
        f.unlink()
    dt = int(DT)
    rf.write_roms(d / "roms.nc", imax=imax, jmax=jmax, N=2, times=[0, (steps + 2) * dt], u=1.5, v=0.25, mask=M, dx=DX)
    rng = np.random.default_rng(desc["seed"])
    xs, ys = sea_points(rng, M, lim, n + n2)
    t2 = rf.iso(4 * dt)
    with (d / "r.rls").open("w") as f:
        f.write("".join(f"{rf.iso(0)} {x!r} {y!r} 5.0\n" for x, y in zip(xs[:n].tolist(), ys[:n].tolist())))
        f.write("".join(f"{t2} {x!r} {y!r} 5.0\n" for x, y in zip(xs[n:].tolist(), ys[n:].tolist())))
    conf = rf.base_config(start=0, stop=steps * dt, dt=dt, forcing_file=d / "roms.nc", release_file=d / "r.rls",
                          out_file=d / "out.nc", advection=desc["adv"], output_period=dt)
    conf["tracker"]["diffusion"] = DX * DX / (8 * DT)
    what = f"scale case: ladim.main.main, {n}+{n2} particles released at steps 0 and 4, {steps} steps, {desc['adv']} with diffusion, current towards the coast"
    try:
        rl.run_main(conf, d)
    except BaseException as e:  # noqa: BLE001
        return {"ints": None, "oracle": f"{what}: the simulation stopped with {type(e).__name__}: {e}", "nontrivial": None,
                "kind": "scale-main", "observed": {}}
    with Dataset(d / "out.nc") as nc:
        nc.set_auto_mask(False)
        cnt = np.asarray(nc.variables["particle_count"][:]).astype(int)
        pid = np.asarray(nc.variables["pid"][:]).astype(int)
        X = np.asarray(nc.variables["X"][:], dtype=float)
        Y = np.asarray(nc.variables["Y"][:], dtype=float)
    problems = []
    if cnt.sum() != len(pid) or len(pid) != len(X) or len(X) != len(Y):
        problems.append(f"particle_count sums to {int(cnt.sum())}, {len(pid)} identifiers and {len(X)} positions stored")
    else:
        top = int(pid.max()) + 1 if len(pid) else 0
        gone = np.zeros(top, dtype=bool)
        prev = np.zeros(top, dtype=bool)
        e = 0
        for r, c in enumerate(cnt.tolist()):
            p, x, y = pid[e:e + c], X[e:e + c], Y[e:e + c]
            e += c
            inside = in_valid(x, y, lim)
            sea = at_sea(M, x, y, inside)
            pos = lambda k: f"pid {int(p[k])} at ({x[k]}, {y[k]})"  # noqa: E731
            now = np.zeros(top, dtype=bool)
            now[p] = True
            if int(now.sum()) != c:
                problems.append(f"record {r}: identifiers not unique ({c} instances, {int(now.sum())} identifiers)")
            for mask, text in ((~inside, "outside the valid region or at a non-finite position"), (inside & ~sea, "on land"),
                               (gone[p], "identifier of a particle that had vanished from the records is back")):
                if mask.any():
                    problems.append(f"record {r} ({c} particles): {text}: " + first(mask, pos))
            gone |= prev & ~now
            prev = now
            if len(problems) >= 3:
                break
    return {"ints": None, "oracle": (what + ": " + "; ".join(problems[:3])) if problems else None,
            "nontrivial": ("scalemain", n, n2, steps, desc["adv"]), "kind": "scale-main",
            "observed": {"records": int(len(cnt)), "instances": int(len(pid)), "particle_count": cnt.tolist()}}


def eval_scale(desc, ctx):
    return {"scalemove": eval_scalemove, "scalehist": eval_scalehist, "scalemain": eval_scalemain}[desc["k"]](desc, ctx)
