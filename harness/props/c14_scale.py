"""C14 at scale — independence of the particles in runs of realistic size through ladim.main.main.

The world: a 36 x 28 ROMS grid with eight stretched levels, a sloping and undulating bottom (about 40 .. 490 m), a varying
metric, an island, and currents that are strongly sheared in the vertical, vary horizontally and from frame to
frame (three frames, so the run interpolates in time).  A release table of up to some 130 000 rows (one particle
each, random positions and depths, one or four release instants) is run

  full   the whole table,
  sub    a sub-table: a random tenth of the rows, every row of the tail of the table, and the rows around
         every power of two and every multiple of 10 000 (where a block / chunk / buffer boundary would lie),
  perm   (all sizes but two) the rows of equal release time in a random order,
  shift  (the smaller sizes) every time of the set-up shifted by a whole number of steps,

and the oracle is the text of the property on EVERY stored particle instance: the particle released from row r does
exactly the same in all these runs (same records, same X, Y, Z, age and sampled scalar), up to the renumbering of
the pids.  Some particles leave the grid (they die, the rest of the state moves up), optionally all die of age.
One long case keeps a thousand particles at a time but runs for 1100 steps (more than a thousand between two forcing
frames) with a release every eighth step and death by age (70 000 pids, the slots of the state reused all the
time); its sub-table run is at the same time shifted by whole steps.

Everything is observed in the output files (sparse layout), read with numpy; nothing here looks inside ladim.
"""
from __future__ import annotations

import numpy as np
from netCDF4 import Dataset

import romsfiles as rf
import run_ladim as rl
from sim_impl import PLUG

IMAX, JMAX, KMAX = 36, 28, 8
DT = 600
T0 = 86400  # start of the unshifted runs, seconds after the epoch of romsfiles


def s_stretch(N, theta_s=3.0, theta_b=0.4, stagger="rho"):
    """Song-Haidvogel stretching (the usual ROMS curve), computed here so that the file does not depend on ladim"""
    S = -1.0 + (0.5 + np.arange(N)) / N if stagger == "rho" else np.linspace(-1.0, 0.0, N + 1)
    A = np.sinh(theta_s * S) / np.sinh(theta_s)
    B = 0.5 * (np.tanh(theta_s * (S + 0.5)) / np.tanh(0.5 * theta_s) - 1.0)
    return (1 - theta_b) * A + theta_b * B


def write_world(path, frame_times, seed=14, with_temp=True):
    rng = np.random.default_rng(seed)
    jj, ii = np.meshgrid(np.arange(JMAX), np.arange(IMAX), indexing="ij")
    h = 60.0 + 7.0 * ii + 6.0 * jj + 18.0 * np.sin(0.7 * ii + 0.3 * jj * jj)
    mask = np.ones((JMAX, IMAX))
    mask[11:14, 16:18] = 0.0  # an island
    T = len(frame_times)
    shear = np.linspace(-0.4, 1.0, KMAX)[None, :, None, None]
    tfac = np.linspace(1.0, 0.3, T)[:, None, None, None]
    U = 0.6 * shear * tfac * (1 + 0.3 * np.sin(0.5 * jj[:, :-1]))[None, None]
    U = U + 0.02 * rng.standard_normal(U.shape)
    V = -0.4 * shear[:, ::-1] * tfac * (1 + 0.3 * np.cos(0.4 * ii[:-1, :]))[None, None]
    V = V + 0.02 * rng.standard_normal(V.shape)
    extra = None
    if with_temp:
        extra = {"temp": 4.0 + np.arange(KMAX)[None, :, None, None] + 0.1 * ii[None, None] + 0.01 * jj[None, None]
                 + np.arange(T)[:, None, None, None] * 0.5}
    return rf.write_roms(path, imax=IMAX, jmax=JMAX, N=KMAX, times=list(frame_times), u=U, v=V, h=h, mask=mask,
                         dx=800.0 + 3.0 * ii, hc=10.0, Cs_r=s_stretch(KMAX, stagger="rho"), Cs_w=s_stretch(KMAX, stagger="w"),
                         extra=extra)


def make_table(n, seed, rel_steps):
    """n release rows (step, X, Y, Z), sorted by step (stable), on the lattice 1/1024 (short exact decimal text);
    positions in the interior of the grid, one row in sixteen within two cells of the open boundary (many of these
    leave the grid and die, the others move up in the state); none on the island"""
    rng = np.random.default_rng(seed)
    X = rng.uniform(4.0, IMAX - 5.0, n)
    Y = rng.uniform(4.0, JMAX - 5.0, n)
    edge = rng.random(n) < 1 / 16
    side = rng.integers(0, 4, n)
    off = rng.uniform(1.0, 3.0, n)
    X = np.where(edge & (side == 0), off, np.where(edge & (side == 1), IMAX - 1.0 - off, X))
    Y = np.where(edge & (side == 2), off, np.where(edge & (side == 3), JMAX - 1.0 - off, Y))
    Z = rng.uniform(0.5, 38.0, n)
    isl = (X > 15.0) & (X < 18.0) & (Y > 10.0) & (Y < 14.0)
    X[isl] -= 6.0
    step = np.sort(rng.choice(np.asarray(rel_steps), n))
    step[0] = rel_steps[0]
    return np.column_stack([step.astype(float), np.round(X * 1024) / 1024, np.round(Y * 1024) / 1024, np.round(Z * 1024) / 1024])


def table_text(table):
    """per row the text "X Y Z" (repr of the floats: exact), as an object array that sub-tables index"""
    out = np.empty(len(table), dtype=object)
    out[:] = ["%r %r %r" % r for r in zip(table[:, 1].tolist(), table[:, 2].tolist(), table[:, 3].tolist())]
    return out


def write_release(path, steps, body, t0):
    steps = np.asarray(steps).astype(np.int64)
    uniq, inv = np.unique(steps, return_inverse=True)
    stamp = np.array([rf.iso(int(t0 + s * DT)) for s in uniq], dtype=object)[inv]
    with open(path, "w") as f:
        f.write("\n".join((stamp + " " + body).tolist()) + "\n")


def run(d, name, table, body, *, adv, nsteps, frames, shift=0, period=1, life=None, temp=True):
    """one run through ladim.main.main -> (rec, pid, X, Y, Z, age, temp) arrays over all stored instances and the
    number of records"""
    t0 = T0 + shift
    forcing = d / f"w_{name}.nc"
    write_world(forcing, [t0 + f * DT for f in frames], with_temp=temp)
    write_release(d / f"r_{name}.rls", table[:, 0], body, t0)
    ivars = ("pid", "X", "Y", "Z", "age") + (("temp",) if temp else ())
    conf = rf.base_config(start=t0, stop=t0 + nsteps * DT, dt=DT, forcing_file=forcing, release_file=d / f"r_{name}.rls",
                          out_file=d / f"o_{name}.nc", advection=adv, output_period=period * DT, instance_variables=ivars,
                          reference=0)
    conf["state"] = {"instance_variables": {"age": "float", **({"temp": "float"} if temp else {})},
                     "default_values": {"age": 0.0, **({"temp": 0.0} if temp else {})}}
    if temp:
        conf["forcing"]["extra_forcing"] = ["temp"]
    conf["ibm"] = {"module": PLUG, "age": True}
    if life is not None:
        conf["ibm"]["lifetime"] = life * DT
    rl.run_main(conf, d, name=f"{name}.yaml")
    with Dataset(d / f"o_{name}.nc") as nc:
        nc.set_auto_mask(False)
        pc = np.asarray(nc.variables["particle_count"][:], dtype=np.int64)
        tt = np.asarray(nc.variables["time"][:], dtype=float)
        cols = {v: np.asarray(nc.variables[v][:]) for v in ivars}
    rec = np.repeat(np.round((tt - t0) / DT).astype(np.int64), pc)  # record = step of the run (shift removed)
    for f in (forcing, d / f"o_{name}.nc", d / f"r_{name}.rls"):
        f.unlink()
    return {"rec": rec, "nrec": len(pc), "steps": np.round((tt - t0) / DT).astype(np.int64), **cols}


def compare(full, other, rows_of_pid, what, table):
    """`other` holds the rows rows_of_pid[k] (its pid k) of the table of `full` (pid = row): every instance of these
    rows must be the same in both runs.  Returns (problem or None, number of instances compared)"""
    rows_of_pid = np.asarray(rows_of_pid, dtype=np.int64)
    if not np.array_equal(full["steps"], other["steps"]):
        return f"{what}: records at steps {other['steps'].tolist()[:8]}.. instead of {full['steps'].tolist()[:8]}..", 0
    nrow, m = len(table), len(rows_of_pid)
    newpid = np.full(nrow, -1, dtype=np.int64)
    newpid[rows_of_pid] = np.arange(m)
    fp, op = full["pid"].astype(np.int64), other["pid"].astype(np.int64)
    if fp.size and (fp.min() < 0 or fp.max() >= nrow):
        return f"{what}: the full run has pids outside 0..{nrow - 1} for {nrow} release rows", 0
    if op.size and (op.min() < 0 or op.max() >= m):
        return f"{what}: pids outside 0..{m - 1} for {m} release rows", 0
    names = [v for v in full if v not in ("nrec", "steps", "rec", "pid")]
    sel = np.flatnonzero(newpid[fp] >= 0)
    # key of an instance: (record, pid in the numbering of `other`)
    ka = full["rec"][sel] * (m + 1) + newpid[fp[sel]]
    kb = other["rec"] * (m + 1) + op
    if len(np.unique(ka)) != len(ka) or len(np.unique(kb)) != len(kb):
        return f"{what}: a particle is stored twice in one record", 0
    _, ia, ib = np.intersect1d(ka, kb, assume_unique=True, return_indices=True)
    problems = []
    bad = np.zeros(len(ia), dtype=bool)
    for v in names:
        x, y = full[v][sel][ia], other[v][ib]
        bad |= ~((x == y) | (np.isnan(x) & np.isnan(y)))
    if bad.any():
        k = int(np.flatnonzero(bad)[0])  # the keys are sorted: the earliest record
        r, p = divmod(int(ka[ia][k]), m + 1)
        row = int(rows_of_pid[p])
        badrows = np.unique(rows_of_pid[ka[ia][bad] % (m + 1)])
        va = {v: float(full[v][sel][ia][k]) for v in names}
        vb = {v: float(other[v][ib][k]) for v in names}
        problems.append(f"{what}: release row {row} of {nrow} (X, Y, Z = {table[row, 1:].tolist()}; pid {row} in the full run, {p} here) "
                        f"at step {r}: {vb} here != {va} in the full run; {int(bad.sum())} of {len(bad)} common particle instances "
                        f"differ, rows {int(badrows.min())}..{int(badrows.max())} ({len(badrows)} rows)")
    if len(ia) != len(ka) or len(ib) != len(kb):
        only_full = np.setdiff1d(ka, kb, assume_unique=True)
        only_here = np.setdiff1d(kb, ka, assume_unique=True)
        q, where = (int(only_full[0]), "missing from") if len(only_full) else (int(only_here[0]), "present only in")
        r, p = divmod(q, m + 1)
        row = int(rows_of_pid[p])
        problems.append(f"{what}: release row {row} of {nrow} (pid {row} in the full run, {p} here) is {where} this run's record of "
                        f"step {r}; {len(only_full) + len(only_here)} particle instances are present in one of the two runs only")
    return ("; ".join(problems) or None), len(ia)


def boundary_rows(n):
    """rows around the places where an implementation working in blocks would cut: powers of two, multiples of 10000"""
    cuts = [2 ** k for k in range(8, 18)] + list(range(10000, n + 1, 10000))
    out = set()
    for c in cuts:
        for r in range(c - 2, c + 3):
            if 0 <= r < n:
                out.add(r)
    return out


def scale_cases():
    """the fixed family: sizes straddling powers of two and round numbers, all three schemes; `one`: the whole table
    released at the first step (n particles at a time), else at four instants; `life`: death by age after so many steps"""
    out = []
    for n, adv, one, life, perm, shift in (
            (1000, "EF", False, None, True, 3), (1024, "RK4", True, None, True, 0), (1025, "RK2", True, None, True, 7),
            (4096, "RK2", True, None, True, 0), (4097, "RK4", True, None, True, 0), (5000, "EF", False, 3, True, 1),
            (10000, "RK4", False, None, True, 5), (20000, "RK2", False, 3, True, 0), (40000, "EF", False, None, False, 0),
            (70000, "RK4", True, None, False, 0), (131073, "RK4", True, None, True, 0)):
        out.append({"k": "scale", "n": n, "adv": adv, "seed": 1400 + n, "nsteps": 6, "frames": [0, 4, 9], "life": life, "period": 1,
                    "rel_steps": [0] if one else [0, 0, 0, 0, 0, 0, 0, 1, 2, 3], "perm": perm, "shift": shift})
    # late in the life of a run: more than a thousand steps between two forcing frames, a release every eighth step
    # and death by age: tens of thousands of pids, a thousand particles at a time, the slots of the state reused
    out.append({"k": "scale", "n": 70000, "adv": "RK2", "seed": 1499, "nsteps": 1100, "frames": [0, 1050, 1200], "life": 12, "period": 8,
                "rel_steps": list(range(0, 1096, 8)), "perm": False, "shift": 0, "sub_shift": 3})
    return out


def sub_rows(n, seed):
    rng = np.random.default_rng(seed + 1)
    keep = set(np.flatnonzero(rng.random(n) < 0.1).tolist())
    keep |= set(range(max(0, n - max(50, n // 20)), n))  # the tail of the table
    keep |= boundary_rows(n)
    keep.add(0)
    return np.array(sorted(keep), dtype=np.int64)


def eval_scale(desc, d):
    n, adv, seed = desc["n"], desc["adv"], desc["seed"]
    nsteps, frames = desc["nsteps"], desc["frames"]
    life = desc.get("life")
    kw = {"adv": adv, "nsteps": nsteps, "frames": frames, "life": life, "period": desc.get("period", 1)}
    table = make_table(n, seed, desc["rel_steps"])
    body = table_text(table)
    full = run(d, "full", table, body, **kw)
    problems, compared = [], 0
    tag = f"scale case n={n} rows, {adv}, {nsteps} steps"
    keep = sub_rows(n, seed)
    ss = int(desc.get("sub_shift", 0))  # the long case: the sub-table run is also shifted in time (both leave a particle unchanged)
    sub = run(d, "sub", table[keep], body[keep], shift=ss * DT, **kw)
    p, c = compare(full, sub, keep, f"{tag}: run with a sub-table of {len(keep)} rows" + (f", every time shifted by {ss} steps" if ss else ""), table)
    compared += c
    if p:
        problems.append(p)
    if desc.get("perm"):
        rng = np.random.default_rng(seed + 2)
        # random order within every release instant
        order = np.lexsort((rng.random(n), table[:, 0])).astype(np.int64)
        perm = run(d, "perm", table[order], body[order], **kw)
        p, c = compare(full, perm, order, f"{tag}: run with the rows of equal release time reordered", table)
        compared += c
        if p:
            problems.append(p)
    if desc.get("shift"):
        sh = run(d, "shift", table, body, shift=desc["shift"] * DT, **kw)
        p, c = compare(full, sh, np.arange(n), f"{tag}: run with every time shifted by {desc['shift']} steps", table)
        compared += c
        if p:
            problems.append(p)
    # what the case exercised (never part of the verdict)
    last = full["rec"] == full["steps"][-1]
    first = full["rec"] == full["steps"][0]
    obs = {"n": n, "adv": adv, "records": int(full["nrec"]), "instances": int(len(full["rec"])), "compared": int(compared),
           "at_start": int(first.sum()), "at_end": int(last.sum()), "max_simultaneous": int(np.bincount(full["rec"] - full["rec"].min()).max())}
    return problems, obs
