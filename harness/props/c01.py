"""C01 — advection integrates the velocity field with the scheme's order of accuracy."""
from __future__ import annotations

import math
from types import SimpleNamespace

import numpy as np

import romsfiles as rf
import run_ladim as rl
import tracker_impl as ti
from coqbridge import fl

PROP = "C01"
THEOREM_FILE = "Props/C01.v"
CHECKER = "Corr.C01All"
SHARD = 24
RULE = ("(a) one step of the real Tracker.update (EF/RK2/RK4) with a plug-in forcing whose velocity is a polynomial in x, y "
        "and the fractional time, on a plug-in grid with anisotropic metric and a clip box that some stage positions "
        "leave; new position compared with the Coq model (tolerance 1e-11) and with an independent Butcher-tableau step "
        "(oracle); (b) ladim.analytical.get_velocity1/2/4 (get_velocity2 for several s) against model and tableau; "
        "(c) end-to-end runs through the real ROMS forcing on fields that are linear in space/time, and measured order of "
        "convergence on a dt ladder (thorough); (d) SCALE cases (c01_scale.py, always first): long runs of the real Model / "
        "ladim.main through the ROMS forcing (1300-2200 steps, frames 1..2048 steps apart in 13-16 files, release campaigns "
        "separated by empty periods, deaths by lifetime and at the open boundary, populations growing to 130000 particles, "
        "cell-dependent metric, > 100000 stored instances): every particle, every step against the scheme's tableau step "
        "with the velocity of that time (oracle only, 1e-6); (e) ARRANGEMENT cases (c01_order.py, always next): one run of the real "
        "Model through the ROMS forcing on a field linear in time, with the inputs arranged the usual way and in another legal way "
        "(per-file time units / reference times of a multi-file forcing, file names, variable order, f4 / packed storage, "
        "release columns / header / row order / mult / lon-lat, key order and time spellings of the configuration): both must "
        "end where the scheme prescribes (1e-6) and agree with each other (1e-9), oracle only. Non-trivial = field not constant in space and time.")
TRUSTED = ["Coq 8.16.1 kernel + vm_compute", "hand-written model coq/Model/Tracker.v (EF, RK2, RK4, clip, analytical helpers) tied by this correspondence",
           "convergence for arbitrary smooth fields is NOT proved (partial): tableau identity + order conditions + exactness laws are"]
ASSUMPTIONS = ["exact rational arithmetic instead of float rounding; comparison tolerance 1e-11 relative"]
SCHEMES = {"EF": 1, "RK2": 2, "RK4": 3}
TAB = {
    "EF": ([0.0], [[]], [1.0]),
    "RK2": ([0.0, 0.5], [[], [0.5]], [0.0, 1.0]),
    "RK4": ([0.0, 0.5, 0.5, 1.0], [[], [0.5], [0.0, 0.5], [0.0, 0.0, 1.0]], [1 / 6, 1 / 3, 1 / 3, 1 / 6]),
}


def poly(c, f, x, y):
    return c[0] + c[1] * x + c[2] * y + c[3] * f + c[4] * x * f + c[5] * y * f


def tableau_step(tab, vel, x, y, dtdx, dtdy):
    c, A, b = tab
    kx, ky = [], []
    for ci, ai in zip(c, A):
        sx = x + sum(a * k for a, k in zip(ai, kx))
        sy = y + sum(a * k for a, k in zip(ai, ky))
        u, v = vel(ci, sx, sy)
        kx.append(u * dtdx); ky.append(v * dtdy)
    return x + sum(bi * k for bi, k in zip(b, kx)), y + sum(bi * k for bi, k in zip(b, ky)), None


def gen_cases(ctx):
    rng = ctx.rng
    import c01_scale

    # deterministic scale cases, always present and always first (they draw nothing from rng)
    out = list(c01_scale.scenarios(ctx.quick))
    # deterministic ARRANGEMENT cases (c01_order.py), always next, nothing drawn from rng either
    import c01_order

    out += c01_order.cases()

    def coef(scale, nz):
        return [rng.randint(-8, 8) / 8 * scale if rng.random() < nz else 0.0 for _ in range(6)]
    for _ in range(250 if ctx.quick else 3000):
        dx = rng.choice([512.0, 800.0, 1024.0, 4000.0]); dy = rng.choice([dx, dx, 2 * dx, dx / 2, 1000.0])
        # whole seconds (what TimeKeeper delivers) and, through a hand-made time module, steps with a fraction of a second
        dt = rng.choice([60.0, 256.0, 600.0, 1024.0, 60.0, 600.0, 37.5, 112.5, 0.75])
        scale = 0.6 * dx / dt  # about 0.6 cell per step at most per coefficient
        nz = rng.choice([0.3, 0.7, 1.0])
        cu, cv = coef(scale, nz), coef(scale, nz)
        for j in (1, 2, 4, 5):  # keep gradients moderate (per cell)
            cu[j] /= 4; cv[j] /= 4
        x, y = rng.randint(200, 1400) / 64, rng.randint(200, 1400) / 64
        box = rng.choice(["wide", "wide", "tight"])
        if box == "wide":
            b = [0.0, 30.0, 0.0, 30.0]
        else:  # clip box whose border is within a fraction of a cell of the particle
            b = [x - rng.choice([0.05, 0.3, 2.0]), x + rng.choice([0.05, 0.3, 2.0]), y - rng.choice([0.05, 0.3, 2.0]), y + rng.choice([0.05, 0.3, 2.0])]
        others = []
        if rng.random() < 0.35:  # other particles in the same call: inactive / in cells with another metric
            others = [[rng.randint(200, 1400) / 64, rng.randint(200, 1400) / 64, rng.random() < 0.5] for _ in range(rng.randint(1, 3))]
        out.append({"k": "step", "scheme": rng.choice(["EF", "RK2", "RK4", "RK4"]), "x": x, "y": y, "dt": dt, "dx": dx, "dy": dy,
                    "box": b, "cu": cu, "cv": cv, "others": others, "varying": bool(others)})
    for _ in range(80 if ctx.quick else 600):
        cu = [rng.randint(-8, 8) / 512 for _ in range(3)] + [0.0, 0.0, 0.0]
        cv = [rng.randint(-8, 8) / 512 for _ in range(3)] + [0.0, 0.0, 0.0]
        out.append({"k": "analytical", "which": rng.choice([1, 2, 2, 2, 4]), "s": rng.choice([1.0, 0.5, 2 / 3, 0.75, 0.25]),
                    "x": rng.randint(0, 640) / 64, "y": rng.randint(0, 640) / 64, "dt": rng.choice([1.0, 8.0, 60.0]), "cu": cu, "cv": cv})
    for adv in ("EF", "RK2", "RK4"):
        out.append({"k": "roms", "adv": adv, "field": "linear-x"})
        out.append({"k": "roms", "adv": adv, "field": "linear-t"})
        out.append({"k": "roms", "adv": adv, "field": "linear-t-v"})  # only v changes between the frames, u is steady
        out.append({"k": "roms", "adv": adv, "field": "linear-t-multi"})  # several steps between two frames
        out.append({"k": "roms", "adv": adv, "field": "linear-t-late"})  # unevenly spaced frames, start after the third, release one step later
    if not ctx.quick:
        for adv in ("EF", "RK2", "RK4"):
            out.append({"k": "order", "adv": adv})
    import c01_float

    for fdesc in c01_float.gen_step_cases(rng, 60 if ctx.quick else 1500):
        out.append({"k": "fstep", "f": fdesc})
    return out


def eval_case(desc, ctx):
    k = desc["k"]
    if k == "scale":
        import c01_scale

        return c01_scale.eval_scale(desc, ctx)
    if k == "arr":
        import c01_order

        return c01_order.eval_arr(desc, ctx)
    if k == "fstep":
        # the floating-point model of the step (Model/TrackerFloat.v): the real Tracker.update with a recording stub
        # forcing, stage positions and final position compared bit for bit (leading -9: Corr/C01All -> Corr/C01F), and
        # an independent exact-rational oracle for the proved rounding bounds
        import c01_float

        r = c01_float.eval_step_case(desc["f"])
        r["ints"] = None if r.get("ints") is None else [-9] + [int(x) for x in r["ints"]]
        return r
    if k == "step":
        return eval_step(desc)
    if k == "analytical":
        return eval_analytical(desc)
    if k == "roms":
        return eval_roms(desc, ctx)
    return eval_order(desc, ctx)


def eval_step(desc):
    cu, cv = desc["cu"], desc["cv"]
    dt, dx, dy = desc["dt"], desc["dx"], desc["dy"]
    b = desc["box"]
    others = desc.get("others") or []
    grid = ti.StubGrid(b[0], b[1], b[2], b[3], dx, dy, varying=bool(desc.get("varying")))
    fac = float(grid.factor([desc["x"]])[0])
    dx, dy = dx * fac, dy * fac  # the metric of the particle's own cell

    def func(X, Y, f):
        return poly(cu, f, X, Y), poly(cv, f, X, Y)
    forcing = ti.StubForcing(func=func)
    if round(desc["x"] * 64) % 2 == 1:  # every other case: the forcing sits behind a pass-through wrapper (*args, **kwargs)
        forcing = ti.PassThroughForcing(forcing)
    tr, st, _ = ti.make_tracker(grid, forcing, dt, desc["scheme"])
    # the particle under test comes LAST, after the other (possibly inactive) particles
    st.append(X=np.array([o[0] for o in others] + [desc["x"]]), Y=np.array([o[1] for o in others] + [desc["y"]]), Z=5.0,
              active=np.array([bool(o[2]) for o in others] + [True]))
    tr.update()
    ox, oy = float(st.X[-1]), float(st.Y[-1])
    moved_inactive = [k for k, o in enumerate(others) if not o[2] and (float(st.X[k]) != o[0] or float(st.Y[k]) != o[1])]
    ints = [1, SCHEMES[desc["scheme"]]]
    for v in (desc["x"], desc["y"], dt, dx, dy, b[0], b[1], b[2], b[3]):
        ints += fl(v)
    for v in cu + cv:
        ints += fl(v)
    ints += fl(ox) + fl(oy)
    # oracle: Butcher-tableau step with the velocity at the stage positions and fractional times, valid when
    # no stage position leaves the clip box
    lo_x, hi_x, lo_y, hi_y = b[0] + 0.01, b[1] - 0.01, b[2] + 0.01, b[3] - 0.01
    stage_pos = [(float(c[0][-1]), float(c[1][-1])) for c in forcing.calls]
    clipped = any(not (lo_x < sx < hi_x and lo_y < sy < hi_y) for sx, sy in stage_pos[1:])
    outside = any(not (lo_x - 1e-12 <= sx <= hi_x + 1e-12 and lo_y - 1e-12 <= sy <= hi_y + 1e-12) for sx, sy in stage_pos[1:])
    oracle = None
    if outside:
        oracle = f"velocity sampled outside the clip box at {stage_pos}"
    elif not clipped:
        wx, wy, _ = tableau_step(TAB[desc["scheme"]], lambda f, x, y: (poly(cu, f, x, y), poly(cv, f, x, y)), desc["x"], desc["y"], dt / dx, dt / dy)
        if abs(wx - ox) > 1e-10 * (1 + abs(wx)) or abs(wy - oy) > 1e-10 * (1 + abs(wy)):
            oracle = f"{desc['scheme']} step gives ({ox}, {oy}), the scheme's Runge-Kutta step is ({wx}, {wy})"
    if moved_inactive and not oracle:
        oracle = f"inactive particles {moved_inactive} moved"
    nontriv = any(cu[j] or cv[j] for j in (1, 2, 4, 5)) and any(cu[j] or cv[j] for j in (3, 4, 5))
    return {"ints": ints, "oracle": oracle, "nontrivial": (str(desc),) if nontriv else None,
            "kind": f"step-{desc['scheme']}-{'clipped' if clipped else 'free'}", "observed": [ox, oy]}


def eval_analytical(desc):
    from ladim.analytical import get_velocity1, get_velocity2, get_velocity4

    cu, cv, dt, s = desc["cu"], desc["cv"], desc["dt"], desc["s"]
    state = SimpleNamespace(X=desc["x"], Y=desc["y"])

    def sample(x, y):
        return poly(cu, 0, x, y), poly(cv, 0, x, y)
    which = desc["which"]
    if which == 1:
        U, V = get_velocity1(state, sample, dt)
        tab = TAB["EF"]
    elif which == 2:
        U, V = get_velocity2(state, sample, dt, s)
        m = 1 / (2 * s)
        tab = ([0.0, s], [[], [s]], [1 - m, m])
    else:
        U, V = get_velocity4(state, sample, dt)
        tab = TAB["RK4"]
    ints = [2, which] + fl(s) + fl(desc["x"]) + fl(desc["y"]) + fl(dt)
    for v in cu + cv:
        ints += fl(v)
    ints += fl(float(U)) + fl(float(V))
    wx, wy, _ = tableau_step(tab, lambda f, x, y: sample(x, y), desc["x"], desc["y"], dt, dt)
    wU, wV = (wx - desc["x"]) / dt, (wy - desc["y"]) / dt
    oracle = None
    if abs(wU - U) > 1e-10 * (1 + abs(wU)) or abs(wV - V) > 1e-10 * (1 + abs(wV)):
        oracle = f"get_velocity{which}(s={s}) = ({U}, {V}); an order-{which} Runge-Kutta sampling gives ({wU}, {wV})"
    return {"ints": ints, "oracle": oracle, "nontrivial": (str(desc),) if any(cu[1:3] + cv[1:3]) else None,
            "kind": f"analytical-{which}", "observed": [float(U), float(V)]}


def eval_roms(desc, ctx):
    """end to end through ladim.main.main and the real ROMS forcing"""
    d = ctx.subdir("c01roms_" + desc["adv"] + desc["field"])
    imax, jmax, N = 14, 8, 2
    dx, dt = 1000.0, 600.0
    v, expect_y, nsteps, start, rel = None, 4.0, 1, 0, None
    xu = np.arange(imax - 1) + 0.5
    if desc["field"] == "linear-x":
        c = 0.2 * dx / dt
        u0 = np.broadcast_to(c * (xu - 5.0), (1, N, jmax, imax - 1))
        u = np.concatenate([u0, u0]); times = [0, 6000]
        z = 0.2
        want = {"EF": z, "RK2": z + z * z / 2, "RK4": z + z * z / 2 + z**3 / 6 + z**4 / 24}[desc["adv"]]
        expect = 7.0 + 2.0 * want
    elif desc["field"] == "linear-t":  # u grows linearly in time, frames one step apart: u(f) = c*f -> displacement c*dt/dx * int_0^1 f
        c = 0.5 * dx / dt
        u = np.stack([np.zeros((N, jmax, imax - 1)), np.full((N, jmax, imax - 1), c)]); times = [0, 600]
        expect = 7.0 + {"EF": 0.0, "RK2": 0.25, "RK4": 0.25}[desc["adv"]]
    elif desc["field"] == "linear-t-multi":
        # frames 4 steps apart, u grows linearly from 0 to c: step k of EF moves by c*(k/4)*dt/dx, RK2/RK4 integrate
        # the linear growth exactly: c*((k + 1/2)/4)*dt/dx; three steps are taken
        c = 0.5 * dx / dt
        u = np.stack([np.zeros((N, jmax, imax - 1)), np.full((N, jmax, imax - 1), c)]); times = [0, 2400]
        nsteps = 3
        per = {"EF": [k / 4 for k in range(nsteps)], "RK2": [(k + 0.5) / 4 for k in range(nsteps)], "RK4": [(k + 0.5) / 4 for k in range(nsteps)]}[desc["adv"]]
        expect = 7.0 + 0.5 * sum(per)
    elif desc["field"] == "linear-t-late":
        # frames at steps 0, 1, 3, 6, 12 (unevenly spaced) sample u(t) = c * t / 7200 s; the run starts at step 4, after the
        # third frame, and takes four steps across the frame of step 6: the interpolated field is the same linear
        # function of time throughout
        c = 0.5 * dx / dt
        times = [0, 600, 1800, 3600, 7200]
        u = np.stack([np.full((N, jmax, imax - 1), c * t / 7200.0) for t in times])
        # ... and the particle is released one step after the start: during the first step the model is empty
        nsteps, start, rel = 5, 1800, 2400
        off = {"EF": 0.0, "RK2": 0.5, "RK4": 0.5}[desc["adv"]]
        expect = 7.0 + sum(c * (rel + (k + off) * dt) / 7200.0 * dt / dx for k in range(nsteps - 1))
    else:  # steady u (the same in both frames), v grows linearly in time
        c = 0.5 * dx / dt
        u = np.full((2, N, jmax, imax - 1), 0.25 * dx / dt); times = [0, 600]
        v = np.stack([np.zeros((N, jmax - 1, imax)), np.full((N, jmax - 1, imax), c)])
        expect, expect_y = 7.25, 4.0 + {"EF": 0.0, "RK2": 0.25, "RK4": 0.25}[desc["adv"]]
    rf.write_roms(d / "f.nc", imax=imax, jmax=jmax, N=N, times=times, u=u, v=v, dx=dx)
    rf.write_release(d / "r.rls", [[start if rel is None else rel, 7.0, 4.0, 5.0]])
    conf = rf.base_config(start=start, stop=start + int(dt) * nsteps, dt=int(dt), forcing_file=d / "f.nc", release_file=d / "r.rls", out_file=d / "o.nc", advection=desc["adv"])
    # one step: read the state directly
    m = rl.run_conf(conf)
    X, Y = float(m.state.X[0]), float(m.state.Y[0])
    oracle = None if abs(X - expect) < 1e-6 and abs(Y - expect_y) < 1e-6 else (
        f"{desc['adv']} through the ROMS forcing on a {desc['field']} field: (X, Y) = ({X}, {Y}), the scheme prescribes ({expect}, {expect_y})")
    return {"ints": None, "oracle": oracle, "nontrivial": ("roms", desc["adv"], desc["field"]), "kind": "roms-" + desc["field"], "observed": X}


def eval_order(desc, ctx):
    """measured order of convergence of the real tracker: solid-body rotation for a fixed time"""
    errs = []
    omega = 2 * math.pi / 4096.0
    for nsteps in (8, 16, 32, 64):
        dt = 1024.0 / nsteps * 4
        grid = ti.StubGrid(-100, 100, -100, 100, 1.0, 1.0)

        def func(X, Y, f):
            return -omega * Y, omega * X
        tr, st, _ = ti.make_tracker(grid, ti.StubForcing(func=func), 1, desc["adv"])
        tr.dt = dt
        st.append(X=np.array([10.0]), Y=np.array([0.0]), Z=5.0)
        for _ in range(nsteps):
            tr.update()
        T = dt * nsteps
        ex, ey = 10 * math.cos(omega * T), 10 * math.sin(omega * T)
        errs.append(math.hypot(float(st.X[0]) - ex, float(st.Y[0]) - ey))
    orders = [math.log2(a / b) for a, b in zip(errs, errs[1:]) if b > 0]
    p = {"EF": 1, "RK2": 2, "RK4": 4}[desc["adv"]]
    oracle = None if orders and min(orders) > p - 0.35 else f"{desc['adv']}: observed orders {orders} (errors {errs}), expected {p}"
    return {"ints": None, "oracle": oracle, "nontrivial": ("order", desc["adv"]), "kind": "order", "observed": {"errors": errs, "orders": orders}}
