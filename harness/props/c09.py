"""C09 — particles stay in the water inside the domain; the dead stay dead."""
from __future__ import annotations

import math

import numpy as np

import c09_order
import c09_scale
import tracker_impl as ti
from coqbridge import fl

PROP = "C09"
THEOREM_FILE = "Props/C09.v"
CHECKER = "Corr.C09"
SHARD = 40
RULE = ("Single steps of the real Tracker.update on a real ROMS.Grid built from generated mask files (islands, one-cell "
        "channels, land on the boundary, random legal subgrids) with prescribed velocities (moderate, towards land, "
        "towards the open boundary, huge, NaN, inf), inactive and dead particles; positions dyadic so the comparison "
        "with the Coq model is exact. Plus multi-step histories with diffusion and EF/RK2/RK4 where the invariant is "
        "checked after every step by the oracle. Non-trivial = distinct case in which at least one candidate hits land "
        "or leaves the grid. First in the list, always present: deterministic cases at realistic scale (c09_scale.py, oracle "
        "only): one exact step of 1000 ... 130000 particles (sizes straddling powers of two), a grid of more than 2^16 "
        "cells with a subgrid, histories of 9000-70000 particles with removal and release, lives of more than 1000 steps "
        "with identifiers beyond the size of the state, and one whole simulation through ladim.main.main with 27000 "
        "particles and >250000 stored instances; every clause decided for every particle with numpy. "
        "Next, always present: arrangement cases (c09_order.py, oracle only): one small lon/lat scenario with an island run through "
        "ladim.main.main with the release columns in other orders (header line or names), rows of one release time permuted, "
        "other spellings of times and numbers, configuration keys reversed, forcing as f4 / packed / variables reversed / three files "
        "with their own time units; every instance of every record decided, and every arrangement equal to the usual one.")
TRUSTED = ["Coq 8.16.1 kernel + vm_compute", "hand-written model coq/Model/Tracker.v (move, ingrid, atsea) tied by this correspondence",
           "numpy round() = round half to even (modelled as qround)", "netCDF4 for the synthetic grid files"]
ASSUMPTIONS = ["released particles start in sea cells of the valid region (the property's quantifier)",
               "exact rational arithmetic for the candidate X + U*dt/dx (inputs chosen dyadic so the floats are exact)"]
DT, DX = 512.0, 1024.0


def gen_cases(ctx):
    rng = ctx.rng
    out = c09_scale.gen_scale_cases(ctx)  # deterministic, draws nothing from ctx.rng
    out += c09_order.gen_order_cases(ctx)  # deterministic arrangement cases (orders / names / spellings), draw nothing either
    out += [{"k": "warmdead", "adv": "RK2"}, {"k": "bulkrecords", "n": 3005, "dead": [3000, 3001, 3002, 3003, 3004]},
           {"k": "bulkrecords", "n": 120000, "dead": [17, 60000]}]
    n = 120 if ctx.quick else 1500
    for _ in range(n):
        jmax, imax = rng.randint(7, 14), rng.randint(7, 16)
        M = ti.random_mask(rng, jmax, imax)
        sub = ti.random_subgrid(rng, jmax, imax)
        i0, i1, j0, j1 = sub if sub else (1, imax - 1, 1, jmax - 1)
        parts = []
        for _ in range(rng.randint(3, 12)):
            # a sea cell of the valid region
            for _try in range(50):
                x = rng.randrange(int((i0 + 0.5) * 64) + 1, int((i1 - 1.5) * 64)) / 64
                y = rng.randrange(int((j0 + 0.5) * 64) + 1, int((j1 - 1.5) * 64)) / 64
                if M[round(y), round(x)] == 1:
                    break
            else:
                continue
            kind = rng.choice(["mod", "mod", "mod", "big", "huge", "nan", "inf", "zero", "edge", "half", "half"])
            if kind == "mod":
                u, v = rng.randint(-16, 16) / 8, rng.randint(-16, 16) / 8
            elif kind == "big":
                u, v = rng.randint(-80, 80) / 4, rng.randint(-80, 80) / 4
            elif kind == "huge":
                u, v = rng.choice([-1, 1]) * 2.0 ** rng.randint(20, 60), rng.randint(-4, 4) / 4
            elif kind == "nan":
                u, v = float("nan"), 0.25
            elif kind == "inf":
                u, v = rng.choice([float("inf"), float("-inf")]), 0.0
            elif kind == "half":  # candidate exactly on a cell face (x = k + 1/2): the cell it belongs to decides land / sea
                xh = rng.randint(int(i0) + 1, int(i1) - 2) + 0.5
                u = (xh - x) * DX / DT
                v = ((rng.randint(int(j0) + 1, int(j1) - 2) + 0.5 - y) * DX / DT) if rng.random() < 0.5 else 0.0
            elif kind == "edge":  # candidate exactly on the border of the valid region
                u, v = ((rng.choice([i0 + 0.5, i1 - 1.5]) - x) * DX / DT), 0.0
            else:
                u, v = 0.0, 0.0
            parts.append([x, y, rng.random() > 0.1, rng.random() > 0.2, kind, u, v])
        if parts:
            out.append({"k": "move", "imax": imax, "jmax": jmax, "mask": ["".join(map(str, r)) for r in M.tolist()],
                        "subgrid": sub, "parts": parts})
            # every fourth case hands the alive / active flags over as 0 / 1 integers: that is how an `active` (or `alive`)
            # column of a release file, spelled 0 / 1, reaches State.append (pandas reads it as int64)
            if len([c for c in out if c.get("k") == "move"]) % 4 == 0:
                out[-1]["flags"] = "int"
    for _ in range(12 if ctx.quick else 150):
        jmax, imax = rng.randint(8, 14), rng.randint(8, 16)
        M = ti.random_mask(rng, jmax, imax)
        out.append({"k": "history", "imax": imax, "jmax": jmax, "mask": ["".join(map(str, r)) for r in M.tolist()],
                    "subgrid": ti.random_subgrid(rng, jmax, imax), "adv": rng.choice(["EF", "RK2", "RK4"]),
                    "D": rng.choice([0.0, 50.0, 500.0]), "steps": rng.randint(3, 15), "n": rng.randint(5, 40),
                    "seed": rng.randrange(10**6), "speed": rng.choice([0.5, 2.0, 6.0])})
    # coast next to the open boundary: a land column just inside the valid region, flow of about two cells per step
    # towards it, random kicks of about one cell: moves end on the land column, beyond it, or outside the grid
    for _ in range(4 if ctx.quick else 40):
        jmax, imax = rng.randint(9, 13), rng.randint(12, 16)
        M = np.ones((jmax, imax), dtype=int)
        side = rng.choice(["E", "W"])
        col = imax - 3 if side == "E" else 2  # the outermost column of the valid region
        M[:, col] = 0
        M[rng.randrange(2, jmax - 2), col] = 1  # a one-cell channel through the coast
        out.append({"k": "history", "imax": imax, "jmax": jmax, "mask": ["".join(map(str, r)) for r in M.tolist()],
                    "subgrid": None, "adv": rng.choice(["EF", "RK2", "RK4"]), "D": DX * DX / (2 * DT), "steps": rng.randint(3, 6),
                    "n": 60, "seed": rng.randrange(10**6), "speed": 0.0, "uniform": [2.0 * DX / DT * (1 if side == "E" else -1), 0.0]})
    # "appears in no later record / never reappears in the output": death-and-release histories written by the
    # real Output module in both layouts, read back (driver and oracle of C06: a value iff alive at that record)
    import c06

    k = 0
    for dd in c06.gen_cases(ctx):
        if dd.get("k") == "hist" and any(op[0] in ("kill", "killall") for ops in dd["hist"] for op in ops):
            dd["layout"] = ["dense", "dense", "sparse"][k % 3]
            out.append({"k": "records", "c06": dd})
            k += 1
            if k >= (12 if ctx.quick else 120):
                break
    return out


def valid_region(sub, imax, jmax):
    i0, i1, j0, j1 = sub if sub else (1, imax - 1, 1, jmax - 1)
    return i0, i1, j0, j1


def in_valid(x, y, lim):
    i0, i1, j0, j1 = lim
    return math.isfinite(x) and math.isfinite(y) and (i0 + 0.5 < x < i1 - 1.5) and (j0 + 0.5 < y < j1 - 1.5)


def eval_case(desc, ctx):
    if desc["k"].startswith("scale"):
        return c09_scale.eval_scale(desc, ctx)
    if desc["k"] == "order":
        return c09_order.eval_order(desc, ctx)
    if desc["k"] == "warmdead":
        # "a dead particle appears in no later record", across a warm start (oracle only): the particle killed in the
        # first leg must not come back — under its identifier — in the files of the restarted run
        import c08_impl

        d = ctx.subdir("c09warm")
        for f in d.glob("*"):
            f.unlink()
        diffs, pids = c08_impl.warm_pid_scenario(d, desc["adv"])
        bad = [x for x in diffs if "pid" in x or "records" in x or "files" in x or "crash" in x]
        return {"ints": None, "oracle": ("after a warm start the identifier of a dead particle is in later records: " + "; ".join(bad[:2])) if bad else None,
                "nontrivial": ("warmdead", desc["adv"]), "kind": "warm-start-dead-stay-dead", "observed": {"pids_uninterrupted": pids}}
    if desc["k"] == "bulkrecords":
        # a state of realistic size (thousands of particles) in which a handful dies between two records (as the tracker
        # marks them: alive = False): none of the dead may be in the next sparse record (oracle only)
        import romsfiles as rf
        from ladim.out_netcdf import Output
        from ladim.state import State
        from ladim.timekeeper import TimeKeeper
        from netCDF4 import Dataset

        d = ctx.subdir("c09bulk")
        for f in d.glob("*"):
            f.unlink()
        n, dead = desc["n"], desc["dead"]
        tk = TimeKeeper(start=rf.iso(0), stop=rf.iso(1800), dt=600)
        st = State()
        ivars = {"pid": {"encoding": {"datatype": "i4"}, "attributes": {}}, "X": {"encoding": {"datatype": "f8"}, "attributes": {}}}
        out = Output({"time": tk, "state": st, "grid": None}, d / "bulk.nc", 600, ivars, None, layout="sparse", numrec=0)
        st.append(X=np.arange(n, dtype=float), Y=1.0, Z=1.0)
        problems = []
        for step in range(3):
            tk.update()
            st.compactify()
            out.update()
            if step == 0:
                alive = np.ones(len(st), dtype=bool)
                alive[np.array(dead)] = False
                st["alive"] = alive
        out.close()
        with Dataset(d / "bulk.nc") as nc:
            cnt = [int(c) for c in nc.variables["particle_count"][:]]
            pid = np.asarray(nc.variables["pid"][:])
        want = [n, n - len(dead), n - len(dead)]
        if cnt != want:
            problems.append(f"particle_count {cnt}, living particles at the records {want} ({len(dead)} of {n} died after the first record)")
        later = set(pid[n:].tolist()) & set(dead)
        if later:
            problems.append(f"dead particles {sorted(later)[:5]} are in records written after their death")
        return {"ints": None, "oracle": "; ".join(problems) or None, "nontrivial": ("bulkrecords", n, len(dead)), "kind": "bulk-records",
                "observed": {"particle_count": cnt}}
    if desc["k"] == "records":
        import c06

        r = c06.eval_case(desc["c06"], ctx)
        return {"ints": None, "oracle": ("output records: " + r["oracle"]) if r["oracle"] else None,
                "nontrivial": ("records",) + tuple(r["nontrivial"]) if r.get("nontrivial") else None,
                "kind": "records-" + r["kind"], "observed": r.get("observed")}
    M = np.array([[int(c) for c in row] for row in desc["mask"]])
    imax, jmax, sub = desc["imax"], desc["jmax"], desc["subgrid"]
    lim = valid_region(sub, imax, jmax)
    d = ctx.subdir("c09")
    grid = ti.real_grid(d, "g.nc", imax, jmax, M, dx=DX, subgrid=tuple(sub) if sub else None)
    if desc["k"] == "history":
        return eval_history(desc, grid, M, lim)
    P = [[p[0], p[1], p[2], p[3], p[4], float(p[5]), float(p[6])] for p in desc["parts"]]  # "nan"/"inf" strings in replay files
    X = np.array([p[0] for p in P]); Y = np.array([p[1] for p in P])
    U = np.array([p[5] for p in P], dtype=float); V = np.array([p[6] for p in P], dtype=float)
    forcing = ti.StubForcing(U=U, V=V)
    tr, st, _ = ti.make_tracker(grid, forcing, DT, "EF")
    ftype = np.int64 if desc.get("flags") == "int" else bool
    st.append(X=X, Y=Y, Z=5.0, alive=np.array([p[2] for p in P], dtype=ftype), active=np.array([p[3] for p in P], dtype=ftype))
    with np.errstate(all="ignore"):
        tr.update()
    oX, oY, oal, oac = st.X.tolist(), st.Y.tolist(), st.alive.tolist(), st.active.tolist()
    i0, i1, j0, j1 = lim
    ints = [i0, i1, j0, j1] + fl(DT / DX) + [len(P)] + [int(v) for v in M[j0:j1, i0:i1].ravel()]
    problems = []
    hit = False
    for k, p in enumerate(P):
        x, y, al, ac, kind, u, v = p
        nan = not (math.isfinite(u) and math.isfinite(v))
        ints += fl(x) + fl(y) + [int(al), int(ac), int(nan)] + (fl(0.0) + fl(0.0) if nan else fl(u) + fl(v))
        if not (math.isfinite(oX[k]) and math.isfinite(oY[k])):
            problems.append(f"particle {k}: non-finite position after the step")
            ints += fl(0.0) + fl(0.0) + [int(oal[k]), int(oac[k])]
            continue
        ints += fl(oX[k]) + fl(oY[k]) + [int(oal[k]), int(oac[k])]
        # ---- the property text
        with np.errstate(all="ignore"):
            cx, cy = (x + u * DT / DX, y + v * DT / DX) if not nan else (float("nan"), float("nan"))
        cin = in_valid(cx, cy, lim)
        if oal[k] and not al:
            problems.append(f"particle {k}: dead particle became alive")
        if oal[k]:
            if not in_valid(oX[k], oY[k], lim):
                problems.append(f"particle {k}: alive outside the valid region at ({oX[k]}, {oY[k]})")
            elif M[round(oY[k]), round(oX[k])] != 1:
                problems.append(f"particle {k}: alive on land at ({oX[k]}, {oY[k]})")
        if al and not cin and oal[k]:
            problems.append(f"particle {k}: move leaves the grid (candidate {cx},{cy}) but it is still alive")
        if al and cin and not oal[k]:
            problems.append(f"particle {k}: killed although the candidate ({cx},{cy}) is inside the grid")
        if not ac and (oX[k] != x or oY[k] != y):
            problems.append(f"particle {k}: inactive particle moved")
        if cin and M[round(cy), round(cx)] != 1:
            hit = True
            if oX[k] != x or oY[k] != y:
                problems.append(f"particle {k}: move onto land at ({cx},{cy}) not cancelled")
        if not cin:
            hit = True
        if ac and cin and M[round(cy), round(cx)] == 1 and (oX[k] != cx or oY[k] != cy):
            problems.append(f"particle {k}: expected to move to ({cx},{cy}), is at ({oX[k]},{oY[k]})")
    return {"ints": ints, "oracle": "; ".join(problems[:3]) or None,
            "nontrivial": (tuple(desc["mask"]), str(sub), str(P)) if hit else None, "kind": "move",
            "observed": {"X": oX, "Y": oY, "alive": oal, "active": oac}}


def eval_history(desc, grid, M, lim):
    rng = np.random.default_rng(desc["seed"])
    n = desc["n"]
    i0, i1, j0, j1 = lim
    xs, ys = [], []
    for _try in range(200 * n):
        if len(xs) >= n:
            break
        x = rng.uniform(i0 + 0.51, i1 - 1.51); y = rng.uniform(j0 + 0.51, j1 - 1.51)
        if M[round(y), round(x)] == 1:
            xs.append(x); ys.append(y)
    if not xs:  # no sea cell in the valid region of this subgrid: nothing to release
        return {"ints": None, "oracle": None, "nontrivial": None, "kind": "history-all-land", "observed": {}}
    speed = desc["speed"]
    cx, cy = (i0 + i1) / 2, (j0 + j1) / 2

    def func(X, Y, f):  # strong divergent flow + rotation: towards land and the open boundary
        if desc.get("uniform"):
            return np.full(np.shape(X), desc["uniform"][0]), np.full(np.shape(X), desc["uniform"][1])
        return speed * ((X - cx) * 0.5 - (Y - cy)) + f, speed * ((Y - cy) * 0.5 + (X - cx)) - f

    forcing = ti.StubForcing(func=func)
    tr, st, _ = ti.make_tracker(grid, forcing, DT, desc["adv"], diffusion=desc["D"])
    tr.rng = np.random.default_rng(desc["seed"] + 1)
    st.append(X=np.array(xs), Y=np.array(ys), Z=5.0)
    # a few inactive particles
    act = st.active.copy(); act[::5] = False; st["active"] = act
    problems = []
    dead = set()
    hit = False
    released = len(xs)
    for s in range(desc["steps"]):
        X0, Y0, act0 = st.X.copy(), st.Y.copy(), st.active.copy()
        tr.update()
        for k in range(len(st)):
            pid = int(st.pid[k])
            if st.alive[k]:
                if pid in dead:
                    problems.append(f"step {s}: pid {pid} alive again")
                if not in_valid(float(st.X[k]), float(st.Y[k]), lim):
                    problems.append(f"step {s}: pid {pid} alive outside the valid region ({st.X[k]},{st.Y[k]})")
                elif M[round(float(st.Y[k])), round(float(st.X[k]))] != 1:
                    problems.append(f"step {s}: pid {pid} alive on land ({st.X[k]},{st.Y[k]})")
            else:
                dead.add(pid); hit = True
            if not act0[k] and (st.X[k] != X0[k] or st.Y[k] != Y0[k]):
                problems.append(f"step {s}: inactive pid {pid} moved")
        if s % 3 == 2:
            st.compactify()
            # new particles are released while earlier ones are dead and gone: identifiers of the dead stay dead
            k = int(rng.integers(1, 4))
            j = rng.integers(0, len(xs), k)
            st.append(X=np.array(xs)[j], Y=np.array(ys)[j], Z=5.0)
            released += k
        if len(set(int(q) for q in st.pid)) != len(st):
            problems.append(f"step {s}: identifiers not unique: {sorted(int(q) for q in st.pid)}")
    if int(st.npid) != released:
        problems.append(f"{released} particles released, pid counter says {int(st.npid)}")
    return {"ints": None, "oracle": "; ".join(problems[:3]) or None, "nontrivial": ("h", desc["seed"]) if hit else None,
            "kind": "history-" + desc["adv"], "observed": {"alive": int(st.alive.sum()), "dead": len(dead)}}
