"""C15 — depth stays within the water column."""
from __future__ import annotations

import numpy as np

import tracker_impl as ti
from coqbridge import fl

PROP = "C15"
THEOREM_FILE = "Props/C15.v"
CHECKER = "Corr.C15All"
SHARD = 40
RULE = ("Real Tracker.update on a real ROMS.Grid with variable bathymetry and random subgrids, horizontal flow (so that "
        "the cell changes during the step), vertical diffusion (generator injected, draws reproduced by the harness) "
        "and/or vertical advection (stub forcing supplies w), all schemes, start depths incl. 0 and h, displacements up "
        "to just below h; depth after the step compared with the Coq model (which looks the bottom depth up itself, at "
        "the OLD position) and checked against the property text. Non-trivial = case in which a reflection occurs.")
TRUSTED = ["Coq 8.16.1 kernel + vm_compute", "hand-written model coq/Model/Tracker.v (vertical, reflect, depth) tied by this correspondence",
           "numpy Generator.normal reproducible from the seed (draw order U, V, W)"]
ASSUMPTIONS = ["|vertical displacement| < h of the start cell (the property's hypothesis)", "comparison tolerance 1e-9 relative (float rounding is not modelled)"]
DT, DX = 512.0, 1024.0


def gen_cases(ctx):
    rng = ctx.rng
    out = []
    for _ in range(100 if ctx.quick else 1200):
        jmax, imax = rng.randint(7, 12), rng.randint(7, 14)
        out.append({"k": "vert", "imax": imax, "jmax": jmax, "hseed": rng.randrange(10**6),
                    "subgrid": ti.random_subgrid(rng, jmax, imax), "adv": rng.choice(["", "EF", "RK2", "RK4"]),
                    "vertdiff": rng.choice([0.0, 0.0, 1e-4, 1e-2, 0.3]), "vadv": rng.random() < 0.5,
                    "D": rng.choice([0.0, 0.0, 100.0]), "n": rng.randint(2, 10), "seed": rng.randrange(10**6),
                    "u": rng.choice([0.0, 1.0, -1.5, 2.5])})
    # horizontal random walk (with and without an advection scheme) carrying particles into cells of another
    # depth during the step: the column that counts is the one of the cell occupied when the step began
    for q in range(16 if ctx.quick else 160):
        jmax, imax = rng.randint(7, 12), rng.randint(7, 14)
        out.append({"k": "vert", "imax": imax, "jmax": jmax, "hseed": rng.randrange(10**6),
                    "subgrid": ti.random_subgrid(rng, jmax, imax), "adv": ["", "", "EF", "RK4"][q % 4],
                    "vertdiff": rng.choice([0.0, 0.3]), "vadv": True, "D": rng.choice([400.0, 1600.0]),
                    "n": rng.randint(6, 10), "seed": rng.randrange(10**6), "u": rng.choice([0.0, 1.0])})
    for _ in range(12 if ctx.quick else 120):
        jmax, imax = rng.randint(7, 12), rng.randint(7, 14)
        out.append({"k": "history", "imax": imax, "jmax": jmax, "hseed": rng.randrange(10**6), "subgrid": ti.random_subgrid(rng, jmax, imax),
                    "adv": rng.choice(["", "", "EF"]), "vertdiff": rng.choice([0.0, 1e-3]), "vadv": True, "D": 0.0,
                    "n": rng.randint(3, 8), "seed": rng.randrange(10**6), "steps": rng.randint(3, 7), "u": rng.choice([0.0, 0.0, 1.0])})
    import vert_float

    for fdesc in vert_float.gen_vert_cases(rng, 120 if ctx.quick else 3000):
        if fdesc["k"] != "z2s":
            out.append({"k": "fvert", "f": fdesc})
    return out


def eval_history(desc, ctx):
    """several steps with deaths, removal of the dead and releases of the same number of new particles in other
    cells (so that per-particle arrays keep their length while every particle changes slot)"""
    imax, jmax, sub = desc["imax"], desc["jmax"], desc["subgrid"]
    i0, i1, j0, j1 = sub if sub else (1, imax - 1, 1, jmax - 1)
    H = np.round(np.random.default_rng(desc["hseed"]).uniform(5.0, 300.0, size=(jmax, imax)) * 4) / 4
    d = ctx.subdir("c15")
    grid = ti.real_grid(d, "g.nc", imax, jmax, np.ones((jmax, imax), dtype=int), h=H, dx=DX, subgrid=tuple(sub) if sub else None)
    pr = np.random.default_rng(desc["seed"])
    n = desc["n"]

    def newpos(k):
        X = np.round(pr.uniform(i0 + 1.0, i1 - 2.0, k) * 64) / 64
        Y = np.round(pr.uniform(j0 + 1.0, j1 - 2.0, k) * 64) / 64
        hs = np.array([H[round(float(y)), round(float(x))] for x, y in zip(X, Y)])
        return X, Y, hs * pr.uniform(0.0, 1.0, k)
    forcing = ti.StubForcing(U=np.full(n, desc["u"]), V=np.full(n, 0.0), w=np.zeros(n))
    tr, st, _ = ti.make_tracker(grid, forcing, DT, desc["adv"], diffusion=0.0, vertdiff=desc["vertdiff"], vertical_advection=True)
    tr.rng = np.random.default_rng(desc["seed"] + 7)
    shadow = np.random.default_rng(desc["seed"] + 7)
    X, Y, Z = newpos(n)
    st.append(X=X, Y=Y, Z=Z)
    cases, problems, reflected = [], [], False
    for step in range(desc["steps"]):
        if step > 0:  # kill k particles, remove them, release k new ones elsewhere: same count, every slot shifts
            k = int(pr.integers(1, max(2, len(st) // 2 + 1)))
            al = st.alive.copy(); al[pr.choice(len(st), size=min(k, len(st)), replace=False)] = False
            st["alive"] = al
            st.compactify()
            m = n - len(st)
            X, Y, Z = newpos(m)
            st.append(X=X, Y=Y, Z=Z)
        cnt = len(st)
        hs = np.array([H[round(float(y)), round(float(x))] for x, y in zip(st.X, st.Y)])
        w = pr.uniform(-0.45, 0.45, cnt) * hs / DT
        forcing.variables["w"] = w
        forcing.U = np.full(cnt, desc["u"]); forcing.V = np.zeros(cnt)
        X0, Y0, Z0 = st.X.copy(), st.Y.copy(), st.Z.copy()
        tr.update()
        oZ = st.Z.copy()
        Wd = (2 * desc["vertdiff"] / DT) ** 0.5 * shadow.normal(size=cnt) if desc["vertdiff"] > 0 else None
        ints = [i0, i1, j0, j1] + fl(DT) + [cnt]
        for v in H[j0:j1, i0:i1].ravel():
            ints += fl(float(v))
        for q in range(cnt):
            disp = (float(Wd[q]) * DT if Wd is not None else 0.0) + float(w[q]) * DT
            ints += fl(float(X0[q])) + fl(float(Y0[q])) + fl(float(Z0[q]))
            ints += ([1] + fl(float(Wd[q]))) if Wd is not None else [0, 0, 1]
            ints += [1] + fl(float(w[q])) + fl(float(oZ[q]))
            h = float(hs[q])
            if abs(disp) < h and 0 <= Z0[q] <= h:  # the property's hypothesis: start depth within the start cell's column
                z1 = Z0[q] + disp
                reflected |= bool(z1 < 0 or z1 > h)
                want = -z1 if z1 < 0 else z1
                want = 2 * h - want if want > h else want
                if not (-1e-9 <= oZ[q] <= h + 1e-9) or abs(want - oZ[q]) > 1e-9 * (1 + h):
                    problems.append(f"step {step} particle {q} (pid {int(st.pid[q])}): depth {oZ[q]}, bottom of its start cell {h}, reflecting boundaries give {want}")
        cases.append(ints)
    return {"ints": cases, "oracle": "; ".join(problems[:3]) or None, "nontrivial": (desc["seed"], "hist") if reflected else None,
            "kind": "history-adv" + (desc["adv"] or "off"), "observed": {"steps": desc["steps"]}}


def eval_case(desc, ctx):
    if desc["k"] == "fvert":
        # the floating-point model of the vertical step (Model/VerticalFloat.v): the real Tracker.update, bit for bit
        # (leading -9: Corr/C15All -> Corr/VertF), and the invariant 0 <= depth <= h checked EXACTLY on the observed float
        import vert_float

        r = vert_float.eval_vert_case(desc["f"])
        r["ints"] = None if r.get("ints") is None else [-9] + [int(x) for x in r["ints"]]
        return {k_: r[k_] for k_ in ("ints", "oracle", "nontrivial", "kind", "observed")}
    if desc["k"] == "history":
        return eval_history(desc, ctx)
    imax, jmax, sub = desc["imax"], desc["jmax"], desc["subgrid"]
    i0, i1, j0, j1 = sub if sub else (1, imax - 1, 1, jmax - 1)
    hr = np.random.default_rng(desc["hseed"])
    H = np.round(hr.uniform(5.0, 300.0, size=(jmax, imax)) * 4) / 4
    d = ctx.subdir("c15")
    grid = ti.real_grid(d, "g.nc", imax, jmax, np.ones((jmax, imax), dtype=int), h=H, dx=DX, subgrid=tuple(sub) if sub else None)
    pr = np.random.default_rng(desc["seed"])
    n = desc["n"]
    X = np.round(pr.uniform(i0 + 1.0, i1 - 2.0, n) * 64) / 64
    Y = np.round(pr.uniform(j0 + 1.0, j1 - 2.0, n) * 64) / 64
    h_start = np.array([H[round(float(y)), round(float(x))] for x, y in zip(X, Y)])
    Z = h_start * pr.choice([0.0, 1.0, 0.5, 0.03, 0.97, pr.uniform()], size=n)
    vd, vadv = desc["vertdiff"], desc["vadv"]
    # vertical velocity so that |w*dt| stays below about 0.45 h
    w = (pr.uniform(-0.45, 0.45, n) * h_start / DT) if vadv else None
    forcing = ti.StubForcing(U=np.full(n, desc["u"]), V=np.full(n, -desc["u"] / 2), w=w)
    tr, st, _ = ti.make_tracker(grid, forcing, DT, desc["adv"], diffusion=desc["D"], vertdiff=vd, vertical_advection=vadv)
    tr.rng = np.random.default_rng(desc["seed"] + 7)
    shadow = np.random.default_rng(desc["seed"] + 7)
    st.append(X=X, Y=Y, Z=Z)
    Z0 = st.Z.copy()
    X0, Y0 = st.X.copy(), st.Y.copy()
    tr.update()
    oZ = st.Z.copy()
    if desc["D"] > 0:
        shadow.normal(size=n); shadow.normal(size=n)
    Wd = None
    if vd > 0:
        Wd = (2 * vd / DT) ** 0.5 * shadow.normal(size=n)
    ints = [i0, i1, j0, j1] + fl(DT) + [n]
    for v in H[j0:j1, i0:i1].ravel():
        ints += fl(float(v))
    problems, reflected = [], False
    for k in range(n):
        disp = (float(Wd[k]) * DT if Wd is not None else 0.0) + (float(w[k]) * DT if w is not None else 0.0)
        ints += fl(float(X0[k])) + fl(float(Y0[k])) + fl(float(Z0[k]))
        ints += ([1] + fl(float(Wd[k]))) if Wd is not None else [0, 0, 1]
        ints += ([1] + fl(float(w[k]))) if w is not None else [0, 0, 1]
        ints += fl(float(oZ[k]))
        h = float(h_start[k])
        if Wd is None and w is None:
            if oZ[k] != Z0[k]:
                problems.append(f"particle {k}: depth changed ({Z0[k]} -> {oZ[k]}) with vertical movement off")
        elif abs(disp) < h:
            if not (-1e-9 <= oZ[k] <= h * (1 + 1e-12) + 1e-9):
                problems.append(f"particle {k}: depth {oZ[k]} outside [0, {h}] (start cell bottom), start depth {Z0[k]}, displacement {disp}")
            z1 = Z0[k] + disp
            if z1 < 0 or z1 > h:
                reflected = True
            want = -z1 if z1 < 0 else z1
            want = 2 * h - want if want > h else want
            if abs(want - oZ[k]) > 1e-9 * (1 + h):
                problems.append(f"particle {k}: depth {oZ[k]}, reflecting boundaries give {want}")
    return {"ints": ints, "oracle": "; ".join(problems[:3]) or None,
            "nontrivial": (desc["seed"], desc["hseed"]) if reflected else None,
            "kind": f"vd={'on' if vd > 0 else 'off'},va={'on' if vadv else 'off'}", "observed": {"Z": oZ.tolist()}}
