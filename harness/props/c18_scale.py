"""C18 at scale: long forcing archives, late starts, long runs, many particles, many release columns.

The random cases of c18.py live in a directory with one or two forcing files and start at the first frame.  The cases
here put the same question (one simulation, three spellings; an omitted grid section = the forcing module and the
FIRST file of the sorted wildcard expansion) to the real code where a production run lives:

* a forcing ARCHIVE of 13 ... 1500 real ROMS files (two hourly frames each, file k covers [7200 k, 7200 k + 3600] s after
  2000-01-01; the series passes the leap day), matched by `*` or by `????`, with a file of another series that sorts
  before the matches, and a bathymetry update after the first third of the series (h = 100 m, then 60 m; the current is
  sheared in the vertical and tidal, so the grid file decides the trajectories while the particles stay in the domain);
* the simulation starts in the first, a middle, the last file of the series or after its end;
* a run of 1200 steps through 50 files, a release of 40000 rows (60000 particles), 40 extra release columns.

Nothing here imports ladim or c18; c18.py evaluates the descriptions with its ordinary oracle (eval_sim).
"""
from __future__ import annotations

import os
import struct
from pathlib import Path

import numpy as np

import romsfiles as rf

ARCH = "arch"
SPAN = 7200  # seconds of simulation per file
IM, JM, NZ = 12, 10, 5
NMAX = 1500
SENTINELS = (-777777771, -777777773)


def arch_name(k):
    return f"{ARCH}/ocean_his_{k + 1:04d}.nc"


DISTRACTOR = f"{ARCH}/ocean_avg_0001.nc"  # another series in the same directory; sorts before every ocean_his file


def file_list(n):
    return [arch_name(k) for k in range(n)] + [DISTRACTOR]


def file_times(k):
    return [SPAN * k, SPAN * k + 3600]


def n_old(n):
    """files [0, n_old) carry the old bathymetry"""
    return max(1, n // 3)


def _write(path, times, new):
    jj = np.arange(JM)[None, None, :, None]
    kk = np.arange(NZ)[None, :, None, None]
    sign = np.array([1.0, -1.0])[:, None, None, None]  # tidal: the two frames of a file have opposite currents
    u = sign * (0.05 * (kk + 1) + 0.01 * jj) * np.ones((1, 1, 1, IM - 1))
    land = np.ones((JM, IM), dtype=int)
    land[5:7, 6] = 0
    land[2, 7:9] = 0
    rf.write_roms(path, imax=IM, jmax=JM, N=NZ, times=times, u=u, v=0.003, h=60.0 if new else 100.0, mask=land)


def _first_times(path):
    from netCDF4 import Dataset

    with Dataset(path) as nc:
        return [float(x) for x in nc.variables["ocean_time"][:]]


def build_archive(master: Path):
    """master/arch_all/{old,new}_kkkk.nc for k < NMAX: every file is a real netCDF4 file with its own times.  The files
    are produced from two templates (written by romsfiles.write_roms) by overwriting the two time values in place; the
    result is read back with netCDF4, and if that does not give the intended times every file is written by write_roms."""
    a = master / "arch_all"
    if (a / "done").exists():
        return a
    a.mkdir(exist_ok=True)
    ok = True
    for tag, new in (("old", False), ("new", True)):
        tmpl = a / f"tmpl_{tag}.nc"
        _write(tmpl, list(SENTINELS), new)
        raw = bytearray(tmpl.read_bytes())
        pat = [struct.pack("<d", float(s)) for s in SENTINELS]
        if any(raw.count(p) != 1 for p in pat):
            ok = False
            break
        off = [raw.index(p) for p in pat]
        for k in range(NMAX):
            if (tag == "old") and k >= n_old(NMAX):
                break
            for o, t in zip(off, file_times(k)):
                raw[o:o + 8] = struct.pack("<d", float(t))
            (a / f"{tag}_{k:04d}.nc").write_bytes(raw)
        last = min(NMAX, n_old(NMAX)) - 1 if tag == "old" else NMAX - 1
        for k in sorted({0, 1, last // 2, last}):
            if _first_times(a / f"{tag}_{k:04d}.nc") != [float(t) for t in file_times(k)]:
                ok = False
    if not ok:  # slow and plain
        for k in range(NMAX):
            _write(a / f"new_{k:04d}.nc", file_times(k), True)
            if k < n_old(NMAX):
                _write(a / f"old_{k:04d}.nc", file_times(k), False)
    (a / "done").touch()
    return a


def populate(d: Path, master: Path, n: int):
    """the archive of n files in the case directory (hard links)"""
    a = build_archive(master)
    (d / ARCH).mkdir(exist_ok=True)
    for k in range(n):
        dst = d / arch_name(k)
        if not dst.exists():
            os.link(a / f"{'old' if k < n_old(n) else 'new'}_{k:04d}.nc", dst)
    if not (d / DISTRACTOR).exists():
        os.link(a / "old_0000.nc", d / DISTRACTOR)


# ---- descriptions ----------------------------------------------------------------------------------
OUT_ATTR = {"pid": [["long_name", "particle thing"]], "X": [["units", "m"]], "Y": [["units", "m"]],
            "Z": [["standard_name", "depth_below_surface"], ["positive", "down"]]}


def base_S(pattern, start, nsteps, dt, adv, legacy, spell_bits, start_native):
    iso = rf.iso(start)
    S = {"start": {"$dt": iso} if start_native else iso, "stop": {"$dt": rf.iso(start + nsteps * dt)},
         "dt": [dt, "s"] if spell_bits & 1 else dt, "reference": None, "module": ["roms", bool(legacy)],
         "forcing_file": pattern, "grid_file": None, "subgrid": None, "extra_forcing": None, "advection": adv,
         "diffusion": None if spell_bits & 2 else 0.0, "release_file": "release.rls",
         "names": ["mult", "release_time", "X", "Y", "Z"], "continuous": False, "frequency": None,
         "converters": [["release_time", "time"]], "particle_vars": ["release_time"], "ibm_vars": [],
         "ibm_module": None, "ibm_opts": [], "out_file": "out.nc", "out_period": [3 * dt, "s"], "out_format": None,
         "out_instance": [{"name": v, "fmt": "i4" if v == "pid" else "f4", "attrs": [list(a) for a in OUT_ATTR[v]]}
                          for v in ("pid", "X", "Y", "Z")],
         "out_particle": [{"name": "release_time", "fmt": "f8", "attrs": [["long_name", "particle thing"]]}],
         "spell": {"files": bool(spell_bits & 4), "ibm_legacy": False, "rtype": bool(spell_bits & 8),
                   "min": bool(spell_bits & 16), "version": bool(spell_bits & 32)}}
    return S


STAR, QUEST = f"{ARCH}/ocean_his_*.nc", f"{ARCH}/ocean_his_????.nc"
FEW = ["v1", "v2yaml", "v2toml", "v2 with the defaulted grid written out"]
THREE = ["v1", "v2yaml", "v2 with the defaulted grid written out"]


def scale_cases():
    out = []

    def add(label, n, pattern, k, *, run=False, nsteps=9, dt=600, adv="RK4", bits=0, coq=False, rel_n=8, spellings=None,
            mod=None, omit=(True, True)):
        start = SPAN * k + 600
        S = base_S(pattern, start, nsteps, dt, adv, legacy=len(out) % 2 == 0, spell_bits=bits, start_native=len(out) % 3 != 0)
        if mod:
            mod(S)
        out.append({"k": "scale", "id": 9000 + len(out), "label": f"{label}: {n} forcing files matched by {pattern!r}, start "
                    f"{rf.iso(start)} = " + (f"in file {k + 1} of {n}" if k < n else "after the last file"),
                    "n": n, "S": S, "run": run, "omit": list(omit), "rel_t0": start, "rel_n": rel_n, "rel_zfac": 10.0,
                    "coq": coq, "spellings": spellings})

    # -- where the grid comes from, dictionary level (configure, init_module): many files, every part of the series
    add("archive", 1000, STAR, 0, bits=5)
    add("archive", 1000, QUEST, 618, bits=34, omit=(False, True))
    add("archive", 1024, STAR, 1023, bits=24)
    add("archive", 1025, STAR, 512, bits=3, omit=(True, False))
    add("archive", 1025, QUEST, 1024, bits=44)
    add("archive", 1500, STAR, 1200, bits=17)
    add("archive", 1500, QUEST, 1500, bits=62)
    # -- the same, end to end (ladim.main.main on every spelling): the run starts late in the series
    add("archive run", 13, STAR, 9, run=True, bits=1, coq=True)
    add("archive run", 40, QUEST, 33, run=True, adv="EF", bits=46, coq=True)
    add("archive run", 100, STAR, 99, run=True, nsteps=5, adv="RK2", bits=20, spellings=THREE)
    # -- a long run: 1200 steps through 50 of 64 files
    add("long run of 1200 steps", 64, STAR, 3, run=True, nsteps=1200, dt=300, bits=9, spellings=THREE,
        mod=lambda S: S.update(out_period=[100 * 300, "s"]))
    # -- many particles: 40000 release rows, multiplicity 1 or 2
    add("release of 40000 rows", 13, QUEST, 6, run=True, nsteps=6, bits=50, rel_n=40000, spellings=THREE)

    # -- many release columns: 40 extra columns, all particle variables, half of them integers, all written
    def many_columns(S):
        extra = [f"q{j:02d}" for j in range(40)]
        S["names"] = S["names"] + extra
        S["converters"] = S["converters"] + [[q, "int"] for q in extra[::2]]
        S["particle_vars"] = ["release_time"] + extra
        S["out_particle"] = S["out_particle"] + [{"name": q, "fmt": "f4", "attrs": [["long_name", "particle thing"]]} for q in extra]

    add("40 extra release columns, 1025 rows", 13, STAR, 11, run=True, nsteps=5, bits=7, rel_n=1025, mod=many_columns, coq=True,
        spellings=FEW)
    return out


def release_table(S, t0, n, zfac):
    """n release rows that fit the column names of S (vectorised), as a text"""
    import pandas as pd

    k = np.arange(n)
    times = np.array([rf.iso(t0 + 600 * j) for j in range(4)])
    conv = dict(tuple(c) for c in S["converters"])
    cols = {}
    for j, name in enumerate(S["names"]):
        if name == "release_time":
            v = times[(4 * k) // n]
        elif name == "X":
            v = 2.5 + (k % 160) / 64
        elif name == "Y":
            v = 2.5 + ((k // 160) % 288) / 64
        elif name == "Z":
            v = zfac * (0.5 + (k % 16) * 0.25)
        elif name == "mult":
            v = 1 + k % 2
        elif conv.get(name) == "int":
            v = (k + j) % 9
        else:
            v = 0.25 * ((k + j) % 9)
        cols[f"c{j}"] = v
    return pd.DataFrame(cols).to_csv(sep=" ", header=False, index=False)
