"""C16 — lon/lat <-> grid coordinates: sample2D, bilin_inv, Grid.xy2ll / ll2xy, lon/lat release and output.

Streams (DESIGN.md section 4): exact = dyadic inputs, model and implementation must agree as rationals;
general = arbitrary floats, 1e-9 relative on one evaluation / one Newton pass, 1e-6 on a whole run.
"""
from __future__ import annotations

import math
import random

import numpy as np

import c16_order
import c16_scale
import romsfiles as rf
from coqbridge import fl

PROP = "C16"
THEOREM_FILE = "Props/C16.v"
CHECKER = "Corr.C16"
SHARD = 12
RULE = ("s2d: sample2D on generated fields (incl. exactly bilinear ones), masks (0/1, all-masked cells, odd values, wrong shape), "
        "positions inside / on the edges / in (-1,0) / beyond, outside_value in {None, 0.0, -1.0, 999.0}, scalar and array calls; "
        "binv: bilin_inv trajectories (result for maxiter = 0,1,2,...) per point on affine-dyadic (exact), polar-stereographic, "
        "rotated lat/lon (0.8-20 km) and strongly warped grids, one Newton pass compared at a time plus whole runs; "
        "grid: real ROMS.Grid from a synthetic file with random legal subgrids (i0 != j0), xy2ll / ll2xy / lonlat; "
        "gridbig: larger generated conformal grids, oracle only; e2e: ladim.main.main with lon/lat release (some rows released later) and lon/lat output, "
        "numrec in {0,1,2} (up to 6 files), sparse and dense layout, with and without lon/lat state variables, every record of every file checked. "
        "scale (fixed, always first, oracle only; c16_scale.py): Grid.xy2ll / ll2xy on 1000 ... 130000 positions in one call (sizes straddling powers of two "
        "and round numbers; a big release at one site plus one / a few reference rows near the corners, first / last / mid-table / scattered; blocks; uniform), "
        "every row checked against the solver tolerance and the round-trip bound; bit-exact recovery on dyadic affine grids; sample2D on up to 130000 "
        "positions in one call; ladim.main.main with lon/lat release tables of 5000 / 20000 rows (> 100000 instances written) and a 1200-step run, every instance checked. "
        "order (fixed, after the scale cases, oracle only; c16_order.py): one lon/lat release table on a polar / rotated / dyadic affine grid run through ladim.main.main "
        "in 8-9 arrangements each (order of the release columns incl. lat before lon and where release_time / mult / Z stand, header line vs names, rows of equal "
        "release time permuted, mult = 2 on a row, spellings of times and numbers, order of the output variables, of the YAML sections and keys, of the variables "
        "in the NetCDF file, grid in a file of its own): the release / output clauses decided per arrangement, and every row's trajectory equal to that of the usual one. "
        "Non-trivial = distinct (kind, grid type, outcome class) x position class that reaches interpolation or the Newton update.")
TRUSTED = ["Coq 8.16.1 kernel + vm_compute", "hand-written model coq/Model/Geo.v tied by this correspondence",
           "numpy elementwise float64 arithmetic = the scalar formula per particle (glue)", "netCDF4 round trip of float64 coordinate arrays"]
ASSUMPTIONS = ["float rounding not modelled: exact stream bit-for-bit, general stream 1e-9 (single evaluation / Newton pass) and 1e-6 (whole iteration)",
               "one particle per call in the model; np.any(outside) / np.all(H < tol) couple the particles of one call (checked by the oracle on array calls with outside_value given)",
               "bilin_inv clips its cell index to [0, n-2] (edge cell extrapolates); an IndexError from it never agrees with the model",
               "whole runs of the iteration are evaluated in Coq only on the exact stream and when at most one Newton update is made "
               "(exact rationals grow ~6x per pass); otherwise every pass is compared separately (DESIGN.md section 4)",
               "points whose convergence-test value is within a factor 2 of tol are skipped and counted",
               "round-trip tolerance in cells = 1.5*sqrt(tol)/sigma_min, tol = 1e-7 deg^2 (solver tolerance on the squared lon/lat residual), "
               "sigma_min = smallest singular value over the grid of the cell Jacobian d(lon,lat)/d(x,y) in degrees per cell",
               "Newton convergence on arbitrary conformal grids is not proved (C16_roundtrip_affine_partial, C16_release_position_partial); covered by generated grids only"]

TOL = 1.0e-7
OUTVALS = [None, 0.0, -1.0, 999.0]


# ------------------------------------------------------------------------------------------------
# generators of coordinate arrays (rows = j = Y direction, columns = i = X direction)
# ------------------------------------------------------------------------------------------------
def polar_grid(nr, nc, rng, res_km=None):
    dx = res_km if res_km else math.exp(rng.uniform(math.log(0.1), math.log(20.0)))
    dist = rng.uniform(1100.0, 3800.0)  # km from the pole to the lower edge: latitude ~ 55..80
    yp = nr + dist / dx
    xp = rng.uniform(-0.5, 1.5) * nc + rng.uniform(-1, 1) * 0.3 * dist / dx
    ylon = rng.uniform(-40.0, 70.0)
    scale = 6371.0 * (1 + math.sin(math.radians(60.0)))
    j, i = np.meshgrid(np.arange(nr, dtype=float), np.arange(nc, dtype=float), indexing="ij")
    rho = dx * np.hypot(i - xp, j - yp)
    lat = 90.0 - 2.0 * np.degrees(np.arctan(rho / scale))
    lon = ylon + np.degrees(np.arctan2(i - xp, yp - j))
    return lon, lat, dx


def rotated_grid(nr, nc, rng, res_km=None):
    dx = res_km if res_km else math.exp(rng.uniform(math.log(0.1), math.log(20.0)))
    res = dx / 111.19
    plon, plat = rng.uniform(-30, 40), rng.uniform(25.0, 60.0)  # tilt of the rotated equator
    r0, c0 = rng.uniform(-8.0, 8.0), rng.uniform(-10.0, 10.0)
    j, i = np.meshgrid(np.arange(nr, dtype=float), np.arange(nc, dtype=float), indexing="ij")
    rlon, rlat = np.radians(c0 + res * i), np.radians(r0 + res * j)
    x, y, z = np.cos(rlat) * np.cos(rlon), np.cos(rlat) * np.sin(rlon), np.sin(rlat)
    t = math.radians(plat)  # rotate about the y axis
    x2, z2 = x * math.cos(t) - z * math.sin(t), x * math.sin(t) + z * math.cos(t)
    lat = np.degrees(np.arcsin(np.clip(z2, -1, 1)))
    lon = plon + np.degrees(np.arctan2(y, x2))
    return lon, lat, dx


def pow2(x):
    m, _ = math.frexp(abs(x))
    return x != 0 and m == 0.5


def affine_grid(nr, nc, rng):
    """dyadic affine lon/lat with |det| a power of two: every float operation of the code is exact"""
    while True:
        a1, a2, b1, b2 = (rng.randint(-6, 6) / rng.choice([4, 8, 16]) for _ in range(4))
        det = a1 * b2 - a2 * b1
        if pow2(det):
            break
    a0, b0 = rng.randint(-40, 40) / 4, rng.randint(200, 280) / 4
    j, i = np.meshgrid(np.arange(nr, dtype=float), np.arange(nc, dtype=float), indexing="ij")
    return a0 + a1 * j + a2 * i, b0 + b1 * j + b2 * i, None


def warped_grid(nr, nc, rng):
    lon, lat, _ = polar_grid(nr, nc, rng, res_km=rng.uniform(5, 20))
    j, i = np.meshgrid(np.arange(nr, dtype=float), np.arange(nc, dtype=float), indexing="ij")
    s = rng.uniform(0.02, 0.25)
    dlon, dlat = abs(lon[0, 1] - lon[0, 0]) + abs(lon[1, 0] - lon[0, 0]), abs(lat[1, 0] - lat[0, 0]) + abs(lat[0, 1] - lat[0, 0])
    lon = lon + s * dlon * (i * j / max(nr, nc) + rng.uniform(-1, 1) * i * i / nc)
    lat = lat + s * dlat * (rng.uniform(-1, 1) * i * j / max(nr, nc) + j * j / nr)
    return lon, lat, None


GRIDS = {"polar": polar_grid, "rotated": rotated_grid, "affine": affine_grid, "warped": warped_grid}


# ------------------------------------------------------------------------------------------------
# independent readings used by the oracle
# ------------------------------------------------------------------------------------------------
def interp(A, X, Y):
    """bilinear interpolation of A (rows = Y) at (X, Y): first along X on the two rows, then along Y"""
    i, j = int(math.floor(X)), int(math.floor(Y))
    i, j = min(max(i, 0), A.shape[1] - 2), min(max(j, 0), A.shape[0] - 2)
    tx, ty = X - i, Y - j
    lo = float(A[j, i]) + tx * (float(A[j, i + 1]) - float(A[j, i]))
    hi = float(A[j + 1, i]) + tx * (float(A[j + 1, i + 1]) - float(A[j + 1, i]))
    return lo + ty * (hi - lo)


def sigma_min(lon, lat):
    """smallest singular value of d(lon,lat)/d(x,y) over all cell edges [deg per cell]"""
    lx, ly = np.diff(lon, axis=1)[:-1, :], np.diff(lon, axis=0)[:, :-1]
    ax, ay = np.diff(lat, axis=1)[:-1, :], np.diff(lat, axis=0)[:, :-1]
    s = lx * lx + ly * ly + ax * ax + ay * ay
    d = np.abs(lx * ay - ly * ax)
    smin2 = 0.5 * (s - np.sqrt(np.maximum(s * s - 4 * d * d, 0.0)))
    return float(np.sqrt(max(np.min(smin2), 0.0)))


def rt_bound(lon, lat):
    sm = sigma_min(lon, lat)
    return 1.5 * math.sqrt(TOL) / sm if sm > 0 else float("inf")


def close(a, b, tol=1e-9):
    return abs(a - b) <= tol * (1 + abs(a) + abs(b))


def arr_ints(A):
    out = []
    for v in np.asarray(A, dtype=float).ravel().tolist():
        out += fl(v)
    return out


# ------------------------------------------------------------------------------------------------
def gen_cases(ctx):
    rng = ctx.rng
    q = ctx.quick
    # fixed cases of realistic size first (they draw nothing from ctx.rng: the generated cases below are unchanged)
    out = c16_scale.gen_scale_cases(q)
    # arrangements of the inputs that must not matter (fixed, right after the scale cases; c16_order.py)
    out += c16_order.gen_order_cases(q)
    for k in range(70 if q else 700):
        out.append({"k": "s2d", "stream": "exact" if k % 2 == 0 else "general", "seed": rng.getrandbits(48)})
    # fixed seeds with the field stored in a narrow integer type (applies when the drawn field is not the bilinear one)
    for k in range(12 if q else 60):
        out.append({"k": "s2d", "stream": "exact", "seed": 7000 + k, "ftype": ["u1", "i2", "i2", "u1"][k % 4]})
    kinds = ["affine", "polar", "rotated", "polar", "rotated", "warped"]
    for k in range(48 if q else 480):
        out.append({"k": "binv", "grid": kinds[k % len(kinds)], "seed": rng.getrandbits(48)})
    gk = ["affine", "polar", "rotated"]
    for k in range(24 if q else 200):
        out.append({"k": "grid", "grid": gk[k % 3], "seed": rng.getrandbits(48)})
    for k in range(30 if q else 400):
        out.append({"k": "gridbig", "grid": ["polar", "rotated"][k % 2], "seed": rng.getrandbits(48)})
    # grids of the size of operational coastal models in one direction (1300-1900 cells at 0.8 km, a narrow strip to
    # keep the file small): the corners of the valid region lie many hundreds of cells from the solver's first guess
    for k in range(4 if q else 24):
        out.append({"k": "gridbig", "grid": ["polar", "rotated"][k % 2], "seed": rng.getrandbits(48), "long": True, "whole": k % 4 < 2})
    # end to end: single file / one / two records per file (>= 3 files), both layouts, with and without lon/lat state variables
    combos = [(2, "sparse", False), (1, "sparse", True), (2, "dense", False), (0, "sparse", True), (1, "dense", True),
              (2, "sparse", True), (0, "dense", False), (1, "sparse", False), (2, "dense", True), (0, "sparse", False),
              (1, "dense", False), (0, "dense", True)]
    for k in range(4 if q else 48):
        nr_, lay, ws = combos[k % len(combos)]
        out.append({"k": "e2e", "grid": ["polar", "rotated", "affine"][k % 3], "numrec": nr_, "layout": lay, "with_state": ws,
                    "seed": rng.getrandbits(48)})
    return out


def eval_case(desc, ctx):
    return {"s2d": eval_s2d, "binv": eval_binv, "grid": eval_grid, "gridbig": eval_gridbig, "e2e": eval_e2e,
            "polar_explicit": eval_polar_explicit, "binv_explicit": eval_binv, "scale": c16_scale.eval_scale,
            "order": c16_order.eval_order}[desc["k"]](desc, ctx)


# ------------------------------------------------------------------------------------------------
# (i) sample2D
# ------------------------------------------------------------------------------------------------
def eval_s2d(desc, ctx):
    from ladim.sample import sample2D

    rng = random.Random(desc["seed"])
    exact = desc["stream"] == "exact"
    tiny = rng.random() < 0.06
    nr, nc = (rng.choice([1, 2]), rng.choice([1, 2, 3])) if tiny else (rng.randint(2, 6), rng.randint(2, 6))
    j, i = np.meshgrid(np.arange(nr, dtype=float), np.arange(nc, dtype=float), indexing="ij")
    bil = None
    ft = rng.random()
    if ft < 0.35:  # exactly bilinear field
        if exact:
            bil = [rng.randint(-20, 20) / 4 for _ in range(3)] + [rng.randint(-8, 8) / 4]
        else:
            bil = [rng.uniform(-30, 30), rng.uniform(-5, 5), rng.uniform(-5, 5), rng.uniform(-1, 1)]
        F = bil[0] + bil[1] * i + bil[2] * j + bil[3] * i * j
    elif exact:
        F = np.array([[float(rng.randint(-64, 64)) / rng.choice([1, 2, 4]) for _ in range(nc)] for _ in range(nr)])
    else:
        F = np.array([[rng.uniform(-50, 50) for _ in range(nc)] for _ in range(nr)])
    # mask
    mt = rng.random()
    mask, mkind = None, "nomask"
    if mt < 0.5:
        pland = rng.choice([0.2, 0.5, 0.8])
        mask = np.array([[0.0 if rng.random() < pland else 1.0 for _ in range(nc)] for _ in range(nr)])
        mkind = "mask01"
        if rng.random() < 0.3:
            mask = mask.astype(int)
    elif mt < 0.56:
        mask = np.ones((nr, nc))
        mkind = "maskones"
    elif mt < 0.62:
        mask = np.array([[rng.choice([0.0, 1.0, 2.0, -1.0, 0.5]) for _ in range(nc)] for _ in range(nr)])
        mkind = "maskodd"
    elif mt < 0.66:
        mask = np.ones((nr + rng.choice([0, 1]), nc + 1))
        mkind = "maskshape"
    undef = rng.choice([0.0, -999.0, 7.5, 0.0])
    outv = rng.choice(OUTVALS)
    # positions
    pts = []
    for _ in range(rng.randint(5, 8)):
        c = rng.random()
        if c < 0.5:
            x, y = rng.uniform(0, max(nc - 1, 0.5)), rng.uniform(0, max(nr - 1, 0.5))
        elif c < 0.62:  # just below zero: truncation gives index 0 but the point is outside
            x, y = rng.uniform(-0.99, -0.01), rng.uniform(0, max(nr - 1, 0.5))
            if rng.random() < 0.5:
                x, y = rng.uniform(0, max(nc - 1, 0.5)), rng.uniform(-0.99, -0.01)
        elif c < 0.74:  # on a node / an edge, including the last row and column
            x, y = float(rng.randint(0, nc - 1)), float(rng.randint(0, nr - 1))
            if rng.random() < 0.5:
                x = rng.uniform(0, max(nc - 1, 0.5))
        elif c < 0.84:  # in the last half cell / just beyond the last node
            x, y = nc - 1 + rng.uniform(-0.5, 0.5), rng.uniform(0, max(nr - 1, 0.5))
            if rng.random() < 0.5:
                x, y = rng.uniform(0, max(nc - 1, 0.5)), nr - 1 + rng.uniform(-0.5, 0.5)
        else:
            x, y = rng.uniform(-3, nc + 2), rng.uniform(-3, nr + 2)
        if exact:
            x, y = round(x * 8) / 8, round(y * 8) / 8
        pts.append((x, y))
    if mkind == "mask01" and min(nr, nc) >= 2:
        # positions hugging a fully masked side or corner of a cell: the unmasked nodes carry a tiny but
        # non-zero weight (a particle along a coastline) and are still the only ones that count
        e1, e2 = 2.0 ** -rng.randint(21, 40), 2.0 ** -rng.randint(11, 20)
        cands = []
        for jj in range(nr - 1):
            for ii in range(nc - 1):
                for tx, ty in ((e1, 0.375), (1 - e1, 0.625), (0.25, e1), (0.75, 1 - e1), (e2, e2), (1 - e2, e2), (e2, 1 - e2), (1 - e2, 1 - e2)):
                    w = {(jj, ii): (1 - tx) * (1 - ty), (jj + 1, ii): (1 - tx) * ty, (jj, ii + 1): tx * (1 - ty), (jj + 1, ii + 1): tx * ty}
                    sw = sum(v for (a, b), v in w.items() if mask[a, b] > 0)
                    if 0 < sw < 1e-6:
                        cands.append((ii + tx, jj + ty))
        rng.shuffle(cands)
        pts += cands[:2] if cands else [(rng.randrange(nc - 1) + e1, rng.randrange(nr - 1) + 1 - e1)]
    ftype = "f8"
    forced = desc.get("ftype")
    if forced and bil is None:
        F = np.round(F)
    if exact and bil is None and (forced or rng.random() < 0.5):
        F = np.round(F)
        # whole-number fields as they come out of files: narrow integer types (differences of neighbouring nodes do not
        # fit the type: uint8 around 128, int16 near its limits) and float32
        ftype = rng.choice(["u1", "i2", "i4", "f4", "i8"])
        ftype = forced or ftype
        if ftype == "u1":
            F = (F - F.min() + (255 - (F.max() - F.min())) // 2).astype("u1") if F.max() - F.min() <= 255 else F
        elif ftype == "i2":
            F = (F * (32000 // max(1, int(np.abs(F).max())))).astype("i2")
        else:
            F = F.astype(ftype)
    mode = 0 if (exact and mkind in ("nomask", "maskones", "maskshape")) else 1
    ints = [1, mode, nr, nc] + arr_ints(F)
    if mask is None:
        ints += [0]
    else:
        ints += [1, mask.shape[0], mask.shape[1]] + arr_ints(mask)
    ints += fl(undef) + ([0, 0, 1] if outv is None else [1] + fl(outv)) + [len(pts)]
    problems, obs, classes = [], [], set()
    kw = dict(mask=mask, undef_value=undef, outside_value=outv)
    vals = []
    for n, (x, y) in enumerate(pts):
        scalar = n % 3 == 2
        try:
            r = sample2D(F, x, y, **kw) if scalar else sample2D(F, np.array([x]), np.array([y]), **kw)
            v = float(np.asarray(r).ravel()[0])
            if np.asarray(r).size != 1 or not math.isfinite(v):
                raise RuntimeError(f"result {r!r}")
            o = (0, v)
        except ValueError as e:
            o = (2, 0.0) if "mask" in str(e) else (1, 0.0)
        except IndexError:
            o = (3, 0.0)
        obs.append(o)
        vals.append(o[1] if o[0] == 0 else None)
        ints += fl(x) + fl(y) + [o[0]] + fl(o[1])
        # ---- oracle: the property text --------------------------------------------------------
        outside = x < 0 or x >= nc - 1 or y < 0 or y >= nr - 1
        if mkind == "maskshape" or min(nr, nc) < 2:
            classes.add(("degenerate", mkind, o[0]))
            continue  # impossible input: refused; nothing promised
        if outside:
            classes.add(("outside", outv, x < 0 and x > -1 or (y < 0 and y > -1)))
            if outv is None:
                if o[0] != 1:
                    problems.append(f"point ({x},{y}) outside a {nr}x{nc} field and no outside_value: expected ValueError, got {o}")
            elif o != (0, outv):
                problems.append(f"point ({x},{y}) outside a {nr}x{nc} field: outside_value={outv} requested, got {o}")
            continue
        if o[0] != 0:
            problems.append(f"inside point ({x},{y}) of a {nr}x{nc} field gave outcome {o}")
            continue
        v = o[1]
        ii, jj = int(math.floor(x)), int(math.floor(y))
        tx, ty = x - ii, y - jj
        nodes = [(jj, ii, (1 - tx) * (1 - ty)), (jj + 1, ii, (1 - tx) * ty), (jj, ii + 1, tx * (1 - ty)), (jj + 1, ii + 1, tx * ty)]
        if mkind in ("nomask", "maskones"):
            want = interp(F, x, y)
            cs = [float(F[a, b]) for a, b, _ in nodes]
            if not close(v, want):
                problems.append(f"sample at ({x},{y}) = {v}, bilinear interpolation of the corners = {want}")
            if not (min(cs) - 1e-9 * (1 + abs(min(cs))) <= v <= max(cs) + 1e-9 * (1 + abs(max(cs)))):
                problems.append(f"sample at ({x},{y}) = {v} is not between the corner values {cs}")
            if bil is not None and not close(v, bil[0] + bil[1] * x + bil[2] * y + bil[3] * x * y, 1e-9 if not exact else 0.0):
                problems.append(f"bilinear field {bil}: sample at ({x},{y}) = {v}, field value {bil[0] + bil[1] * x + bil[2] * y + bil[3] * x * y}")
            classes.add(("inside", mkind, bil is not None, tx == 0 or ty == 0))
        elif mkind == "mask01":
            sw = sum(w for a, b, w in nodes if mask[a, b] > 0)
            nunm = sum(1 for a, b, w in nodes if mask[a, b] > 0)
            if sw == 0:
                if v != undef:
                    problems.append(f"all nodes with weight masked at ({x},{y}): expected undef_value {undef}, got {v}")
            else:
                want = sum(w * float(F[a, b]) for a, b, w in nodes if mask[a, b] > 0) / sw
                if not close(v, want):
                    problems.append(f"masked sample at ({x},{y}) = {v}, mean over unmasked nodes = {want}")
                # the values at masked nodes are irrelevant
                F2 = F.copy()
                F2[mask == 0] = 1.0e6 if F2.dtype.kind == "f" else np.iinfo(F2.dtype).max
                v2 = float(np.asarray(sample2D(F2, np.array([x]), np.array([y]), **kw)).ravel()[0])
                if not close(v, v2):
                    problems.append(f"masked sample at ({x},{y}) changes from {v} to {v2} when masked nodes change")
            classes.add(("inside-mask", nunm, sw == 0))
        else:
            classes.add(("inside-oddmask",))
    # array call: the same values element by element (outside_value given, so no exception couples the points)
    if outv is not None and mkind != "maskshape" and min(nr, nc) >= 2 and all(o[0] == 0 for o in obs):
        X, Y = np.array([p[0] for p in pts]), np.array([p[1] for p in pts])
        r = np.asarray(sample2D(F, X, Y, **kw), dtype=float)
        if r.shape != X.shape or any(a != b for a, b in zip(r.tolist(), vals)):
            problems.append(f"array call differs from the per-point calls: {r.tolist()} vs {vals}")
    return {"ints": ints, "oracle": "; ".join(problems[:3]) or None, "nontrivial": ("s2d", desc["stream"], tuple(sorted(classes, key=repr))) if classes else None,
            "kind": f"s2d-{desc['stream']}-{mkind}", "observed": {"shape": [nr, nc], "outside_value": outv, "points": pts, "results": obs}}


# ------------------------------------------------------------------------------------------------
# (ii) bilin_inv
# ------------------------------------------------------------------------------------------------
def est(A, x, y):
    """bilinear estimate with x along the FIRST index (as bilin_inv uses its arrays); None outside"""
    i, j = int(x), int(y)
    if not (0 <= i and i + 1 < A.shape[0] and 0 <= j and j + 1 < A.shape[1]):
        return None
    return interp(A, y, x)


def trajectory(bilin_inv, f, g, F, G, tol, kmax=7):
    """results of the real function for maxiter = 0, 1, 2, ...: list of (kind, x, y)"""
    st = []
    for k in range(kmax + 1):
        try:
            x, y = bilin_inv(np.array([f]), np.array([g]), F, G, maxiter=k, tol=tol)
            x, y = float(x[0]), float(y[0])
            s = (0, x, y) if (math.isfinite(x) and math.isfinite(y) and abs(x) < 1e6 and abs(y) < 1e6) else (2, 0.0, 0.0)
        except IndexError:
            s = (1, 0.0, 0.0)
        st.append(s)
        if s[0] != 0 or (k > 0 and st[-2] == s):
            break
    return st


def near_tol(st, f, g, F, G, tol):
    for s in st:
        if s[0] == 0:
            a, b = est(F, s[1], s[2]), est(G, s[1], s[2])
            if a is not None and b is not None:
                H = (a - f) ** 2 + (b - g) ** 2
                if 0.5 * tol <= H <= 2.0 * tol:
                    return True
    return False


def eval_binv(desc, ctx):
    from ladim.sample import bilin_inv

    explicit = desc["k"] == "binv_explicit"
    if explicit:  # corpus: arrays and pre-images written out
        rng = random.Random(0)
        gt, dx, tol = desc.get("grid", "explicit"), None, desc.get("tol", TOL)
        F, G = np.array(desc["F"], dtype=float), np.array(desc["G"], dtype=float)
        nr, nc = F.shape
        targets = [tuple(t) for t in desc["preimages"]]
    else:
        rng = random.Random(desc["seed"])
        gt = desc["grid"]
        nr, nc = rng.randint(3, 7), rng.randint(3, 7)
        F, G, dx = GRIDS[gt](nr, nc, rng)
        tol = TOL if rng.random() < 0.8 else rng.choice([1e-5, 1e-9, 2.0 ** -20])
        targets = [None] * rng.randint(3, 5)
    exact = gt == "affine"
    ints = [2, 0 if exact else 1, nr, nc] + arr_ints(F) + arr_ints(G) + fl(tol)
    bound = rt_bound(F, G) * math.sqrt(tol / TOL)
    pts, problems, classes, skipped, summary = [], [], set(), 0, []
    for tg in targets:
        c = rng.random()
        if tg is not None:
            xs, ys = tg
        elif c < 0.85:
            xs, ys = rng.uniform(0, nr - 1.001), rng.uniform(0, nc - 1.001)
        else:  # pre-image outside the arrays
            xs, ys = rng.uniform(-2, nr + 1), rng.uniform(-2, nc + 1)
        if exact:
            xs, ys = round(xs * 8) / 8, round(ys * 8) / 8
        inside = 0 <= xs < nr - 1 and 0 <= ys < nc - 1
        if inside:
            f, g = interp(F, ys, xs), interp(G, ys, xs)
        else:  # linear extrapolation from the nearest cell
            f, g = interp(F, ys, xs), interp(G, ys, xs)
        st = trajectory(bilin_inv, f, g, F, G, tol)
        if not exact and near_tol(st, f, g, F, G, tol):
            skipped += 1
            continue
        broke = len(st) >= 2 and st[-1][0] == 0 and st[-1] == st[-2]
        nupd = len(st) - 2 if broke else len(st) - 1
        # the call with default arguments (maxiter=7, and tol when it is the default)
        try:
            if tol == TOL:
                x, y = bilin_inv(np.array([f]), np.array([g]), F, G)
            else:
                x, y = bilin_inv(np.array([f]), np.array([g]), F, G, tol=tol)
            x, y = float(x[0]), float(y[0])
            fin = (0, x, y) if (math.isfinite(x) and math.isfinite(y) and abs(x) < 1e6 and abs(y) < 1e6) else (2, 0.0, 0.0)
        except IndexError:
            fin = (1, 0.0, 0.0)
        if broke or st[-1][0] != 0:
            full = st + [fin]  # nothing changes after the break / the exception
        else:
            full = st  # maxiter = 0..7; the last one is what the default call returns
            if fin != full[-1]:
                problems.append(f"default call returns {fin}, maxiter=7 returns {full[-1]}")
        chain = 1 if (full[-1][0] == 0 and (exact or nupd <= 1)) else 0
        p = fl(f) + fl(g) + [len(full)]
        for s in full:
            p += [s[0]] + fl(s[1]) + fl(s[2])
        p += [chain, 7]
        pts.append(p)
        if fin[0] == 1 or any(s[0] == 1 for s in full):
            problems.append(f"{gt} grid {nr}x{nc}: bilin_inv raised IndexError for target ({f},{g}) (pre-image ({xs},{ys}))")
        # ---- oracle -----------------------------------------------------------------------------
        if fin[0] == 0 and broke:
            a, b = est(F, fin[1], fin[2]), est(G, fin[1], fin[2])
            if a is not None and b is not None and fin[1] >= 0 and fin[2] >= 0:
                H = (a - f) ** 2 + (b - g) ** 2
                if not H < tol * (1 + 1e-6):
                    problems.append(f"iteration stopped at ({fin[1]},{fin[2]}) but the squared residual {H} is not below tol {tol}")
        if inside and (gt != "warped" or desc.get("must_converge")) and xs > 0.01 and ys > 0.01:
            if fin[0] != 0 or not broke:
                problems.append(f"{gt} grid {nr}x{nc} ({dx} km): target with pre-image ({xs},{ys}) inside: no convergence, states {st[-3:]}")
            else:
                err = math.hypot(fin[1] - xs, fin[2] - ys)
                if err > max(bound, 1e-9):
                    problems.append(f"{gt} grid: pre-image ({xs},{ys}) recovered as ({fin[1]},{fin[2]}), error {err} cells > {bound}")
        classes.add((gt, inside, fin[0], broke, min(nupd, 4)))
        summary.append({"target": [xs, ys], "final": fin, "passes": nupd})
    ints += [len(pts)] + [v for p in pts for v in p]
    return {"ints": ints if pts else None, "oracle": "; ".join(problems[:3]) or None,
            "nontrivial": ("binv", tuple(sorted(classes, key=repr))) if classes else None,
            "kind": f"binv-{gt}", "skipped_near_tol": skipped,
            "observed": {"grid": gt, "shape": [nr, nc], "res_km": dx, "tol": tol, "points": summary, "skipped_near_tol": skipped}}


# ------------------------------------------------------------------------------------------------
# (iii) the real Grid on a synthetic file
# ------------------------------------------------------------------------------------------------
def legal_subgrid(rng, imax0, jmax0, minw=3):
    while True:
        i0 = rng.randint(1, imax0 - 1 - minw)
        i1 = rng.randint(i0 + minw, imax0 - 1)
        j0 = rng.randint(1, jmax0 - 1 - minw)
        j1 = rng.randint(j0 + minw, jmax0 - 1)
        if i0 != j0 or rng.random() < 0.1:
            return i0, i1, j0, j1


def make_grid(ctx, desc, lon, lat, sub, spell_negative=False):
    from ladim.ROMS import Grid

    jmax0, imax0 = lon.shape
    d = ctx.subdir("c16")
    f = d / f"grid_{desc['seed']}.nc"
    rf.write_roms(f, imax=imax0, jmax=jmax0, N=2, times=[0], lon=lon, lat=lat, grid_only=True)
    spec = list(sub) if sub else None
    if spec and spell_negative:  # upper limits counted from the end
        spec[1] = spec[1] - imax0 if spec[1] < imax0 else spec[1]
        spec[3] = spec[3] - jmax0 if spec[3] < jmax0 else spec[3]
    g = Grid(f, subgrid=spec)
    f.unlink()
    return g


def eval_grid(desc, ctx):
    rng = random.Random(desc["seed"])
    gt = desc["grid"]
    exact = gt == "affine"
    jmax0, imax0 = rng.randint(6, 9), rng.randint(6, 9)
    lon, lat, dx = GRIDS[gt](jmax0, imax0, rng)
    narrow = rng.random() < 0.08
    whole = rng.random() < 0.1
    if whole:
        sub, i0, i1, j0, j1 = None, 1, imax0 - 1, 1, jmax0 - 1
    else:
        i0, i1, j0, j1 = legal_subgrid(rng, imax0, jmax0, minw=2 if narrow else 3)
        sub = (i0, i1, j0, j1)
    g = make_grid(ctx, desc, lon, lat, sub, spell_negative=rng.random() < 0.3)
    problems = []
    if (g.i0, g.i1, g.j0, g.j1) != (i0, i1, j0, j1):
        problems.append(f"subgrid {sub} loaded as {(g.i0, g.i1, g.j0, g.j1)}")
    if not (np.array_equal(g.lon, lon[j0:j1, i0:i1]) and np.array_equal(g.lat, lat[j0:j1, i0:i1])):
        problems.append("grid.lon / grid.lat are not the [j0:j1, i0:i1] block of lon_rho / lat_rho")
    ints = [3, 0 if exact else 1, jmax0, imax0] + arr_ints(lon) + arr_ints(lat) + [i0, i1, j0, j1]
    bound = rt_bound(lon[j0:j1, i0:i1], lat[j0:j1, i0:i1])
    pts, classes, skipped = [], set(), 0
    for n in range(rng.randint(4, 7)):
        c = rng.random()
        if c < 0.7:  # sample2D-inside region of the subgrid (larger than the valid region)
            X, Y = rng.uniform(i0, i1 - 1.001), rng.uniform(j0, j1 - 1.001)
        elif c < 0.85:  # just below the first node: outside, although truncation gives cell 0
            X, Y = i0 - rng.uniform(0.01, 0.99), rng.uniform(j0, j1 - 1.001)
            if rng.random() < 0.5:
                X, Y = rng.uniform(i0, i1 - 1.001), j0 - rng.uniform(0.01, 0.99)
        else:
            X, Y = rng.uniform(0, imax0), rng.uniform(0, jmax0)
        if exact:
            X, Y = round(X * 8) / 8, round(Y * 8) / 8
        inside = i0 <= X < i1 - 1 and j0 <= Y < j1 - 1
        try:
            lo, la = g.xy2ll(np.array([X]), np.array([Y]))
            lo, la = float(lo[0]), float(la[0])
            pts.append([0] + fl(X) + fl(Y) + [0] + fl(lo) + fl(la))
        except ValueError:
            lo = la = None
            pts.append([0] + fl(X) + fl(Y) + [1, 0, 1, 0, 1])
        classes.add(("xy2ll", inside, lo is not None))
        if inside:
            wlo, wla = interp(lon, X, Y), interp(lat, X, Y)  # FULL arrays, position as given
            if lo is None:
                problems.append(f"xy2ll({X},{Y}) raised inside subgrid {(i0, i1, j0, j1)}")
                continue
            if not (close(lo, wlo) and close(la, wla)):
                problems.append(f"subgrid {(i0, i1, j0, j1)}: xy2ll({X},{Y}) = ({lo},{la}); bilinear interpolation of lon_rho/lat_rho there = ({wlo},{wla})")
            l2 = g.lonlat(np.array([X]), np.array([Y]))
            if float(l2[0][0]) != lo or float(l2[1][0]) != la:
                problems.append(f"lonlat({X},{Y}) differs from xy2ll")
            # and back (a subgrid with only two nodes across has an empty valid region, but the conversion works)
            from ladim.sample import bilin_inv
            st = trajectory(bilin_inv, lo, la, g.lon, g.lat, TOL)
            if not exact and near_tol(st, lo, la, g.lon, g.lat, TOL):
                skipped += 1
                continue
            broke = len(st) >= 2 and st[-1][0] == 0 and st[-1] == st[-2]
            nupd = len(st) - 2 if broke else len(st) - 1
            try:
                X2, Y2 = g.ll2xy(np.array([lo]), np.array([la]))
                X2, Y2 = float(X2[0]), float(Y2[0])
            except IndexError:
                problems.append(f"ll2xy(xy2ll({X},{Y})) raised IndexError on subgrid {(i0, i1, j0, j1)}")
                pts.append([1] + fl(lo) + fl(la) + [1, 0, 1, 0, 1])
                continue
            if exact or nupd <= 1:
                pts.append([1] + fl(lo) + fl(la) + [0] + fl(X2) + fl(Y2))
            if st[-1][0] == 0:  # the last pass alone, from the state one pass earlier
                K = len(st) - 1
                prev = st[K - 1] if (not broke or K < 2 or rng.random() < 0.3) else st[K - 2]
                pts.append([2] + fl(lo) + fl(la) + [0] + fl(X2) + fl(Y2) + fl(prev[1]) + fl(prev[2]))
            valid = i0 + 0.5 < X < i1 - 1.5 and j0 + 0.5 < Y < j1 - 1.5
            err = math.hypot(X2 - X, Y2 - Y)
            if not broke:
                problems.append(f"{gt} grid ({dx} km) subgrid {(i0, i1, j0, j1)}: ll2xy(xy2ll({X},{Y})) did not converge in 7 passes: ({X2},{Y2})")
            elif err > max(bound, 1e-9):
                problems.append(f"{gt} grid ({dx} km) subgrid {(i0, i1, j0, j1)}: ll2xy(xy2ll({X},{Y})) = ({X2},{Y2}), off by {err} cells > {bound}")
            else:
                r2 = (interp(lon, X2, Y2) - lo) ** 2 + (interp(lat, X2, Y2) - la) ** 2
                if not r2 < TOL * (1 + 1e-6):
                    problems.append(f"ll2xy({lo},{la}) = ({X2},{Y2}) whose interpolated lon/lat miss by {r2} deg^2 >= tol")
            classes.add(("roundtrip", valid, min(nupd, 4), i0 != j0))
        elif lo is not None:
            problems.append(f"xy2ll({X},{Y}) returned ({lo},{la}) outside the loaded subgrid {(i0, i1, j0, j1)} instead of raising")
    ints += [len(pts)] + [v for p in pts for v in p]
    return {"ints": ints, "oracle": "; ".join(problems[:3]) or None, "nontrivial": ("grid", gt, i0 != j0, tuple(sorted(classes, key=repr))),
            "kind": f"grid-{gt}", "skipped_near_tol": skipped,
            "observed": {"grid": gt, "full": [jmax0, imax0], "subgrid": [i0, i1, j0, j1], "res_km": dx, "roundtrip_bound_cells": bound, "npoints": len(pts)}}


def eval_gridbig(desc, ctx):
    """oracle only: larger conformal grids, all subgrids, positions over the whole valid region"""
    rng = random.Random(desc["seed"])
    gt = desc["grid"]
    jmax0, imax0 = rng.randint(12, 60), rng.randint(12, 70)
    if desc.get("long"):
        jmax0, imax0 = rng.randint(24, 40), rng.randint(1300, 1900)
        lon, lat, dx = GRIDS[gt](jmax0, imax0, rng, 0.8)
    else:
        lon, lat, dx = GRIDS[gt](jmax0, imax0, rng)
    if desc.get("long"):
        if desc.get("whole"):
            sub, i0, i1, j0, j1 = None, 1, imax0 - 1, 1, jmax0 - 1
        else:
            i0, i1, j0, j1 = rng.randint(1, 80), imax0 - rng.randint(1, 80), rng.randint(1, 6), jmax0 - rng.randint(1, 6)
            sub = (i0, i1, j0, j1)
    elif rng.random() < 0.3:
        sub, i0, i1, j0, j1 = None, 1, imax0 - 1, 1, jmax0 - 1
    else:
        i0, i1, j0, j1 = legal_subgrid(rng, imax0, jmax0, minw=4)
        sub = (i0, i1, j0, j1)
    g = make_grid(ctx, desc, lon, lat, sub)
    bound = rt_bound(lon[j0:j1, i0:i1], lat[j0:j1, i0:i1])
    n = 25
    X = np.array([rng.uniform(i0 + 0.5, i1 - 1.5) for _ in range(n)])
    Y = np.array([rng.uniform(j0 + 0.5, j1 - 1.5) for _ in range(n)])
    # corners of the valid region are the farthest from the initial guess
    X[:4] = [i0 + 0.51, i1 - 1.51, i0 + 0.51, i1 - 1.51]
    Y[:4] = [j0 + 0.51, j0 + 0.51, j1 - 1.51, j1 - 1.51]
    problems = []
    lo, la = g.xy2ll(X, Y)
    worst = 0.0
    for k in range(n):
        wlo, wla = interp(lon, X[k], Y[k]), interp(lat, X[k], Y[k])
        if not (close(float(lo[k]), wlo) and close(float(la[k]), wla)):
            problems.append(f"subgrid {(i0, i1, j0, j1)}: xy2ll({X[k]},{Y[k]}) = ({lo[k]},{la[k]}), interpolation of lon_rho/lat_rho = ({wlo},{wla})")
    try:
        X2, Y2 = g.ll2xy(lo, la)
        for k in range(n):
            err = math.hypot(float(X2[k]) - X[k], float(Y2[k]) - Y[k])
            worst = max(worst, err / bound)
            if not err <= bound:
                problems.append(f"{gt} grid {jmax0}x{imax0} ({dx:.2f} km) subgrid {(i0, i1, j0, j1)}: ll2xy(xy2ll({X[k]},{Y[k]})) = ({X2[k]},{Y2[k]}), off by {err} cells > {bound}")
    except IndexError as e:
        problems.append(f"{gt} grid {jmax0}x{imax0} ({dx:.2f} km) subgrid {(i0, i1, j0, j1)}: ll2xy raised IndexError ({e}) for positions in the valid region")
    return {"ints": None, "oracle": "; ".join(problems[:3]) or None, "nontrivial": ("gridbig", gt, sub is None, round(math.log(dx)), i0 != j0, bool(desc.get("long"))),
            "kind": f"gridbig-{gt}" + ("-long" if desc.get("long") else ""), "observed": {"grid": gt, "full": [jmax0, imax0], "subgrid": [i0, i1, j0, j1], "res_km": dx,
                                                 "roundtrip_bound_cells": bound, "worst_error_over_bound": worst}}


# ------------------------------------------------------------------------------------------------
# (iv) end to end through ladim.main.main
# ------------------------------------------------------------------------------------------------
def read_records(path, layout):
    """records of one output file as lists of (pid, X, Y, lon, lat); lon/lat None where the file has no value"""
    from netCDF4 import Dataset

    def val(a, k):
        v = a[k]
        return None if (np.ma.is_masked(v) or not math.isfinite(float(v))) else float(v)

    recs = []
    with Dataset(path) as nc:
        nc.set_auto_mask(True)
        t = np.asarray(nc.variables["time"][:], dtype=float)
        names = ["pid", "X", "Y", "lon", "lat"]
        if layout == "sparse":
            pc = np.asarray(nc.variables["particle_count"][:], dtype=int)
            V = {n: nc.variables[n][:] for n in names}
            start = 0
            for k in range(len(t)):
                rows = []
                for m in range(start, start + int(pc[k])):
                    rows.append(tuple(val(V[n], m) if m < len(V[n]) else None for n in names))
                start += int(pc[k])
                recs.append((float(t[k]), rows))
        else:  # dense: the column index is the pid, no pid variable
            V = {n: nc.variables[n][:, :] for n in names[1:]}
            for k in range(len(t)):
                rows = []
                for pid in range(V["X"].shape[1]):
                    x = val(V["X"][k], pid)
                    if x is None:
                        if val(V["lon"][k], pid) is not None or val(V["lat"][k], pid) is not None:
                            rows.append((pid, None, None, val(V["lon"][k], pid), val(V["lat"][k], pid)))
                        continue
                    rows.append((pid, x, val(V["Y"][k], pid), val(V["lon"][k], pid), val(V["lat"][k], pid)))
                recs.append((float(t[k]), rows))
    return recs


def eval_e2e(desc, ctx):
    import run_ladim

    rng = random.Random(desc["seed"])
    gt = desc["grid"]
    numrec, layout, with_state = desc.get("numrec", 0), desc.get("layout", "sparse"), desc.get("with_state", False)
    jmax0, imax0 = rng.randint(10, 16), rng.randint(10, 16)
    lon, lat, dx = GRIDS[gt](jmax0, imax0, rng)
    # longitude convention of the grid file: -180..180, or the continuous 0..360 spelling (Pacific-style
    # grids whose lon_rho exceeds 180); a release longitude is whatever the grid's own lon field says
    lon = lon + rng.choice([0.0, 0.0, 192.0, 256.0, 360.0])
    i0, i1, j0, j1 = legal_subgrid(rng, imax0, jmax0, minw=6)
    d = ctx.subdir(f"c16_e2e_{desc['seed']}")
    dt, nsteps = 600, 6
    meters = 1000.0 * (dx if dx else 1.0)
    rf.write_roms(d / "forcing.nc", imax=imax0, jmax=jmax0, N=2, times=[0, 3600, 7200], lon=lon, lat=lat, dx=meters,
                  u=rng.uniform(-0.3, 0.3) * meters / 3600.0, v=rng.uniform(-0.3, 0.3) * meters / 3600.0)
    rows = []
    late = [dt, 2 * dt, 3 * dt, 4 * dt]
    for k in range(rng.randint(3, 6)):
        X, Y = rng.uniform(i0 + 1.5, i1 - 2.5), rng.uniform(j0 + 1.5, j1 - 2.5)
        t = 0 if k < 2 else rng.choice(late)  # several particles from the start, some released later
        rows.append([t, interp(lon, X, Y), interp(lat, X, Y), rng.uniform(1, 20)])
    rows.sort(key=lambda r: r[0])
    rf.write_release(d / "release.rls", rows)
    conf = rf.base_config(start=0, stop=nsteps * dt, dt=dt, forcing_file=d / "forcing.nc", release_file=d / "release.rls",
                          out_file=d / "out.nc", names=("release_time", "lon", "lat", "Z"),
                          instance_variables=("pid", "X", "Y", "Z", "lon", "lat"), subgrid=[i0, i1, j0, j1],
                          numrec=numrec, layout=layout)
    # lon/lat output is computed from the position; configure_v1 additionally gives the state (unused) lon, lat
    # instance variables for a lon/lat release: both set-ups must work
    if with_state:
        conf["state"] = {"instance_variables": {"lon": "float", "lat": "float"}, "default_values": {"lon": 0.0, "lat": 0.0}}
    # some particles settle (are deactivated by the IBM after the move of that step): from then on they keep the
    # position reached — and the lon/lat written is still that of the position in the same record
    settle = {}
    for pid in range(len(rows)):
        if rng.random() < 0.5:
            settle.setdefault(rng.randint(0, nsteps - 2), []).append(pid)
    if settle:
        import pathlib

        conf["ibm"] = {"module": str(pathlib.Path(__file__).resolve().parents[1] / "plugins" / "kill_ibm.py"), "settle": settle}
    what = f"lon/lat release ({len(rows)} rows in subgrid {(i0, i1, j0, j1)}), lon/lat output, layout={layout}, numrec={numrec}, state carries lon/lat: {with_state}"
    try:
        run_ladim.run_main(conf, d)
        files = [d / "out.nc"] if numrec == 0 else sorted(d.glob("out_*.nc"))
        per_file = [(f.name, read_records(f, layout)) for f in files]
    except (Exception, SystemExit) as e:  # noqa: BLE001
        return {"ints": None, "oracle": f"run with {what} failed: {type(e).__name__}: {e}",
                "nontrivial": None, "kind": f"e2e-{layout}-numrec{numrec}", "observed": {"grid": gt, "rows": rows}}
    problems = []
    want_files = 1 if numrec == 0 else -(-nsteps // numrec)
    if len(files) != want_files:
        problems.append(f"{what}: {len(files)} output files, expected {want_files}")
    seen, ninst = {}, 0
    for fname, recs in per_file:
        for t, prow in recs:
            for pid, X, Y, lo, la in prow:
                ninst += 1
                if X is None or Y is None or pid is None:
                    problems.append(f"{fname} t={t}: lon/lat ({lo},{la}) written where the record has no particle position (pid {pid})")
                    continue
                pid = int(pid)
                wlo, wla = interp(lon, X, Y), interp(lat, X, Y)
                if lo is None or la is None or not (close(lo, wlo) and close(la, wla)):
                    problems.append(f"{fname} t={t} pid={pid}: lon/lat written ({lo},{la}); interpolation of lon_rho/lat_rho at the "
                                    f"X,Y of the same record ({X},{Y}) = ({wlo},{wla})")
                if pid not in seen:
                    seen[pid] = True
                    if pid >= len(rows):
                        problems.append(f"{fname}: pid {pid} but only {len(rows)} release rows")
                        continue
                    rlon, rlat = rows[pid][1], rows[pid][2]
                    if t != float(rows[pid][0]):
                        problems.append(f"pid {pid} first written at {t}, released at {rows[pid][0]}")
                    r2 = (wlo - rlon) ** 2 + (wla - rlat) ** 2
                    if not r2 < TOL * (1 + 1e-6):
                        problems.append(f"pid {pid} released at lon/lat ({rlon},{rlat}) starts at ({X},{Y}) whose lon/lat are ({wlo},{wla}): squared miss {r2} >= tol")
    if len(seen) != len(rows):
        problems.append(f"{len(rows)} release rows, {len(seen)} particles in the output")
    if problems:
        problems[0] = what + ": " + problems[0]
    return {"ints": None, "oracle": "; ".join(problems[:3]) or None,
            "nontrivial": ("e2e", gt, layout, numrec, with_state, len(rows), i0 != j0),
            "kind": f"e2e-{layout}-numrec{numrec}",
            "observed": {"grid": gt, "subgrid": [i0, i1, j0, j1], "rows": len(rows), "files": len(files), "instances": ninst}}


def eval_polar_explicit(desc, ctx):
    """corpus: polar-stereographic arrays given by their parameters; lattice over the valid region incl. its
    corners; conversion lon/lat -> grid must succeed everywhere (regression: Newton overshoot past the edge)"""
    from ladim.sample import bilin_inv, sample2D

    nr, nc, dx = desc["nr"], desc["nc"], desc["dx"]
    scale = 6371.0 * (1 + math.sin(math.radians(60.0)))
    j, i = np.meshgrid(np.arange(nr, dtype=float), np.arange(nc, dtype=float), indexing="ij")
    lat = 90.0 - 2.0 * np.degrees(np.arctan(dx * np.hypot(i - desc["xp"], j - desc["yp"]) / scale))
    lon = desc["ylon"] + np.degrees(np.arctan2(i - desc["xp"], desc["yp"] - j))
    bound = rt_bound(lon, lat)
    problems, nfail, worst = [], 0, 0.0
    for X in np.linspace(0.51, nc - 1.51, 12):
        for Y in np.linspace(0.51, nr - 1.51, 12):
            lo, la = sample2D(lon, np.array([X]), np.array([Y])), sample2D(lat, np.array([X]), np.array([Y]))
            try:
                y, x = bilin_inv(lo, la, lon, lat)
                err = math.hypot(float(x[0]) - X, float(y[0]) - Y)
                worst = max(worst, err / bound)
                if not err <= bound:
                    nfail += 1
                    problems.append(f"polar grid {nr}x{nc} ({dx} km): position ({X},{Y}) of the valid region converted back as ({x[0]},{y[0]}), off by {err} cells > {bound}")
            except IndexError as e:
                nfail += 1
                problems.append(f"polar grid {nr}x{nc} ({dx} km): bilin_inv raised IndexError ({e}) for position ({X},{Y}) of the valid region")
    return {"ints": None, "oracle": (f"{nfail} of 144 positions fail; " + "; ".join(problems[:2])) if problems else None,
            "nontrivial": ("polar_explicit", nr, nc, dx), "kind": "corpus-polar",
            "observed": {"shape": [nr, nc], "res_km": dx, "roundtrip_bound_cells": bound, "worst_error_over_bound": worst}}


def extra_coverage(ctx, results):
    return {"skipped_near_tol": sum(r.get("skipped_near_tol", 0) for r in results)}
