"""C16 at scale (oracle only, deterministic, always in the quick tier).

The generated cases of c16.py are small: a handful of positions per call, a handful of release rows per run.  The
clauses of C16 are statements about EVERY target of a conversion and EVERY instance written, and the conversion
lon/lat -> grid is one coupled call for the whole release table (one Newton iteration whose stopping test spans all
rows).  These cases state the same clauses on calls and runs of realistic size:

 scale-ll2xy   Grid.xy2ll / Grid.ll2xy of a real ROMS.Grid (synthetic 4 km polar-stereographic / rotated grid, with and
               without subgrid) on 1000 ... 130000 positions in one call, in several arrangements (a big release at one site
               plus one or a few reference positions near the corners of the valid region, first / last / in the middle /
               scattered through the table;
               a second site as a block at the head or at the tail; uniform over the valid region);
               for EVERY row: xy2ll = bilinear interpolation of lon_rho / lat_rho, the position returned by ll2xy has
               interpolated lon/lat within the solver tolerance of the target and lies within the round-trip bound of
               the position the target was made from.
 scale-exact   the same on dyadic affine grids: every operation of the code is exact, the position is recovered
               bit for bit for every row.
 scale-s2d     sample2D with 1000 ... 130000 positions in one call on a dyadic bilinear field (exact), with a 0/1 mask
               (mean over the unmasked nodes) and positions outside (substitute value, incl. 0.0).
 scale-e2e     ladim.main.main with a long release table given by lon/lat (5000 / 20000 rows, some released later), lon/lat
               output: every instance of every record (> 100000 instances); and a long run (1200 steps, 12 files) of
               a few particles some of which are released late.

Nothing here knows of any threshold inside the code: the sizes straddle powers of two and round decimal numbers.
"""
from __future__ import annotations

import math

import numpy as np

import romsfiles as rf

TOL = 1.0e-7
SIZES = [1000, 1024, 1025, 2047, 2048, 2049, 3000, 4096, 4097, 5000, 8191, 10000, 16385, 20000, 40000, 70000, 130000]
ARRANGEMENTS = ["site+1@1", "site+1@last", "site+1@mid", "site+tail", "site+scattered", "head-block", "tail-block", "uniform"]


def gen_scale_cases(quick=True):
    out = []
    for k, n in enumerate(SIZES):
        out.append({"k": "scale", "what": "ll2xy", "grid": "polar", "n": n, "sub": k % 3 != 0})
    for k, n in enumerate([1024, 2049, 5000, 20000, 70000]):
        out.append({"k": "scale", "what": "ll2xy", "grid": "rotated", "n": n, "sub": k % 2 == 0})
    for k, n in enumerate([1025, 4097, 20000, 130000]):
        out.append({"k": "scale", "what": "exact", "n": n, "sub": k % 2 == 0, "variant": k})
    for k, n in enumerate([1000, 4097, 20000, 130000]):
        out.append({"k": "scale", "what": "s2d", "n": n, "variant": k})
    out.append({"k": "scale", "what": "e2e", "grid": "polar", "n": 5000, "nsteps": 6, "numrec": 0})
    out.append({"k": "scale", "what": "e2e", "grid": "rotated", "n": 20000, "nsteps": 6, "numrec": 2})
    out.append({"k": "scale", "what": "e2e", "grid": "polar", "n": 40, "nsteps": 1200, "numrec": 1, "period": 100})
    return out


# ------------------------------------------------------------------------------------------------
# grids (fixed parameters: these cases are the same in every run)
# ------------------------------------------------------------------------------------------------
def polar4km(nr, nc):
    """polar stereographic, true at 60N, 4 km, rotated: the kind of grid of the coastal models ladim is used with"""
    dx = 4.0
    xp, yp, ylon = -0.27 * nc, nr + 520.0, 58.0
    scale = 6371.0 * (1 + math.sin(math.radians(60.0)))
    j, i = np.meshgrid(np.arange(nr, dtype=float), np.arange(nc, dtype=float), indexing="ij")
    lat = 90.0 - 2.0 * np.degrees(np.arctan(dx * np.hypot(i - xp, j - yp) / scale))
    lon = ylon + np.degrees(np.arctan2(i - xp, yp - j))
    return lon, lat, dx


def rotated4km(nr, nc):
    """rotated longitude/latitude grid, 4 km, off the rotated equator"""
    dx = 4.0
    res = dx / 111.19
    plon, plat, r0, c0 = 12.0, 52.0, 8.0, 2.0
    j, i = np.meshgrid(np.arange(nr, dtype=float), np.arange(nc, dtype=float), indexing="ij")
    rlon, rlat = np.radians(c0 + res * i), np.radians(r0 + res * j)
    x, y, z = np.cos(rlat) * np.cos(rlon), np.cos(rlat) * np.sin(rlon), np.sin(rlat)
    t = math.radians(plat)
    x2, z2 = x * math.cos(t) - z * math.sin(t), x * math.sin(t) + z * math.cos(t)
    lat = np.degrees(np.arcsin(np.clip(z2, -1, 1)))
    lon = plon + np.degrees(np.arctan2(y, x2))
    return lon, lat, dx


def affine_dyadic(nr, nc, variant):
    """dyadic affine lon/lat, determinant a power of two: every float operation of the conversion is exact"""
    a1, a2, b1, b2 = [(0.125, -0.25, 0.25, 0.5), (-0.25, 0.125, 0.125, 0.1875), (0.0625, 0.25, -0.25, 0.0), (0.5, 0.25, 0.25, 0.25)][variant % 4]
    a0, b0 = [(-7.5, 58.25), (4.0, 61.5), (9.75, 66.0), (-3.25, 55.5)][variant % 4]
    j, i = np.meshgrid(np.arange(nr, dtype=float), np.arange(nc, dtype=float), indexing="ij")
    return a0 + a1 * j + a2 * i, b0 + b1 * j + b2 * i, None


def interp_vec(A, X, Y):
    """bilinear interpolation of A (rows = Y) at every (X, Y): first along X on the two rows, then along Y
    (the reading of c16.interp, for arrays of positions)"""
    X, Y = np.asarray(X, dtype=float), np.asarray(Y, dtype=float)
    i = np.clip(np.floor(X).astype(np.int64), 0, A.shape[1] - 2)
    j = np.clip(np.floor(Y).astype(np.int64), 0, A.shape[0] - 2)
    tx, ty = X - i, Y - j
    lo = A[j, i] + tx * (A[j, i + 1] - A[j, i])
    hi = A[j + 1, i] + tx * (A[j + 1, i + 1] - A[j + 1, i])
    return lo + ty * (hi - lo)


def fr(v):
    return repr(float(v))


def closev(a, b, tol=1e-9):
    return np.abs(a - b) <= tol * (1 + np.abs(a) + np.abs(b))


# ------------------------------------------------------------------------------------------------
# arrangements of n positions in the valid region [xlo, xhi] x [ylo, yhi]
# ------------------------------------------------------------------------------------------------
def corners(xlo, xhi, ylo, yhi):
    return (np.array([xlo + 0.01, xhi - 0.01, xlo + 0.01, xhi - 0.01, 0.5 * (xlo + xhi) + 0.37]),
            np.array([ylo + 0.01, ylo + 0.01, yhi - 0.01, yhi - 0.01, yhi - 0.01]))


def cloud(rs, n, xc, yc, r, box):
    xlo, xhi, ylo, yhi = box
    rad, ang = r * np.sqrt(rs.uniform(0, 1, n)), rs.uniform(0, 2 * np.pi, n)
    return np.clip(xc + rad * np.cos(ang), xlo, xhi), np.clip(yc + rad * np.sin(ang), ylo, yhi)


def arrange(name, n, box, seed):
    """-> X, Y (n positions), far (indices of the rows that are far from the bulk)"""
    xlo, xhi, ylo, yhi = box
    rs = np.random.RandomState(seed)
    w, h = xhi - xlo, yhi - ylo
    # the site of the big release: somewhere in the middle part of the domain, not at its centre
    xc, yc = xlo + w * rs.uniform(0.4, 0.6), ylo + h * rs.uniform(0.4, 0.6)
    r = 0.1 * min(w, h)
    cx, cy = corners(*box)
    if name == "uniform":
        return rs.uniform(xlo, xhi, n), rs.uniform(ylo, yhi, n), np.arange(0)
    X, Y = cloud(rs, n, xc, yc, r, box)
    if name.startswith("site+1@"):  # one reference position near a corner of the domain, somewhere in the table
        k = {"1": 1, "last": n - 1, "mid": n // 2 + 1}[name[7:]]
        far = np.array([k])
        c = {"1": 2, "last": 1, "mid": 0}[name[7:]]
        X[far], Y[far] = cx[c], cy[c]
    elif name == "site+tail":  # reference positions written last
        far = np.arange(n - 4, n)
        X[far], Y[far] = cx[:4], cy[:4]
    elif name == "site+scattered":  # ... anywhere in the table
        far = np.unique(np.array([1, n // 3, n // 2 + 1, n - 2, (2 * n) // 3 + 1]))
        X[far], Y[far] = cx[: len(far)], cy[: len(far)]
    else:  # a second, smaller release near a corner of the domain, first or last in the table
        m = max(3, n // 37)
        k = int(rs.randint(0, 4))
        bx, by = cloud(rs, m, cx[k], cy[k], 0.04 * min(w, h), box)
        far = np.arange(m) if name == "head-block" else np.arange(n - m, n)
        X[far], Y[far] = bx, by
    return X, Y, far


def make_grid(ctx, tag, lon, lat, sub):
    from ladim.ROMS import Grid

    jmax0, imax0 = lon.shape
    f = ctx.subdir("c16scale") / f"grid_{tag}.nc"
    rf.write_roms(f, imax=imax0, jmax=jmax0, N=2, times=[0], lon=lon, lat=lat, grid_only=True)
    g = Grid(f, subgrid=list(sub) if sub else None)
    f.unlink()
    return g


def rt_bound(lon, lat):
    import c16

    return c16.rt_bound(lon, lat)


# ------------------------------------------------------------------------------------------------
def eval_scale(desc, ctx):
    return {"ll2xy": eval_ll2xy, "exact": eval_ll2xy, "s2d": eval_s2d_scale, "e2e": eval_e2e_scale}[desc["what"]](desc, ctx)


def eval_ll2xy(desc, ctx):
    n, exact = desc["n"], desc["what"] == "exact"
    if exact:
        gt = "affine"
        jmax0, imax0 = 96, 128
        lon, lat, dx = affine_dyadic(jmax0, imax0, desc.get("variant", 0))
    else:
        gt = desc["grid"]
        jmax0, imax0 = (160, 200) if gt == "polar" else (180, 150)
        lon, lat, dx = (polar4km if gt == "polar" else rotated4km)(jmax0, imax0)
    if desc.get("sub"):
        i0, i1, j0, j1 = (7, imax0 - 12, 3, jmax0 - 5)
        sub = (i0, i1, j0, j1)
    else:
        sub, i0, i1, j0, j1 = None, 1, imax0 - 1, 1, jmax0 - 1
    tag = f"{gt}-{n}"
    name = f"scale-{desc['what']} [{gt} grid {jmax0}x{imax0}" + (f" {dx} km" if dx else "") + f", subgrid {sub}, {n} positions in one call]"
    g = make_grid(ctx, tag, lon, lat, sub)
    box = (i0 + 0.5, i1 - 1.5, j0 + 0.5, j1 - 1.5)  # the valid region
    bound = rt_bound(lon[j0:j1, i0:i1], lat[j0:j1, i0:i1])
    problems, worst, worst_r2 = [], 0.0, 0.0
    for a, arr in enumerate(ARRANGEMENTS):
        X, Y, far = arrange(arr, n, box, 1600 + 7 * a + n % 1000)
        if exact:
            X, Y = np.round(X * 8) / 8, np.round(Y * 8) / 8
        what = f"{name} arrangement {arr}"
        wlo, wla = interp_vec(lon, X, Y), interp_vec(lat, X, Y)
        try:
            lo, la = g.xy2ll(X, Y)
            lo, la = np.asarray(lo, dtype=float), np.asarray(la, dtype=float)
        except Exception as e:  # noqa: BLE001
            problems.append(f"{what}: xy2ll raised {type(e).__name__}: {e} for positions in the valid region")
            continue
        if lo.shape != X.shape or la.shape != X.shape:
            problems.append(f"{what}: xy2ll returns shapes {lo.shape}, {la.shape} for {X.shape}")
            continue
        ok = (lo == wlo) & (la == wla) if exact else closev(lo, wlo) & closev(la, wla)
        if not ok.all():
            k = int(np.flatnonzero(~ok)[0])
            problems.append(f"{what}: xy2ll differs from the bilinear interpolation of lon_rho/lat_rho on {int((~ok).sum())} of {n} rows; "
                            f"first: row {k}, xy2ll({fr(X[k])},{fr(Y[k])}) = ({fr(lo[k])},{fr(la[k])}), interpolation = ({fr(wlo[k])},{fr(wla[k])})")
            continue
        # lon/lat -> grid: the targets are the interpolated lon/lat of the positions (what a release file would give)
        try:
            X2, Y2 = g.ll2xy(wlo.copy(), wla.copy())
            X2, Y2 = np.asarray(X2, dtype=float), np.asarray(Y2, dtype=float)
        except Exception as e:  # noqa: BLE001
            problems.append(f"{what}: ll2xy raised {type(e).__name__}: {e} for lon/lat of positions in the valid region")
            continue
        if X2.shape != X.shape or Y2.shape != X.shape:
            problems.append(f"{what}: ll2xy returns shapes {X2.shape}, {Y2.shape} for {X.shape}")
            continue
        if exact:
            bad = ~((X2 == X) & (Y2 == Y))
            if bad.any():
                k = int(np.flatnonzero(bad)[0])
                problems.append(f"{what}: exact grid, {int(bad.sum())} of {n} positions not recovered exactly; first: row {k}, "
                                f"({fr(X[k])},{fr(Y[k])}) -> lon/lat ({fr(wlo[k])},{fr(wla[k])}) -> ({fr(X2[k])},{fr(Y2[k])})")
            continue
        fin = np.isfinite(X2) & np.isfinite(Y2)
        r2 = np.where(fin, (interp_vec(lon, np.where(fin, X2, 0.0), np.where(fin, Y2, 0.0)) - wlo) ** 2
                      + (interp_vec(lat, np.where(fin, X2, 0.0), np.where(fin, Y2, 0.0)) - wla) ** 2, np.inf)
        err = np.where(fin, np.hypot(X2 - X, Y2 - Y), np.inf)
        bad = ~(r2 < TOL * (1 + 1e-6)) | ~(err <= max(bound, 1e-9))
        worst, worst_r2 = max(worst, float(err.max()) / bound), max(worst_r2, float(r2.max()))
        if bad.any():
            k = int(np.flatnonzero(bad)[np.argmax(err[bad])])
            nf = int(np.isin(np.flatnonzero(bad), far).sum())
            problems.append(f"{what}: {int(bad.sum())} of {n} rows ({nf} of them among the {len(far)} rows far from the bulk) are not converted "
                            f"to the position whose interpolated lon/lat are the given ones; worst: row {k}, lon/lat ({fr(wlo[k])},{fr(wla[k])}) "
                            f"of position ({X[k]:.4f},{Y[k]:.4f}) -> ({fr(X2[k])},{fr(Y2[k])}), off by {err[k]:.3g} cells (bound {bound:.3g}), "
                            f"squared lon/lat miss {r2[k]:.3g} deg^2 (solver tolerance {TOL:g})")
    return {"ints": None, "oracle": "; ".join(problems[:2]) or None, "nontrivial": ("scale", desc["what"], gt, n, sub is None),
            "kind": f"scale-{desc['what']}", "observed": {"grid": gt, "n": n, "subgrid": [i0, i1, j0, j1], "roundtrip_bound_cells": bound,
                                                        "worst_error_over_bound": worst, "worst_squared_miss": worst_r2}}


# ------------------------------------------------------------------------------------------------
def eval_s2d_scale(desc, ctx):
    from ladim.sample import sample2D

    n, v = desc["n"], desc.get("variant", 0)
    nr, nc = [(40, 60), (200, 300), (333, 127), (600, 900)][v % 4]
    rs = np.random.RandomState(160 + v)
    b = [(-3.25, 0.5, -0.25, 0.125), (10.0, -0.75, 1.5, -0.0625), (0.0, 0.25, 0.25, 0.25), (5.5, 1.0, -2.0, 0.5)][v % 4]
    j, i = np.meshgrid(np.arange(nr, dtype=float), np.arange(nc, dtype=float), indexing="ij")
    F = b[0] + b[1] * i + b[2] * j + b[3] * i * j
    name = f"scale-s2d [sample2D, {nr}x{nc} bilinear dyadic field, {n} positions in one call]"
    # positions: multiples of 1/8; most inside, some on nodes / edges / in (-1,0) / beyond
    X = np.round(rs.uniform(0, nc - 1, n) * 8) / 8
    Y = np.round(rs.uniform(0, nr - 1, n) * 8) / 8
    m = max(4, n // 50)
    out_rows = rs.choice(n, size=m, replace=False)
    X[out_rows[: m // 4]] = -0.125
    Y[out_rows[m // 4: m // 2]] = -0.875
    X[out_rows[m // 2: 3 * m // 4]] = nc - 1.0
    Y[out_rows[3 * m // 4:]] = nr + 2.5
    X[-1], Y[-1] = nc - 1.125, nr - 1.125  # the last row of the table is in the last cell
    outside = (X < 0) | (X >= nc - 1) | (Y < 0) | (Y >= nr - 1)
    inside = ~outside
    field = b[0] + b[1] * X + b[2] * Y + b[3] * X * Y
    problems = []

    def first(badmask):
        k = int(np.flatnonzero(badmask)[0])
        return k, f"{int(badmask.sum())} of {n} rows; first: row {k} at ({fr(X[k])},{fr(Y[k])})"

    for outv in (0.0, -1.0):
        try:
            r = np.asarray(sample2D(F, X, Y, outside_value=outv), dtype=float)
        except Exception as e:  # noqa: BLE001
            problems.append(f"{name}: outside_value={outv}: {type(e).__name__}: {e}")
            continue
        if r.shape != X.shape:
            problems.append(f"{name}: result of shape {r.shape}")
            continue
        bad = inside & (r != field)
        if bad.any():
            k, msg = first(bad)
            problems.append(f"{name}: not exact on a bilinear field for {msg}: {fr(r[k])}, field value {fr(field[k])}")
        bad = outside & (r != outv)
        if bad.any():
            k, msg = first(bad)
            problems.append(f"{name}: outside_value={outv} not returned outside the grid for {msg}: {fr(r[k])}")
    # all inside, no outside_value: no exception, same values
    try:
        r = np.asarray(sample2D(F, X[inside], Y[inside]), dtype=float)
        if r.shape != X[inside].shape or (r != field[inside]).any():
            problems.append(f"{name}: call without outside_value on the {int(inside.sum())} inside rows is not exact on the bilinear field")
    except Exception as e:  # noqa: BLE001
        problems.append(f"{name}: {int(inside.sum())} inside rows, no outside_value: {type(e).__name__}: {e}")
    # one row outside and no substitute value: refused
    try:
        sample2D(F, X, Y)
        problems.append(f"{name}: {int(outside.sum())} rows outside and no outside_value: no ValueError")
    except ValueError:
        pass
    # 0/1 mask: mean over the unmasked nodes, undef_value where all nodes with weight are masked; masked values irrelevant
    mask = (rs.uniform(0, 1, (nr, nc)) > 0.4).astype(float)
    vals = np.round(rs.uniform(-64, 64, (nr, nc)) * 4) / 4
    undef = -999.0
    ii = np.clip(np.floor(X).astype(np.int64), 0, nc - 2)
    jj = np.clip(np.floor(Y).astype(np.int64), 0, nr - 2)
    tx, ty = X - ii, Y - jj
    W = [((1 - tx) * (1 - ty), jj, ii), ((1 - tx) * ty, jj + 1, ii), (tx * (1 - ty), jj, ii + 1), (tx * ty, jj + 1, ii + 1)]
    sw = sum(w * mask[a, c] for w, a, c in W)
    num = sum(w * mask[a, c] * vals[a, c] for w, a, c in W)
    want = np.where(sw > 0, num / np.where(sw > 0, sw, 1.0), undef)
    want = np.where(outside, 0.0, want)
    try:
        r = np.asarray(sample2D(vals, X, Y, mask=mask, undef_value=undef, outside_value=0.0), dtype=float)
        v2 = np.where(mask > 0, vals, 1.0e6)
        r2 = np.asarray(sample2D(v2, X, Y, mask=mask, undef_value=undef, outside_value=0.0), dtype=float)
        bad = ~closev(r, want)
        if r.shape != X.shape:
            problems.append(f"{name}: masked call returns shape {r.shape}")
        elif bad.any():
            k, msg = first(bad)
            problems.append(f"{name}: masked sample differs from the mean over the unmasked nodes (undef_value where none, 0.0 outside) for {msg}: "
                            f"{fr(r[k])}, expected {fr(want[k])}")
        elif (~closev(r, r2)).any():
            k, msg = first(~closev(r, r2))
            problems.append(f"{name}: masked sample changes when the values at masked nodes change for {msg}: {fr(r[k])} -> {fr(r2[k])}")
    except Exception as e:  # noqa: BLE001
        problems.append(f"{name}: masked call: {type(e).__name__}: {e}")
    return {"ints": None, "oracle": "; ".join(problems[:2]) or None, "nontrivial": ("scale", "s2d", n, nr, nc), "kind": "scale-s2d",
            "observed": {"shape": [nr, nc], "n": n, "outside": int(outside.sum()), "all_masked": int(((sw == 0) & inside).sum())}}


# ------------------------------------------------------------------------------------------------
def read_sparse_arrays(path):
    from netCDF4 import Dataset

    with Dataset(path) as nc:
        nc.set_auto_mask(False)
        t = np.asarray(nc.variables["time"][:], dtype=float)
        pc = np.asarray(nc.variables["particle_count"][:], dtype=np.int64)
        V = {v: np.asarray(nc.variables[v][:]) for v in ("pid", "X", "Y", "lon", "lat")}
    return t, pc, V


def eval_e2e_scale(desc, ctx):
    import run_ladim

    gt, n, nsteps, numrec = desc["grid"], desc["n"], desc["nsteps"], desc["numrec"]
    period = desc.get("period", 1)
    jmax0, imax0 = (100, 120) if gt == "polar" else (180, 150)
    lon, lat, dx = (polar4km if gt == "polar" else rotated4km)(jmax0, imax0)
    i0, i1, j0, j1 = 4, imax0 - 6, 2, jmax0 - 3
    d = ctx.subdir(f"c16scale_e2e_{n}_{nsteps}")
    for f in d.glob("*"):
        f.unlink()
    dt = 600
    meters = 1000.0 * dx
    long_run = nsteps > 100
    # a weak steady current: a particle moves at most ~0.01 cells per step
    u, v = 0.07, -0.05
    stop = nsteps * dt
    rf.write_roms(d / "forcing.nc", imax=imax0, jmax=jmax0, N=2, times=[0, stop // 2 + 300, stop + 600], lon=lon, lat=lat, dx=meters, u=u, v=v)
    drift = 0.2 + nsteps * dt * max(abs(u), abs(v)) / meters  # cells
    box = (i0 + 0.5 + drift + 1.0, i1 - 1.5 - drift - 1.0, j0 + 0.5 + drift + 1.0, j1 - 1.5 - drift - 1.0)
    X, Y, far = arrange("site+scattered", n, box, 1616 + n)
    rlon, rlat = interp_vec(lon, X, Y), interp_vec(lat, X, Y)
    # most rows are released at the start, the last tenth later (the table stays in time order)
    rel = np.zeros(n, dtype=np.int64)
    nl = max(4, n // 10)
    late = np.array([0.35, 0.6, 0.85]) * nsteps
    late = (np.round(late / period) * period).astype(np.int64) * dt if long_run else np.array([2, 3, 4]) * dt
    rel[n - nl:] = np.sort(late[np.arange(nl) % 3])
    Z = 5.0
    with open(d / "release.rls", "w") as f:
        f.write("".join(f"{rf.iso(int(t))} {lo!r} {la!r} {Z}\n" for t, lo, la in zip(rel.tolist(), rlon.tolist(), rlat.tolist())))
    conf = rf.base_config(start=0, stop=stop, dt=dt, forcing_file=d / "forcing.nc", release_file=d / "release.rls",
                          out_file=d / "out.nc", names=("release_time", "lon", "lat", "Z"), output_period=period * dt,
                          instance_variables=("pid", "X", "Y", "lon", "lat"), subgrid=[i0, i1, j0, j1], numrec=numrec, layout="sparse")
    what = (f"scale-e2e [ladim.main.main, {gt} grid {jmax0}x{imax0} {dx} km subgrid {(i0, i1, j0, j1)}, release table of {n} rows given by lon/lat "
            f"({nl} released later), {nsteps} steps, output every {period} steps, numrec={numrec}]")
    try:
        run_ladim.run_main(conf, d)
        files = [d / "out.nc"] if numrec == 0 else sorted(d.glob("out_*.nc"))
        parts = [(f.name, *read_sparse_arrays(f)) for f in files]
    except (Exception, SystemExit) as e:  # noqa: BLE001
        return {"ints": None, "oracle": f"{what}: run failed: {type(e).__name__}: {e}", "nontrivial": None, "kind": "scale-e2e", "observed": {}}
    problems = []
    nrec_want = nsteps // period  # records at steps 0, period, ..., the last step is not written
    want_files = 1 if numrec == 0 else -(-nrec_want // numrec)
    if len(files) != want_files:
        problems.append(f"{len(files)} output files, expected {want_files}")
    T, P, XX, YY, LO, LA, FN = [], [], [], [], [], [], []
    for fi, (fname, t, pc, V) in enumerate(parts):
        if int(pc.sum()) != len(V["pid"]) or any(len(V[k]) != len(V["pid"]) for k in V):
            problems.append(f"{fname}: particle_count sums to {int(pc.sum())}, variables have {[len(V[k]) for k in V]} instances")
            continue
        T.append(np.repeat(t, pc)), P.append(V["pid"].astype(np.int64)), XX.append(V["X"].astype(float)), YY.append(V["Y"].astype(float))
        LO.append(V["lon"].astype(float)), LA.append(V["lat"].astype(float)), FN.append(np.full(len(V["pid"]), fi))
    ninst = 0
    if P and not problems:
        T, P, XX, YY, LO, LA, FN = (np.concatenate(a) for a in (T, P, XX, YY, LO, LA, FN))
        ninst = len(P)
        # every instance: lon/lat written = interpolation of lon_rho/lat_rho at the X, Y of the same record
        wlo, wla = interp_vec(lon, XX, YY), interp_vec(lat, XX, YY)
        bad = ~(closev(LO, wlo) & closev(LA, wla))
        if bad.any():
            k = int(np.flatnonzero(bad)[0])
            problems.append(f"{int(bad.sum())} of {ninst} instances: lon/lat written differ from the interpolation of lon_rho/lat_rho at the X,Y of the same "
                            f"record; first: {parts[int(FN[k])][0]} t={T[k]} pid={P[k]}: written ({fr(LO[k])},{fr(LA[k])}), at ({fr(XX[k])},{fr(YY[k])}) = ({fr(wlo[k])},{fr(wla[k])})")
        # every release row: first written at its release time, at the position whose lon/lat are the given ones
        pids, first = np.unique(P, return_index=True)
        if len(pids) != n or pids[0] != 0 or pids[-1] != n - 1:
            problems.append(f"{n} release rows, {len(pids)} particles in the output (pids {pids[:3].tolist()}..{pids[-3:].tolist()})")
        else:
            badt = T[first] != rel.astype(float)
            if badt.any():
                k = int(np.flatnonzero(badt)[0])
                problems.append(f"{int(badt.sum())} rows first written at another time than released; first: row {k} released at {rel[k]}, first written at {T[first][k]}")
            r2 = (wlo[first] - rlon) ** 2 + (wla[first] - rlat) ** 2
            bad = ~(r2 < TOL * (1 + 1e-6))
            if bad.any():
                k = int(np.flatnonzero(bad)[np.argmax(r2[bad])])
                problems.append(f"{int(bad.sum())} of {n} release rows ({int(np.isin(np.flatnonzero(bad), far).sum())} of them among the {len(far)} rows far from "
                                f"the bulk) do not start at the grid position whose interpolated lon/lat are the given ones; worst: row {k} given "
                                f"({fr(rlon[k])},{fr(rlat[k])}) (position ({X[k]:.4f},{Y[k]:.4f})) starts at ({fr(XX[first][k])},{fr(YY[first][k])}) where lon/lat = "
                                f"({fr(wlo[first][k])},{fr(wla[first][k])}): squared miss {r2[k]:.3g} deg^2 (solver tolerance {TOL:g})")
    elif not problems:
        problems.append("no output")
    for f in d.glob("*"):
        f.unlink()
    if problems:
        problems[0] = what + ": " + problems[0]
    return {"ints": None, "oracle": "; ".join(problems[:2]) or None, "nontrivial": ("scale", "e2e", gt, n, nsteps, numrec), "kind": "scale-e2e",
            "observed": {"grid": gt, "rows": n, "steps": nsteps, "files": len(files), "instances": int(ninst)}}
