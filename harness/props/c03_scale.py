"""C03 at scale — deterministic cases of realistic size (oracle only: too large for a Coq literal).

The quick stream of c03.py has at most 16 model steps between two frames, at most 9 frames, 4 files, one
particle and a few dozen steps per run.  The property text quantifies over ALL frame layouts, run lengths and
file partitions, so this family drives the real TimeKeeper / Grid / Forcing (and, for one case, the real Model
with the loop of ladim.main) over layouts of the size a real simulation has:

  * many model steps between two consecutive frames (hourly ... 3-day frames with dt of seconds to minutes):
    999/1000/1001/1024/1025 ... 4096/4097, 8640 (daily frames, dt = 10 s), 10000, 20000 + 1 steps;
  * many frames (> 1000) in one file and many files (> 1000, one frame per file; > 12 files of uneven size);
  * long runs (> 65536 steps), started on a frame or between frames, forward and reversed;
  * many particles (70 000 / 130 000) sampled at once, released late;
  * single precision files (the format of real ROMS output) next to double precision ones.

Every case states the property clause itself at EVERY step of the run: velocity(X, Y, Z, f) for f = 0, 1/2, 1 and
variables[u], variables[v] against the linear interpolation between the two bracketing frames evaluated at
t + f dt, the scalar against the latest frame at or before the model time (numpy, vectorised over steps).
The "exact" cases use frame values whose increments are spacing x dyadic slope, so that every floating point
operation of any correct evaluation order (running sum, fresh start from the frame, blocked) is exact and the
comparison is `==`; the "general" cases use decimal values and the module's tolerance 1e-9 (scaled by the
number of accumulated increments' worth of double precision round-off, which stays below it).
"""
from __future__ import annotations

import shutil

import numpy as np

FRACTIONS = (0.0, 0.5, 1.0)
SLOPES = [1, -2, 4, 3, -5, 2, 7, -1, 6, -3, 5, -4]  # neighbours differ: the slope changes at every frame


# ---------------------------------------------------------------------------------------------
# the family
# ---------------------------------------------------------------------------------------------
def scale_cases(thorough=False):
    """deterministic, the same for every seed; the thorough tier has a few larger ones on top"""
    C = []

    def add(name, spacings, parts, **kw):
        d = {"scale": name, "spacings": spacings, "parts": parts, "dt": 60, "offset": 0, "reversed": False,
             "scalar": True, "exact": True, "dtype": "f8", "nparticles": 1, "via": "forcing", "vmode": "2u", "fractions": [0.0, 0.5, 1.0]}
        d.update(kw)
        C.append(d)

    # -- steps between two frames: around round decimal numbers and powers of two
    add("gap-999..1500-onefile", [999, 1000, 1001, 1024, 1025, 1500], [7], dt=60)
    add("gap-1200-1500-rev-between-frames-2files", [1200, 1500, 1200], [2, 2], dt=60, offset=100, reversed=True,
        vmode="affine")
    add("gap-2047..4097-3files-start-between-frames", [2047, 2048, 2049, 4096, 4097], [1, 3, 2], dt=30, offset=130,
        scalar=False)
    add("gap-daily-frames-dt10s-one-frame-per-file-f4", [8640, 8640], [1, 1, 1], dt=10, offset=8000, dtype="f4")
    add("gap-3day-means-dt120s-general", [2160, 2160], [2, 1], dt=120, offset=700, exact=False, vmode="affine")
    add("gap-10000-20001-rev-f4", [10000, 20001], [3], dt=5, reversed=True, dtype="f4", fractions=[0.5])
    # -- a long run (more than 2^16 steps), moderate gaps, files of uneven size
    add("long-run-66000-steps-17-files", {"cycle": [1750, 1000, 2500, 1024, 726], "n": 48},
        [1, 2, 3, 4, 5, 1, 2, 3, 4, 5, 1, 2, 3, 4, 5, 3, 1], dt=20, offset=2300, fractions=[0.5])
    # -- many frames in many files
    add("frames-1040-in-104-files", {"cycle": [1, 2, 1, 3, 1, 1, 4], "n": 1039}, {"each": 10, "n": 104}, dt=600)
    # -- many particles
    add("particles-70000-late-release", [5, 3, 1, 1, 6, 2], [3, 4], dt=600, offset=2, nparticles=70000, late=4,
        exact=False)
    add("particles-130000-rev", [4, 1, 2, 7], [2, 1, 2], dt=600, nparticles=130000, reversed=True, exact=False,
        vmode="affine")
    # -- through the real Model (configuration dictionary, main's loop), realistic dt / frame interval
    add("model-1025-particles-gap-1200-1500", [1200, 1500], [1, 2], dt=60, offset=250, nparticles=1025,
        via="model", late=37)
    if thorough:
        add("frames-1500-in-one-file-spacing-dt", {"cycle": [1], "n": 1499}, [1500], dt=300)
        add("frames-1100-one-per-file-rev", {"cycle": [2, 1, 3], "n": 1099}, {"each": 1, "n": 1100}, dt=600,
            reversed=True, offset=1, scalar=False)
        add("gap-40000-70001-dt1s", [40000, 70001], [2, 1], dt=1, offset=39000)
        add("long-run-140000-steps-general", {"cycle": [1750, 1000, 2500, 1024, 726], "n": 100}, {"each": 1, "n": 101},
            dt=20, reversed=True, offset=17, exact=False)
        add("model-4097-particles-gap-1200-1500-rev", [1200, 1500, 1100], [1, 2, 1], dt=60, offset=250, nparticles=4097,
            via="model", late=37, reversed=True)
    return C


def expand(spec, default_n=None):
    if isinstance(spec, dict):
        if "cycle" in spec:
            cyc = spec["cycle"]
            return [cyc[j % len(cyc)] for j in range(spec["n"])]
        return [spec["each"]] * spec["n"]
    return list(spec)


def build(desc):
    """layout dict of c03_impl (dt, start, stop, reversed, files, vvals)"""
    spacings = expand(desc["spacings"])
    parts = expand(desc["parts"])
    m = len(spacings) + 1
    assert sum(parts) == m, (sum(parts), m)
    dt = desc["dt"]
    t0 = 7200
    times = np.concatenate([[0], np.cumsum(spacings)]) * dt + t0
    if desc["exact"]:
        # increments spacing x (integer x 1/4): dU, u += dU, u0 + n dU and u + dU/2 are all exact
        sl = np.array([SLOPES[j % len(SLOPES)] for j in range(m - 1)], dtype=float) * 0.25
        # keep the values bounded in long layouts: turn the sign of a stretch of slopes when the sum drifts
        inc = np.array(spacings, dtype=float) * sl
        vals = [3.0]
        for x in inc:
            vals.append(vals[-1] + (x if abs(vals[-1] + x) <= 30000.0 else -x))
        uv = np.array(vals)
        tv = 10.0 + 0.5 * (np.arange(m) % 97)
    else:
        j = np.arange(m)
        uv = np.round(1.3 * np.sin(0.7 * j + 0.3) + 0.011 * (j % 13), 3)
        tv = np.round(8.0 + 5.0 * np.cos(1.1 * j), 2)
    vv = 2.0 * uv if desc["vmode"] == "2u" else 2.0 - 3.0 * uv
    frames = [[int(times[j]), float(uv[j]), float(tv[j])] for j in range(m)]
    files, k = [], 0
    for n in parts:
        files.append(frames[k:k + n])
        k += n
    off = desc["offset"]
    assert 0 <= off < sum(spacings)
    if desc["reversed"]:
        start, stop = int(times[-1]) - off * dt, int(times[0])
    else:
        start, stop = int(times[0]) + off * dt, int(times[-1])
    lay = {"dt": dt, "start": start, "stop": stop, "reversed": bool(desc["reversed"]), "files": files,
           "vvals": [float(x) for x in vv]}
    return lay, times.astype(np.int64), uv, vv, tv


def expected(desc, times, uv, vv, tv, nsteps, start):
    """the property text, vectorised over the steps of the run: arrays [nsteps, 3] for u and v, [nsteps] scalar"""
    dt = desc["dt"]
    rev = bool(desc["reversed"])
    sg = -1.0 if rev else 1.0
    k = np.arange(nsteps, dtype=np.int64)
    t = start + (-k if rev else k) * dt  # model time of every step (integers)
    T = times.astype(float)
    fractions = desc["fractions"]
    U = np.empty((nsteps, len(fractions)))
    V = np.empty((nsteps, len(fractions)))
    for c, f in enumerate(fractions):
        tf = t.astype(float) + (-f if rev else f) * dt
        i = np.clip(np.searchsorted(T, tf, side="left") - 1, 0, len(T) - 2)  # bracket T[i] < tf <= T[i+1] (or the first)
        w = (tf - T[i]) / (T[i + 1] - T[i])
        assert (w >= 0).all() and (w <= 1).all(), "model time not covered by the frames"
        for vals, out in ((uv, U), (vv, V)):
            out[:, c] = sg * (vals[i] + (vals[i + 1] - vals[i]) * (tf - T[i]) / (T[i + 1] - T[i]))
    # the field at the step itself (variables[u], variables[v]; fraction 0)
    tf = t.astype(float)
    i = np.clip(np.searchsorted(T, tf, side="left") - 1, 0, len(T) - 2)
    U0 = sg * (uv[i] + (uv[i + 1] - uv[i]) * (tf - T[i]) / (T[i + 1] - T[i]))
    V0 = sg * (vv[i] + (vv[i + 1] - vv[i]) * (tf - T[i]) / (T[i + 1] - T[i]))
    if rev:
        j = np.searchsorted(times, t, side="left")  # first frame at or after the model time = the latest one met
    else:
        j = np.searchsorted(times, t, side="right") - 1
    return t, {"u": U, "v": V, "uvar": U0, "vvar": V0, "temp": tv[j]}


# ---------------------------------------------------------------------------------------------
# drivers of the real code
# ---------------------------------------------------------------------------------------------
def positions(n):
    """n particle positions well inside the 6 x 5 grid of c03_impl.write_layout, deterministic"""
    if n == 1:
        return np.array([2.25]), np.array([2.5]), np.array([10.0])
    k = np.arange(n, dtype=float)
    X = 1.625 + (k * 0.6180339887498949) % 1.75   # the interior of the default subgrid is 1.5 < X < 3.5, 1.5 < Y < 2.5
    Y = 1.625 + (k * 0.7548776662466927) % 0.75
    Z = 1.0 + (k * 0.5698402909980532 * 90.0) % 90.0
    return X, Y, Z


def write_files(d, lay, dtype):
    """the files of the layout, as c03_impl.write_layout writes them (uniform fields on a 6 x 5 x 2 grid; every file
    has its own time reference and unit) but with names that sort correctly for more than 1000 files"""
    import romsfiles as rf

    names, pos = [], 0
    vvals = lay["vvals"]
    for k, frames in enumerate(lay["files"]):
        m = len(frames)
        u = np.array([f[1] for f in frames], dtype=float).reshape(-1, 1, 1, 1)
        v = np.array(vvals[pos:pos + m], dtype=float).reshape(-1, 1, 1, 1)
        t = np.array([f[2] for f in frames], dtype=float).reshape(-1, 1, 1, 1)
        pos += m
        p = d / f"forcing_{k:05d}.nc"
        rf.write_roms(p, imax=6, jmax=5, N=2, times=[f[0] for f in frames], u=u, v=v, extra={"temp": t}, dtype=dtype,
                      time_ref_shift=[0, -86400, 900, 86400][k % 4], time_unit=["s", "d", "h", "s"][(k + m) % 4])
        names.append(p)
    return names


class Obs:
    """what is in force at every step: smallest and largest value over all particles (one number when there is
    one particle), compared with the expected values after the run, vectorised over the steps"""

    def __init__(self, nsteps, scalar, fractions):
        self.fractions = tuple(fractions)
        nf = len(self.fractions)
        self.lo = {"u": np.full((nsteps, nf), np.nan), "v": np.full((nsteps, nf), np.nan),
                   "uvar": np.full(nsteps, np.nan), "vvar": np.full(nsteps, np.nan)}
        if scalar:
            self.lo["temp"] = np.full(nsteps, np.nan)
        self.hi = {k: a.copy() for k, a in self.lo.items()}
        self.count = np.zeros(nsteps, dtype=np.int64)
        self.shape_problem = None

    def _put(self, key, idx, arr, npart, n, what):
        a = np.asarray(arr)
        if a.shape != (npart,):
            self.shape_problem = f"step {n}: {what} has shape {a.shape} for {npart} particles"
            return False
        if npart == 1:
            self.lo[key][idx] = self.hi[key][idx] = a[0]
        else:
            self.lo[key][idx] = a.min()   # NaN propagates and counts as a deviation
            self.hi[key][idx] = a.max()
        return True

    def take(self, n, force, st, scalar):
        npart = len(st)
        self.count[n] = npart
        if npart == 0:
            return
        X, Y, Z = st.X, st.Y, st.Z
        for c, f in enumerate(self.fractions):
            U, V = force.velocity(X, Y, Z, fractional_step=f)
            if not (self._put("u", (n, c), U, npart, n, f"velocity(fraction {f})")
                    and self._put("v", (n, c), V, npart, n, f"v-velocity(fraction {f})")):
                return
        var = force.variables
        ok = self._put("uvar", n, var["u"], npart, n, "variables[u]") and self._put("vvar", n, var["v"], npart, n, "variables[v]")
        if ok and scalar:
            self._put("temp", n, var["temp"], npart, n, "variables[temp]")

    def deviation(self, key, want):
        """(largest deviation from `want` over the particles, the value that deviates most), per step"""
        lo, hi = self.lo[key], self.hi[key]
        dl, dh = np.abs(lo - want), np.abs(hi - want)
        use_hi = ~(dh <= dl)   # also when NaN
        return np.where(use_hi, dh, dl), np.where(use_hi, hi, lo)


def drive_forcing(d, desc, lay, nsteps):
    """TimeKeeper, Grid, State, Forcing driven as Model.update does: timer, (release), forcing, every step"""
    import romsfiles as rf
    from ladim.ROMS import Forcing, Grid
    from ladim.state import State
    from ladim.timekeeper import TimeKeeper

    scalar = desc["scalar"]
    names = write_files(d, lay, desc["dtype"])
    tk = TimeKeeper(start=rf.iso(lay["start"]), stop=rf.iso(lay["stop"]), dt=lay["dt"],
                    time_reversal=bool(lay["reversed"]))
    if tk.Nsteps != nsteps:
        return None, f"TimeKeeper.Nsteps = {tk.Nsteps} for a run of {nsteps} steps"
    st = State(instance_variables={"temp": float} if scalar else None)
    grid = Grid(filename=names[0])
    mods = {"time": tk, "state": st, "grid": grid}
    X, Y, Z = positions(desc["nparticles"])
    late = desc.get("late", 0)

    def release():
        st.append(X=X, Y=Y, Z=Z, **({"temp": 0.0} if scalar else {}))

    if late == 0:
        release()
    force = Forcing(mods, filename=str(d / "forcing_*.nc"), extra_forcing=["temp"] if scalar else None)
    mods["forcing"] = force
    obs = Obs(nsteps, scalar, desc["fractions"])
    try:
        for n in range(nsteps):
            tk.update()
            if n == late and late > 0:
                release()
            force.update()
            obs.take(n, force, st, scalar)
            if obs.shape_problem:
                break
    finally:
        try:
            force.close()
        except Exception:  # noqa: BLE001
            pass
    return obs, None


def drive_model(d, desc, lay, nsteps):
    """the real ladim.model.Model on a configuration dictionary with the loop of ladim.main; the particles are
    released `late` steps into the run from a release file; no advection (the positions stay put)"""
    import romsfiles as rf
    import run_ladim as rl

    scalar = desc["scalar"]
    names = write_files(d, lay, desc["dtype"])
    sg = -1 if lay["reversed"] else 1
    X, Y, Z = positions(desc["nparticles"])
    trel = lay["start"] + sg * desc.get("late", 0) * lay["dt"]
    with open(d / "scale.rls", "w") as fid:
        stamp = rf.iso(trel)
        fid.write("".join(f"{stamp} {x!r} {y!r} {z!r}\n" for x, y, z in zip(X.tolist(), Y.tolist(), Z.tolist())))
    conf = rf.base_config(start=lay["start"], stop=lay["stop"], dt=lay["dt"], forcing_file=d / "forcing_*.nc",
                          grid_file=names[0], release_file=d / "scale.rls", out_file=d / "model_out.nc", advection="",
                          time_reversal=bool(lay["reversed"]), output_period=nsteps * lay["dt"],
                          instance_variables=("pid",))
    if scalar:
        conf["state"] = {"instance_variables": {"temp": "float"}, "default_values": {"temp": 0.0}}
        conf["forcing"]["extra_forcing"] = ["temp"]
    obs = Obs(nsteps, scalar, desc["fractions"])

    def per_step(model, n):
        if obs.shape_problem is None:
            obs.take(n, model.force, model.state, scalar)

    model = rl.run_conf(conf, per_step=per_step)
    if model.timer.Nsteps != nsteps:
        return None, f"the model ran {model.timer.Nsteps} steps for a run of {nsteps} steps"
    return obs, None


# ---------------------------------------------------------------------------------------------
# evaluation
# ---------------------------------------------------------------------------------------------
def eval_scale(desc, d):
    lay, times, uv, vv, tv = build(desc)
    nsteps = abs(lay["stop"] - lay["start"]) // lay["dt"]
    t, want = expected(desc, times, uv, vv, tv, nsteps, lay["start"])
    d.mkdir(parents=True, exist_ok=True)
    try:
        obs, bad = (drive_model if desc["via"] == "model" else drive_forcing)(d, desc, lay, nsteps)
    finally:
        shutil.rmtree(d, ignore_errors=True)
    spac = expand(desc["spacings"])
    nfiles = len(lay["files"])
    what = (f"scale case {desc['scale']} ({len(spac) + 1} frames, {min(spac)}..{max(spac)} steps apart, {nfiles} file(s), "
            f"dt={desc['dt']} s, {nsteps} steps {'reversed' if desc['reversed'] else 'forward'} from {desc['offset']} steps "
            f"inside the window, {desc['nparticles']} particle(s), {desc['dtype']} files, via {desc['via']})")
    problem = bad
    observed = {"steps": nsteps, "frames": len(spac) + 1, "files": nfiles}
    if obs is not None:
        problem = obs.shape_problem or judge(desc, obs, t, times, want, nsteps)
        with_p = obs.count > 0
        observed.update({"steps_with_particles": int(with_p.sum()), "max_particles": int(obs.count.max()) if nsteps else 0,
                         "worst_deviation_u": float(np.nanmax(obs.deviation("uvar", want["uvar"])[0][with_p]))
                         if with_p.any() else None})
    return {"ints": None, "oracle": f"{what}: {problem}" if problem else None,
            "nontrivial": ("scale", desc["scale"]), "kind": "scale-" + desc["via"], "observed": observed,
            "layouts": 1, "nontrivial_layouts": 1}


def judge(desc, obs, t, times, want, nsteps):
    """None when the clause holds at every step that has particles"""
    # exact only where the arithmetic is exact by construction: dyadic frame values AND the one particle of the
    # module's small cases (with many particles at arbitrary positions the spatial weights do not add up to exactly 1)
    tol = 0.0 if desc["exact"] and desc["nparticles"] == 1 else 1e-9
    late = desc.get("late", 0)
    want_count = np.where(np.arange(nsteps) >= late, desc["nparticles"], 0)
    if not np.array_equal(obs.count, want_count):
        n = int(np.flatnonzero(obs.count != want_count)[0])
        return f"step {n}: {int(obs.count[n])} particles in the state, {int(want_count[n])} released and none removed"
    has = obs.count > 0
    rev = bool(desc["reversed"])

    def where(n):
        tt = int(t[n])
        if rev:
            j = min(int(np.searchsorted(times, tt, side="left")), len(times) - 1)
        else:
            j = int(np.searchsorted(times, tt, side="right")) - 1
        since = abs(tt - int(times[j])) // desc["dt"]
        return f"step {n} (model time {tt} s, {since} steps after the frame at {int(times[j])} s)"

    lerp = "linear interpolation between the bracketing frames gives"
    checks = [("uvar", None, "variables[u]", lerp), ("vvar", None, "variables[v]", lerp)]
    for c, f in enumerate(desc["fractions"]):
        checks.append(("u", c, f"velocity(fraction {f})", lerp))
    for c, f in enumerate(desc["fractions"]):
        checks.append(("v", c, f"v-velocity(fraction {f})", lerp))
    if desc["scalar"]:
        checks.append(("temp", None, "scalar", "latest frame at or before the model time has"))
    for key, c, name, text in checks:
        dev, got = obs.deviation(key, want[key])
        w = want[key]
        if c is not None:
            dev, got, w = dev[:, c], got[:, c], w[:, c]
        badmask = has & ~(dev <= tol)   # NaN (nothing observed) counts as a deviation
        if badmask.any():
            n = int(np.flatnonzero(badmask)[0])
            last = int(np.flatnonzero(badmask)[-1])
            return (f"{where(n)}: {name} = {float(got[n])!r}, {text} {float(w[n])!r}; {int(badmask.sum())} of "
                    f"{int(has.sum())} steps deviate, the last one is step {last}")
    return None
