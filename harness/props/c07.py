"""C07 — every scheduled output time is written for any duration, period, file split."""
from __future__ import annotations

import re
from pathlib import Path

import numpy as np
from netCDF4 import Dataset

import romsfiles as rf
import run_ladim as rl
import c07_scale

PROP = "C07"
THEOREM_FILE = "Props/C07.v"
CHECKER = "Corr.C07"
SHARD = 150
RULE = ("The real Output (ladim.out_netcdf) driven for every (N, p, numrec) in a box, both layouts, with/without "
        "particle variables, forward/reversed, several file-name prototypes (also name_04.nc); plus end-to-end runs "
        "through ladim.main.main. Observed: exit status, set of files, numbering, time variables, particle variables, "
        "readability. Non-trivial = N mod p != 0 or several files. The (N,p,numrec) box is enumerated completely "
        "(this enumerates inputs to the correspondence; the theorem is unbounded). First in the list, always: a fixed family "
        "of SCALE cases (c07_scale.py, oracle only): more than 1000 split files, more than 1000 records per file, more than "
        "1000 steps between records, 70000 particles per record, prototypes whose number outgrows its width, a run of 1001 "
        "steps through ladim.main.main split one record per file and unsplit; every file and record checked.")
TRUSTED = ["Coq 8.16.1 kernel + vm_compute", "hand-written cursor machine coq/Model/Output.v tied by this correspondence",
           "netCDF4/HDF5 store what they are given"]
ASSUMPTIONS = ["duration a whole number of steps and period a multiple of dt (the property's quantifier); "
               "a duration with a fractional last step is exercised too (Nsteps = floor)"]
EXHAUSTIVE = {"quick": True, "thorough": True}
DT = 600


def gen_cases(ctx):
    rng = ctx.rng
    out = []
    Nmax, pmax, rmax = (9, 4, 3) if ctx.quick else (26, 9, 6)
    for N in range(0, Nmax + 1):
        for p in range(1, pmax + 1):
            for numrec in range(0, rmax + 1):
                out.append({"k": "out", "N": N, "p": p, "numrec": numrec, "layout": rng.choice(["sparse", "sparse", "dense"]),
                            "pvars": rng.random() < 0.6, "rev": rng.random() < 0.35,
                            "proto": rng.choice(["out.nc", "out.nc", "run_04.nc", "a_b_007.nc", "x_99.nc", "ladim_2020_000.nc", "run10_010.nc", "r__1.nc", "t_0_00.nc",
                                                 "out.v2.nc", "run.2000-01_07.nc", "a.b.c_1.nc"]),
                            "rem": rng.choice([0, 0, 0, 250]), "ref": rng.choice([None, None, -946684800, 10**9]),
                            "dt": [600, 300, 1200, 200, 43200][len(out) % 5],
                            # the output period as an int of seconds, a numpy timedelta or a datetime.timedelta (with the
                            # half-day step: periods of a day and more, days and seconds apart in a datetime.timedelta)
                            "pspell": ["int", "td64", "tdelta"][(len(out) // 5) % 3]})
    for N, p, numrec in ([(5, 2, 0), (5, 2, 2), (7, 3, 2), (6, 2, 3), (4, 1, 4), (1, 3, 1)] if ctx.quick else
                         [(rng.randint(1, 20), rng.randint(1, 6), rng.randint(0, 4)) for _ in range(40)]):
        out.append({"k": "main", "N": N, "p": p, "numrec": numrec, "layout": rng.choice(["sparse", "dense"]),
                    "pvars": True, "rev": rng.random() < 0.4, "proto": "o.nc", "rem": 0, "ref": rng.choice([None, -946684800]),
                    "dt": [600, 300, 1200][len(out) % 3]})
    # the scale family comes first, at fixed positions, and does not touch the random stream of the cases above
    return c07_scale.scale_cases(ctx.quick) + out


def observe_files(d, proto, multifile, tstart, rev, DT=DT):
    stem, suffix = Path(proto).stem, Path(proto).suffix
    m = re.search(r"_(\d+)$", stem)
    prefix = stem[: m.start()] if m else stem
    found = []
    for f in sorted(d.glob("*" + suffix)):
        if multifile:
            mm = re.fullmatch(re.escape(prefix) + r"_(\d+)", f.stem)
            if not mm:
                continue
            num, width = int(mm.group(1)), len(mm.group(1))
        else:
            if f.name != proto:
                continue
            num, width = 0, 1
        with Dataset(f) as nc:  # readable = closed properly
            nc.set_auto_mask(False)
            t = nc.variables["time"][:]
            units = nc.variables["time"].units
            ref = np.datetime64(units.split("since")[1].strip())
            # a record whose time was never written holds the fill value: reported as a record at an impossible time
            tabs = [int((ref + np.timedelta64(int(round(x)), "s") - rf.EPOCH) / np.timedelta64(1, "s")) if abs(float(x)) < 1e15
                    else 10**15 for x in t]
            steps = [((tstart - x) if rev else (x - tstart)) // DT for x in tabs]
            exact = all(((tstart - x) if rev else (x - tstart)) % DT == 0 for x in tabs)
            npart = len(nc.dimensions["particle"])
            pv = bool("weight" in nc.variables and len(nc.variables["weight"][:]) > 0 and npart > 0)
        found.append({"name": f.name, "num": num, "width": width, "steps": steps, "exact": exact, "pv": pv})
    found.sort(key=lambda f: f["num"])
    return found


def eval_case(desc, ctx):
    if desc["k"] == "scale":
        return c07_scale.eval_scale(desc, ctx)
    N, p, numrec, rev = desc["N"], desc["p"], desc["numrec"], desc["rev"]
    # the time step differs from case to case (the same output period in seconds is then another number of steps)
    DT = desc.get("dt", 600)
    desc = dict(desc, rem=desc["rem"] if desc["rem"] < DT else DT // 2)  # the part of a step left over at the end
    if N * DT + desc["rem"] == 0:
        rev = False  # a zero-length window is forward by definition
    d = ctx.subdir(f"c07_{N}_{p}_{numrec}_{desc['k']}")
    for f in d.glob("*"):
        f.unlink()
    tstart = 100000
    dur = N * DT + desc["rem"]
    tstop = tstart - dur if rev else tstart + dur
    crashed = None
    if desc["k"] == "out":
        from ladim.out_netcdf import Output
        from ladim.state import State
        from ladim.timekeeper import TimeKeeper

        # reference time of the output: the default (the start), or far before / after the run (time values of the
        # order 1e9 s, period of the order 1e3 s)
        refopt = desc.get("ref")
        tk = TimeKeeper(start=rf.iso(tstart), stop=rf.iso(tstop), dt=DT, time_reversal=rev,
                        reference=None if refopt is None else rf.iso(refopt))
        st = State(particle_variables={"weight": float} if desc["pvars"] else None)
        st.append(X=np.array([1.0, 2.0]), Y=2.0, Z=3.0, **({"weight": np.array([5.0, 6.0])} if desc["pvars"] else {}))
        ivars = {v: {"encoding": {"datatype": "f8"}, "attributes": {}} for v in ("X", "Y")}
        ivars["pid"] = {"encoding": {"datatype": "i4"}, "attributes": {}}
        pv = {"weight": {"encoding": {"datatype": "f8"}, "attributes": {}}} if desc["pvars"] else None
        mods = {"time": tk, "state": st, "grid": None}
        out = None
        try:
            import datetime
            period = {"int": p * DT, "td64": np.timedelta64(p * DT, "s"), "tdelta": datetime.timedelta(seconds=p * DT)}[desc.get("pspell", "int")]
            out = Output(mods, d / desc["proto"], period, ivars, pv, layout=desc["layout"], numrec=numrec)
            for _ in range(tk.Nsteps):
                tk.update()
                out.update()
            out.close()
        except Exception as e:  # noqa: BLE001
            crashed = f"{type(e).__name__}: {e}"
            try:
                out.close()
            except Exception:  # noqa: BLE001
                pass
    else:
        rf.write_roms(d / "f.nc", imax=8, jmax=6, N=2, times=[min(tstart, tstop), max(tstart, tstop) + DT])
        rf.write_release(d / "r.rls", [[tstart, 3.0, 3.0, 5.0, 2.5]])
        conf = rf.base_config(start=tstart, stop=tstop, dt=DT, forcing_file=d / "f.nc", release_file=d / "r.rls",
                              out_file=d / desc["proto"], output_period=p * DT, numrec=numrec, layout=desc["layout"],
                              time_reversal=rev, names=["release_time", "X", "Y", "Z", "weight"], reference=desc.get("ref"))
        conf["state"] = {"particle_variables": {"weight": "float"}}
        conf["output"]["particle_variables"] = {"weight": {"encoding": {"datatype": "f8"}, "attributes": {}}}
        if (N + p + numrec) % 2 == 0:
            # in half of the runs the only particle is killed (by an IBM given by path) at step 1: the rest of the run has
            # no particles at all and must still write every due record, each in its file
            conf["ibm"] = {"module": str(Path(__file__).resolve().parents[1] / "plugins" / "kill_ibm.py"), "kill": {1: [0]}}
        try:
            rl.run_main(conf, d)
        except BaseException as e:  # noqa: BLE001
            crashed = f"{type(e).__name__}: {e}"
    files = [] if crashed else observe_files(d, desc["proto"], numrec > 0, tstart, rev, DT)
    stem = Path(desc["proto"]).stem
    m = re.search(r"_(\d+)$", stem)
    ints = [N, p, numrec, int(numrec > 0), int(bool(m)), int(m.group(1)) if m else 0, len(m.group(1)) if m else 0,
            int(desc["pvars"]), int(bool(crashed)), len(files)]
    for f in files:
        ints += [f["num"], f["width"], 1, int(f["pv"]), len(f["steps"])] + f["steps"]
    # ---- property text
    problems = []
    want = [k for k in range(N) if k % p == 0]
    if crashed:
        problems.append(f"run did not end normally: {crashed}")
    else:
        got = [s for f in files for s in f["steps"]]
        if got != want or not all(f["exact"] for f in files):
            problems.append(f"records written at steps {got}, due {want}")
        if numrec > 0:
            start = int(m.group(1)) if m else 0
            width = len(m.group(1)) if m else 3
            nfiles = max(1, -(-len(want) // numrec))
            names = [f["name"] for f in files]
            prefix = stem[: m.start()] if m else stem
            wnames = [f"{prefix}_{start + i:0{width}d}{Path(desc['proto']).suffix}" for i in range(nfiles)]
            if names != wnames:
                problems.append(f"files {names}, documented numbering gives {wnames}")
            sizes = [len(f["steps"]) for f in files]
            if any(s != numrec for s in sizes[:-1]) or (sizes and sizes[-1] > numrec):
                problems.append(f"records per file {sizes} with numrec={numrec}")
        elif len(files) != 1:
            problems.append(f"unsplit run produced files {[f['name'] for f in files]}")
        if desc["pvars"] and want and any(not f["pv"] for f in files):
            problems.append(f"particle variables missing in {[f['name'] for f in files if not f['pv']]}")
    nt = (N, p, numrec, desc["layout"], desc["pvars"], rev, desc["proto"], desc["k"]) if (N % p != 0 or len(files) > 1) else None
    return {"ints": ints, "oracle": "; ".join(problems) or None, "nontrivial": nt,
            "kind": f"{desc['k']}-{desc['layout']}-{'rev' if rev else 'fwd'}", "observed": {"crashed": crashed, "files": files}}
