"""C14 — particles are independent; runs are reproducible and time-shift invariant."""
from __future__ import annotations

import hashlib
import os
import subprocess
import sys

import c14_scale as sc
import setup_impl as su
import sim_impl as si

PROP = "C14"
THEOREM_FILE = "Props/C14.v"
CHECKER = "Corr.SysRun"
SHARD = 6
RULE = ("End-to-end runs through ladim.main.main on generated scenarios (depth-dependent time-varying current, deaths "
        "by lifetime and at the open boundary, late releases, scalar forcing, ageing IBM): the full release table, a "
        "random sub-table, a permutation of the rows of equal release time, a whole-step time shift; every run's "
        "records are compared exactly with the executable Sim instance in Coq, and the oracle compares the "
        "trajectories of common rows between the paired runs bit for bit. Thorough: the base run repeated in fresh "
        "interpreters under different PYTHONHASHSEED, output files compared byte for byte. Non-trivial = scenario in "
        "which a particle dies while a later-numbered particle of a different depth class survives. "
        "Scale (oracle only, always first): a fixed family of runs through ladim.main.main over a sloping bottom with "
        "sheared time-varying currents and an island, 1000 .. 131073 release rows (EF/RK2/RK4, deaths at the open "
        "boundary and by age) and an 1100-step run with 70000 pids released at 137 instants: the full table against a "
        "sub-table (a random tenth, the tail, the rows around powers of two and multiples of 10000), a random "
        "reordering of the rows of equal release time and a whole-step time shift; every stored instance of every "
        "common row must be identical (pid, X, Y, Z, age, sampled scalar) up to renumbering.")
TRUSTED = ["Coq 8.16.1 kernel + vm_compute", "system model coq/Model/Sim.v (abstract physics; cache by position) and its executable instance coq/Corr/SimInst.v tied by this correspondence",
           "run-to-run reproducibility of the interpreter is exercised, not proved (partial)"]
ASSUMPTIONS = ["diffusion off", "component laws (forcing/release are functions of the step; tracker/IBM act per particle) are what C02/C03/C04/C09 establish"]


def gen_cases(ctx):
    rng = ctx.rng
    # deterministic cases of realistic size first (they do not draw from the generator)
    out = sc.scale_cases()
    for _ in range(10 if ctx.quick else 90):
        env = si.make_env(rng)
        n = len(env["rows"])
        keep = sorted(rng.sample(range(n), rng.randint(1, max(1, n - 1)))) if n > 1 else [0]
        out.append({"k": "indep", "env": env, "keep": keep, "shift": rng.choice([1, 3, 7]) * si.DT, "seed": rng.randrange(10**6),
                    "hashseeds": (not ctx.quick) and rng.random() < 0.2})
    # a fixed scenario: the first particle leaves the grid at once and a new one is released at the next step, so the
    # per-particle arrays keep their length while the survivor (exactly on a rho level) changes slot
    N = 6
    out.append({"k": "indep", "keep": [1, 2], "shift": 3 * si.DT, "seed": 424242, "hashseeds": False,
                "env": {"N": N, "p": 1, "life": -1, "utab": [[0.25, 0.5, 2.5] for _ in range(N)],
                        "ttab": [[float(3 * n + 1), float(3 * n + 2), float(3 * n + 3)] for n in range(N)],
                        "rows": [[0, 17.0, 2], [0, 5.0, 1], [1, 6.0, 0], [3, 7.5, 1]]}})
    # fixed set-ups: without the rows released at the start the first release comes at step 2 / step 3, strictly between
    # two forcing frames (steps 0, 4, 8 in two files), after steps with no particles; with a life time of two steps
    # the model is empty again before the release of step 6
    for rev, life, rows in ((False, -1, [[0, 1, 5.0, 0], [2, 2, 6.5, 1], [5, 1, 4.25, 2]]),
                            (True, 2, [[0, 1, 9.0, 1], [3, 1, 8.0, 0], [6, 1, 7.5, 1]])):
        out.append({"k": "setup", "seed": 1414 + life, "shift": 3 * si.DT,
                    "setup": {"N": 8, "rev": rev, "S": 51200, "p": 1, "life": life, "fsteps": [0, 4, 8], "u": [0.5, 1.5, -0.5],
                              "temp": [3.0, 7.0, 11.0], "cuts": [1], "rows": rows, "outside": [], "cont": 0, "land": []}})
    # whole set-ups (Model/Setup.v): irregular frames in several files, release table with times; the run and
    # the run of the set-up shifted by d seconds (whole steps and not), both against the model compiled in Coq
    for q in range(6 if ctx.quick else 60):
        out.append({"k": "setup", "setup": su.gen_setup(rng), "seed": rng.randrange(10**6),
                    "shift": rng.choice([si.DT, 3 * si.DT, 7 * si.DT, 1000, -777, 86400])})
    return out


def eval_warm(desc, d):
    """other particles dying right after a restart must not change a survivor's trajectory: the restarted run
    is compared with the uninterrupted one (which the Sim instance reproduces)"""
    env = desc["env"]
    cold, files, conf = si.run_forward(d, env, "cold", numrec=desc["numrec"])
    runs, problems = [si.enc_run(0, 0, cold)], []
    for fi in range(len(files) - 1):
        last = [r for r in cold if r["file"] == files[fi].name][-1]
        warm, _ = si.run_warm(d, env, f"w{fi}", conf, files[fi], fi + 1)
        runs.append(si.enc_run(2, last["step"], warm))
        want = [r for r in cold if r["step"] > last["step"]]
        tw, tc = si.traj_by_row(warm, None), si.traj_by_row(want, None)
        for q in tc:
            if tw.get(q) != tc[q]:
                problems.append(f"restart after {files[fi].name}: particle {q} trajectory {tw.get(q)} != uninterrupted {tc[q]}")
    ints = [0] + si.enc_env(env) + [len(runs)] + [x for r in runs for x in r]
    return {"ints": ints, "oracle": "; ".join(problems[:3]) or None, "nontrivial": (desc["seed"], "warm"), "kind": "warm-indep",
            "observed": {"files": len(files)}}


def eval_case(desc, ctx):
    d = ctx.subdir("c14")
    for f in d.glob("*"):
        f.unlink()
    if desc["k"] == "scale":
        problems, obs = sc.eval_scale(desc, d)
        return {"ints": None, "oracle": "; ".join(problems[:3]) or None, "nontrivial": ("scale", desc["n"], desc["adv"], desc["nsteps"]),
                "kind": "scale-long" if desc["nsteps"] > 1000 else "scale", "observed": obs}
    if desc["k"] == "setup":
        cases, problems, nt = su.eval_setup(desc["setup"], d, [(2, desc["shift"])], indep=True)
        return {"ints": cases, "oracle": "; ".join(problems[:3]) or None, "nontrivial": (desc["seed"], "setup") if nt else None,
                "kind": "setup-shift-" + ("rev" if desc["setup"]["rev"] else "fwd"), "observed": {"frames": desc["setup"]["fsteps"], "shift": desc["shift"], "adv": su.ADV[int(desc["setup"].get("adv", 0))]}}
    env = desc["env"]
    if desc["k"] == "warm-indep":
        return eval_warm(desc, d)
    # the forcing files state their times in seconds, hours or days (the frames are the same instants)
    tu = ["s", "d", "h"][desc["seed"] % 3]
    base, files, conf = si.run_forward(d, env, "base", time_unit=tu)
    sub, _, _ = si.run_forward(d, env, "sub", keep=desc["keep"], time_unit=tu)
    sh, _, _ = si.run_forward(d, env, "shift", shift=desc["shift"], time_unit=tu)
    # permutation of the rows within equal release steps (reverse each group)
    order = []
    rows = env["rows"]
    i = 0
    while i < len(rows):
        j = i
        while j < len(rows) and rows[j][0] == rows[i][0]:
            j += 1
        order += list(range(i, j))[::-1]
        i = j
    perm, _, _ = si.run_forward(d, env, "perm", order=order)
    ints = [0] + si.enc_env(env) + [3] + si.enc_run(0, 0, base) + si.enc_run(1, len(desc["keep"]), sub, tags=desc["keep"]) + si.enc_run(0, 0, sh)
    # ---- property text: trajectories of common rows
    problems = []
    tb = si.traj_by_row(base, None)
    ts = si.traj_by_row(sub, None)
    for new_pid, row in enumerate(desc["keep"]):
        if ts.get(new_pid, []) != tb.get(row, []):
            problems.append(f"release row {row} (pid {row} in the full run, {new_pid} in the sub-table run): trajectory {ts.get(new_pid)} != {tb.get(row)}")
    tsh = si.traj_by_row(sh, None)
    if tsh != tb:
        problems.append(f"time shift by {desc['shift']} s changes trajectories: {tsh} != {tb}")
    tp = si.traj_by_row(perm, None)
    for new_pid, row in enumerate(order):
        if tp.get(new_pid, []) != tb.get(row, []):
            problems.append(f"reordering rows of equal time: row {row} trajectory {tp.get(new_pid)} != {tb.get(row)}")
    if desc.get("hashseeds"):
        sums = set()
        for hs in ("1", "4242"):
            env2 = dict(os.environ, PYTHONHASHSEED=hs)
            code = ("import sys; sys.path.insert(0, %r); sys.path.insert(0, %r); import json, sim_impl as si; from pathlib import Path; "
                    "d=Path(%r); env=json.loads(%r); si.run_forward(d, env, 'hs')" % (os.path.dirname(si.__file__), os.path.join(os.path.dirname(si.__file__), '..', 'lib'), str(d), __import__('json').dumps(env)))
            subprocess.run([sys.executable, "-W", "ignore", "-c", code], env=env2, check=True, capture_output=True, timeout=300)
            from netCDF4 import Dataset
            with Dataset(d / "o_hs.nc") as nc:
                nc.set_auto_mask(False)
                h = hashlib.sha256()
                for v in sorted(nc.variables):
                    h.update(v.encode()); h.update(nc.variables[v][:].tobytes())
                sums.add(h.hexdigest())
        if len(sums) != 1:
            problems.append("repeating the run under another PYTHONHASHSEED changes the output")
    # non-trivial: someone dies while a later particle of another class lives on
    nt = None
    for r0, r1 in zip(base, base[1:]):
        p0 = {q for q, *_ in r0["rows"]}; p1 = {q for q, *_ in r1["rows"]}
        gone = p0 - p1
        if gone and any(q > min(gone) for q in p1):
            nt = (desc["seed"],)
    return {"ints": ints, "oracle": "; ".join(problems[:3]) or None, "nontrivial": nt, "kind": "indep",
            "observed": {"records": len(base), "pids": sorted({q for r in base for q, *_ in r["rows"]})}}
