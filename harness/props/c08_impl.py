"""C08: split run vs restart from every file boundary — real code end to end.

scenario dict:
  N (steps), p (output period, steps), numrec, dt, adv, lifetime (seconds or None),
  rows: release rows [t, X, Y, Z], continuous: freq seconds or None, u: float (m/s), pvars: bool
"""
from __future__ import annotations

import copy
from pathlib import Path

import numpy as np

import romsfiles as rf
import run_ladim as rl

PLUG = str(Path(__file__).resolve().parents[1] / "plugins" / "kill_ibm.py")


def make_conf(d, sc, out_name, start=0):
    conf = rf.base_config(
        start=start, stop=sc["N"] * sc["dt"], dt=sc["dt"], forcing_file=d / "f_*.nc", grid_file=d / "f_000.nc", release_file=d / "r.rls",
        out_file=d / out_name, advection=sc.get("adv", "EF"), output_period=sc["p"] * sc["dt"], numrec=sc["numrec"],
        reference=sc.get("reference", 0), instance_variables=("pid", "X", "Y", "Z", "age", "temp"),
    )
    conf["state"] = {"instance_variables": {"age": "float", "temp": "float"}, "default_values": {"age": 0.0, "temp": 0.0}}
    conf["forcing"]["extra_forcing"] = ["temp"]
    conf["ibm"] = {"module": PLUG, "age": True}
    if sc.get("lifetime") is not None:
        conf["ibm"]["lifetime"] = sc["lifetime"]
    if sc.get("kill"):
        conf["ibm"]["kill"] = sc["kill"]
    if sc.get("continuous"):
        conf["release"]["continuous"] = True
        conf["release"]["release_frequency"] = sc["continuous"]
    if sc.get("pvars", True):
        conf["state"]["particle_variables"] = {"release_time": "time"}
        conf["output"]["particle_variables"] = {
            "release_time": {"encoding": {"datatype": "f8"}, "attributes": {"units": "seconds since reference_time"}}
        }
    return conf


def write_inputs(d, sc):
    """forcing split over two files: frames at 0 and mid in f_000.nc, the last frame in f_001.nc, so that a
    restart between mid and the end starts up with its two bracketing frames in different files"""
    imax, jmax, N = 16, 8, 2
    T = sc["N"] * sc["dt"]
    mid = (sc["N"] // 2) * sc["dt"] or sc["dt"]
    times = sorted(set([0, mid, T + sc["dt"]]))
    if sc.get("offgrid"):  # the middle frame is NOT on the model's time grid (a quarter step late)
        times = sorted(set([0, mid + sc["dt"] // 4, T + sc["dt"]]))

    def fields(k):
        u = np.zeros((1, N, jmax, imax - 1)); temp = np.zeros((1, N, jmax, imax))
        u[0, 0] = sc.get("u", 0.2) * (1 + k); u[0, 1] = sc.get("u", 0.2) * (2 + k); temp[0] = 5.0 + k
        return u, temp
    groups = [times[:-1], times[-1:]]
    k = 0
    for fi, g in enumerate(groups):
        us, ts = zip(*[fields(k + j) for j in range(len(g))])
        k += len(g)
        # a shallow bank downstream: particles keep their depth when they drift over it (deeper than the local bottom)
        hh = np.full((jmax, imax), 100.0)
        hh[:, 6:] = 15.0
        rf.write_roms(d / f"f_{fi:03d}.nc", imax=imax, jmax=jmax, N=N, times=g, u=np.concatenate(us), extra={"temp": np.concatenate(ts)}, h=hh)
    rf.write_release(d / "r.rls", sc["rows"])


def files_of(d, stem):
    return sorted(d.glob(stem + "_*.nc"))


def records_of(paths):
    recs = []
    for p in paths:
        o = rl.read_sparse(p, absolute=True)
        for r in o["records"]:
            r = dict(r)
            r["file"] = p.name
            r["pvars"] = o["pvars"]
            recs.append(r)
    return recs


def run_split_and_restarts(d, sc):
    """Returns (cold_files_records, {r: warm_records or error string})"""
    write_inputs(d, sc)
    conf = make_conf(d, sc, "cold.nc")
    rl.run_main(conf, d)
    cold_files = files_of(d, "cold")
    cold = [records_of([p]) for p in cold_files]
    out = {}
    for r in range(len(cold_files) - 1):
        if sc.get("restart_only") is not None and r != sc["restart_only"]:
            continue
        wconf = make_conf(d, sc, f"warm{r}_{r + 1:03d}.nc")
        del wconf["time"]["start"]
        wconf["warm_start"] = {"filename": str(cold_files[r]), "variables": ["age", "temp"] + (["release_time"] if sc.get("pvars", True) else [])}
        try:
            rl.run_main(wconf, d)
            out[r] = [records_of([p]) for p in files_of(d, f"warm{r}")]
        except BaseException as e:  # noqa: BLE001
            out[r] = f"crash {type(e).__name__}: {e}"
    return cold, out


def compare(cold, warm, r, tol=1e-9):
    """Compare warm files with cold files r+1...; returns list of differences (strings)"""
    diffs = []
    if isinstance(warm, str):
        return [warm]
    want = cold[r + 1 :]
    if len(warm) != len(want):
        diffs.append(f"number of files after restart {len(warm)} != {len(want)}")
    for fi, (wf, cf) in enumerate(zip(warm, want)):
        if len(wf) != len(cf):
            diffs.append(f"file {r + 1 + fi}: {len(wf)} records, uninterrupted has {len(cf)}")
        for k, (a, b) in enumerate(zip(wf, cf)):
            if a["time"] != b["time"]:
                diffs.append(f"file {r + 1 + fi} rec {k}: time {a['time']} != {b['time']}")
            for v in b["vars"]:
                x, y = np.asarray(a["vars"].get(v, [])), np.asarray(b["vars"][v])
                if x.shape != y.shape or not np.allclose(x, y, rtol=0, atol=tol, equal_nan=True):
                    diffs.append(f"file {r + 1 + fi} rec {k}: {v} {x.tolist()} != {y.tolist()}")
        if wf and cf:
            pa, pb = wf[0]["pvars"], cf[0]["pvars"]
            for v in pb:
                x, y = np.asarray(pa.get(v, [])), np.asarray(pb[v])
                if x.shape != y.shape or not np.allclose(x, y, rtol=0, atol=tol, equal_nan=True):
                    diffs.append(f"file {r + 1 + fi}: particle variable {v} {x.tolist()} != {y.tolist()}")
    if len(warm) > len(want):
        for wf in warm[len(want):]:
            diffs.append(f"extra file {wf[0]['file'] if wf else '?'} with times {[x['time'] for x in wf]}")
    return diffs


def warm_pid_scenario(d, adv="EF"):
    """A split run WITHOUT particle variables in the output in which the youngest particle (pid 1, released at step 1)
    is killed at step 2 — it is in the records of steps 1 and 2 of the first file but not in its last record — and more
    particles are released after the restart (steps 5 and 6).  Returns the differences between the files of the run
    restarted from the first file and those of the uninterrupted run (pids first of all): a particle released after the
    restart must get the next unused identifier, the dead one must not come back."""
    sc = {"N": 8, "p": 1, "numrec": 4, "dt": 600, "adv": adv, "lifetime": None, "kill": {2: [1]},
          "rows": [[0, 3.0, 3.0, 20.0], [600, 4.0, 3.5, 70.0], [3000, 5.0, 3.25, 20.0], [3600, 3.5, 3.75, 70.0]],
          "continuous": None, "u": 0.1, "reference": 0, "offgrid": False, "pvars": False}
    cold, warm = run_split_and_restarts(d, sc)
    diffs = []
    for r in sorted(warm):
        diffs += [f"restart after file {r}: {x}" for x in compare(cold, warm[r], r)]
    pids_cold = [[int(q) for q in rec["vars"]["pid"]] for f in cold for rec in f]
    return diffs, pids_cold
