"""C16 — arrangement cases: orders / names / spellings of the inputs that must not matter.

The generated cases of c16.py always write the release table as `release_time lon lat Z` with the column names in the
configuration, the rows in one order, the output variables in one order, the grid inside the forcing file with its
variables in the order write_roms creates them.  None of that is promised by anybody: a release file may list its
columns in any order (with a header line or with `names` in the configuration), rows released at the same time may
stand in any order, a `mult` column may stand anywhere, times and numbers have several spellings, a YAML mapping has no
order, and a NetCDF file lists its variables in whatever order the writer chose.

Each case here (fixed, oracle only, drawing nothing from ctx.rng) is one scenario — a conformal grid, a subgrid, a
release table given by longitude/latitude — run through ladim.main.main once per ARRANGEMENT.  For every arrangement
the property is decided on its own (the oracle of c16.eval_e2e, vectorised):
  * every release row appears, first written at its release time, at a position whose bilinearly interpolated
    lon_rho / lat_rho miss the given longitude / latitude by less than the solver tolerance (squared, 1e-7 deg^2);
  * lon / lat of every written instance are the bilinear interpolation of lon_rho / lat_rho at X, Y of that instance;
and, metamorphic: the trajectory of every release row (X, Y of every record) agrees with that of the first (usual)
arrangement to 1e-9 — the arrangements describe the same experiment.
"""
from __future__ import annotations

import logging
import math
import os
import random

import numpy as np

TOL = 1.0e-7
DT, NSTEPS = 600, 5

# name -> changes with respect to the usual arrangement
#   cols    order of the columns of the release file       header  column names on the first line of the file, no `names`
#   rows    order of rows with equal release time          mult    a mult column (1 everywhere but "m2": 2 on the second row)
#   spell   spelling of times / numbers                    outvars order of the output variables
#   conf    order of the sections and keys of the YAML     nc      order of the variables in the NetCDF grid/forcing file
#   gridfile  the grid in a file of its own (whose name sorts after / before the forcing file)
ARRANGEMENTS = [
    ("usual", {}),
    ("lat-before-lon", {"cols": ["release_time", "lat", "lon", "Z"]}),
    ("Z-lat-time-lon", {"cols": ["Z", "lat", "release_time", "lon"]}),
    ("header-lon-Z-lat-time", {"cols": ["lon", "Z", "lat", "release_time"], "header": True}),
    ("header-usual-order", {"header": True}),
    ("header-lat-lon-mult-first", {"cols": ["mult", "release_time", "lat", "lon", "Z"], "header": True, "mult": "ones"}),
    ("mult-between-lat-and-lon", {"cols": ["release_time", "lat", "mult", "lon", "Z"], "mult": "m2"}),
    ("mult-last-lon-first", {"cols": ["lon", "release_time", "Z", "lat", "mult"], "mult": "m2", "rows": "reversed"}),
    ("rows-of-equal-time-reversed", {"rows": "reversed"}),
    ("rows-rotated-lat-first", {"rows": "rotated", "cols": ["lat", "release_time", "Z", "lon"]}),
    ("spelling", {"spell": True}),
    ("spelling-lat-lon-header", {"spell": True, "cols": ["release_time", "Z", "lat", "lon"], "header": True}),
    ("outvars-lat-lon-first", {"outvars": ["lat", "lon", "Z", "Y", "X", "pid"]}),
    ("conf-keys-reversed", {"conf": "reversed"}),
    ("conf-keys-reversed-lat-lon", {"conf": "reversed", "cols": ["release_time", "lat", "lon", "Z"], "outvars": ["Y", "lat", "pid", "lon", "X", "Z"]}),
    ("nc-variables-reversed", {"nc": "reversed"}),
    ("nc-variables-reversed-lat-lon", {"nc": "reversed", "cols": ["Z", "release_time", "lat", "lon"], "rows": "rotated"}),
    ("grid-in-own-file", {"gridfile": "zgrid_10.nc"}),
    ("grid-in-own-file-lat-lon", {"gridfile": "a_grid_9.nc", "nc": "reversed", "cols": ["lat", "lon", "Z", "release_time"], "header": True}),
]
QUICK_SETS = {  # scenario -> arrangements run in the quick tier (index 0 is always the reference)
    "polar": [0, 1, 3, 6, 8, 10, 13, 15, 17],
    "rotated": [0, 2, 5, 7, 9, 12, 14, 16, 18],
    "affine": [0, 1, 4, 7, 11, 14, 16, 18],
}


def gen_order_cases(quick=True):
    out = []
    for k, gt in enumerate(["polar", "rotated", "affine"]):
        out.append({"k": "order", "grid": gt, "seed": 1601 + k,
                    "arr": QUICK_SETS[gt] if quick else list(range(len(ARRANGEMENTS)))})
    return out


# ------------------------------------------------------------------------------------------------
def copy_nc(src, dst, order):
    """the same NetCDF file with its variables created in another order (values, types, attributes unchanged)"""
    from netCDF4 import Dataset

    with Dataset(src) as a, Dataset(dst, "w", format="NETCDF4") as b:
        dims = list(a.dimensions.items())
        if order == "reversed":
            dims = dims[::-1]
        for name, dim in dims:
            b.createDimension(name, None if dim.isunlimited() else len(dim))
        names = list(a.variables)
        if order == "reversed":
            names = names[::-1]
        for name in names:
            v = a.variables[name]
            v.set_auto_maskandscale(False)
            w = b.createVariable(name, v.dtype, v.dimensions)
            w.set_auto_maskandscale(False)
            w.setncatts({k: v.getncattr(k) for k in v.ncattrs()})
            w[...] = v[...]
        b.setncatts({k: a.getncattr(k) for k in a.ncattrs()})


def spell_time(t, k, alt):
    import romsfiles as rf

    s = rf.iso(int(t))  # 2000-01-01T00:00:00
    if not alt:
        return s
    forms = [s[:16], s + ".000", s[:10] if s.endswith("T00:00:00") else s[:16], s]
    return forms[k % len(forms)]


def spell_num(x, k, alt, dyadic):
    """another spelling of the same number: only spellings every decimal reader maps to the same double"""
    x = float(x)
    if not alt:
        return repr(x)
    if x == int(x):
        return [str(int(x)), f"{int(x)}.", f"{int(x)}.00", f"+{int(x)}.0"][k % 4]
    if dyadic:  # short exact decimal expansion
        r = repr(x)
        return [r + "0", "+" + r, r + "00"][k % 3]
    return repr(x)


def reorder(d, how):
    """the same mapping with its keys in another order, recursively"""
    if not isinstance(d, dict) or how is None:
        return d
    keys = list(d)[::-1]
    return {k: reorder(d[k], how) for k in keys}


def run_main_ordered(conf, workdir, name):
    """ladim.main.main on a YAML file that keeps the key order of `conf`"""
    import yaml
    from ladim.main import main

    f = workdir / name
    with f.open("w") as fid:
        yaml.safe_dump(conf, fid, sort_keys=False)
    cwd = os.getcwd()
    os.chdir(workdir)
    try:
        main(str(f), loglevel=logging.CRITICAL + 10)
    finally:
        os.chdir(cwd)
        logging.disable(logging.CRITICAL)


def read_out(path):
    from netCDF4 import Dataset

    with Dataset(path) as nc:
        nc.set_auto_mask(False)
        t = np.asarray(nc.variables["time"][:], dtype=float)
        pc = np.asarray(nc.variables["particle_count"][:], dtype=np.int64)
        V = {v: np.asarray(nc.variables[v][:]) for v in ("pid", "X", "Y", "lon", "lat")}
    return t, pc, V


# ------------------------------------------------------------------------------------------------
def eval_order(desc, ctx):
    import c16
    import romsfiles as rf
    import run_ladim  # noqa: F401  (path of the code under test, logging switched off)
    from c16_scale import closev, fr, interp_vec

    rng = random.Random(desc["seed"])
    gt = desc["grid"]
    dyadic = gt == "affine"
    jmax0, imax0 = 15, 17
    lon, lat, dx = c16.GRIDS[gt](jmax0, imax0, rng, *([4.0] if gt != "affine" else []))
    i0, i1, j0, j1 = 2, 15, 1, 14  # i0 != j0; both (X, Y) and (Y, X) of the rows below lie inside the valid region
    meters = 1000.0 * (dx if dx else 1.0)
    d = ctx.subdir(f"c16_order_{gt}")
    base_nc = d / "forcing.nc"
    rf.write_roms(base_nc, imax=imax0, jmax=jmax0, N=2, times=[0, 3600, 7200], lon=lon, lat=lat, dx=meters,
                  u=0.11 * meters / 3600.0, v=-0.07 * meters / 3600.0)
    # the release table: (time, X, Y, Z), positions far from the diagonal X = Y
    pos = [(0, 4.25, 9.5, 3.0), (0, 11.125, 3.75, 5.5), (0, 6.5, 10.25, 8.0), (DT, 12.375, 4.5, 2.0), (DT, 3.75, 8.125, 7.25),
           (3 * DT, 9.625, 2.875, 4.0)]
    if not dyadic:
        pos = [(t, X + rng.uniform(-0.1, 0.1), Y + rng.uniform(-0.1, 0.1), Z) for t, X, Y, Z in pos]
    table = [{"release_time": t, "lon": c16.interp(lon, X, Y), "lat": c16.interp(lat, X, Y), "Z": Z, "row": n} for n, (t, X, Y, Z) in enumerate(pos)]
    what0 = f"order [ladim.main.main, {gt} grid {jmax0}x{imax0} subgrid {(i0, i1, j0, j1)}, {len(table)} release rows given by lon/lat, lon/lat output]"

    problems, ref, done, ninst = [], None, [], 0
    for a in desc["arr"]:
        name, A = ARRANGEMENTS[a]
        cols = A.get("cols", ["release_time", "lon", "lat", "Z"])
        rows = [dict(r) for r in table]
        if A.get("rows"):  # permute the rows inside each group of equal release time (the table stays in time order)
            out = []
            for t in sorted({r["release_time"] for r in rows}):
                g = [r for r in rows if r["release_time"] == t]
                out += g[::-1] if A["rows"] == "reversed" else g[1:] + g[:1]
            rows = out
        for n, r in enumerate(rows):
            r["mult"] = 2 if (A.get("mult") == "m2" and n == 1) else 1
        alt = bool(A.get("spell"))
        rls = d / f"release_{a}.rls"
        with rls.open("w") as f:
            if A.get("header"):
                f.write(("\t" if alt else " ").join(cols) + "\n")
            for n, r in enumerate(rows):
                cell = {"release_time": spell_time(r["release_time"], n, alt), "mult": str(r["mult"]), "Z": spell_num(r["Z"], n, alt, True),
                        "lon": spell_num(r["lon"], n, alt and dyadic, dyadic), "lat": spell_num(r["lat"], n + 1, alt and dyadic, dyadic)}
                f.write(("   " if alt and n % 2 else " ").join(cell[c] for c in cols) + "\n")
        forcing = base_nc
        if A.get("nc"):
            forcing = d / f"forcing_{a}.nc"
            copy_nc(base_nc, forcing, A["nc"])
        gridfile = None
        if A.get("gridfile"):
            gridfile = d / A["gridfile"]
            rf.write_roms(gridfile, imax=imax0, jmax=jmax0, N=2, times=[0], lon=lon, lat=lat, dx=meters, grid_only=True)
            if A.get("nc"):
                copy_nc(gridfile, d / ("r_" + A["gridfile"]), A["nc"])
                gridfile = d / ("r_" + A["gridfile"])
        outfile = d / f"out_{a}.nc"
        conf = rf.base_config(start=0, stop=NSTEPS * DT, dt=DT, forcing_file=forcing, release_file=rls, out_file=outfile, names=cols,
                              instance_variables=A.get("outvars", ("pid", "X", "Y", "Z", "lon", "lat")), subgrid=[i0, i1, j0, j1],
                              grid_file=gridfile)
        if A.get("header"):
            del conf["release"]["names"]
        conf = reorder(conf, A.get("conf"))
        what = f"{what0} arrangement '{name}' (release columns {' '.join(cols)}{', header line' if A.get('header') else ', names in the configuration'}" \
               + "".join(f", {k}={A[k]}" for k in ("rows", "mult", "spell", "outvars", "conf", "nc", "gridfile") if k in A) + ")"
        try:
            run_main_ordered(conf, d, f"ladim_{a}.yaml")
            t, pc, V = read_out(outfile)
        except (Exception, SystemExit) as e:  # noqa: BLE001
            problems.append(f"{what}: run failed: {type(e).__name__}: {e}")
            continue
        done.append(name)
        P = V["pid"].astype(np.int64)
        X, Y, LO, LA = (V[k].astype(float) for k in ("X", "Y", "lon", "lat"))
        if int(pc.sum()) != len(P) or any(len(V[k]) != len(P) for k in V):
            problems.append(f"{what}: particle_count sums to {int(pc.sum())}, variables have {[len(V[k]) for k in V]} instances")
            continue
        ninst += len(P)
        T = np.repeat(t, pc)
        REC = np.repeat(np.arange(len(t)), pc)
        # particles are numbered in the order of release: by time, rows of one time in the order of the file, each mult times
        order = sorted(range(len(rows)), key=lambda n: rows[n]["release_time"])  # stable
        prow = np.array([n for n in order for _ in range(rows[n]["mult"])], dtype=np.int64)  # pid -> row of this file
        npart = len(prow)
        pids = np.unique(P)
        if len(pids) != npart or (len(pids) and (pids[0] != 0 or pids[-1] != npart - 1)):
            problems.append(f"{what}: {npart} particles released, pids in the output {pids.tolist()}")
            continue
        # (1) lon/lat written = interpolation of lon_rho/lat_rho at X, Y of the same instance
        wlo, wla = interp_vec(lon, X, Y), interp_vec(lat, X, Y)
        bad = ~(closev(LO, wlo) & closev(LA, wla))
        if bad.any():
            k = int(np.flatnonzero(bad)[0])
            problems.append(f"{what}: {int(bad.sum())} of {len(P)} instances: lon/lat written differ from the interpolation of lon_rho/lat_rho at the X,Y "
                            f"of the same record; first: t={T[k]} pid={P[k]}: written ({fr(LO[k])},{fr(LA[k])}), at ({fr(X[k])},{fr(Y[k])}) = ({fr(wlo[k])},{fr(wla[k])})")
        # (2) every release row starts, at its release time, where the interpolated lon/lat are the given ones
        first = np.full(npart, -1, dtype=np.int64)
        idx = np.arange(len(P))[::-1]
        first[P[idx]] = idx  # smallest instance index per pid
        rt = np.array([float(rows[n]["release_time"]) for n in prow])
        rlon = np.array([rows[n]["lon"] for n in prow])
        rlat = np.array([rows[n]["lat"] for n in prow])
        badt = T[first] != rt
        if badt.any():
            k = int(np.flatnonzero(badt)[0])
            problems.append(f"{what}: pid {k} (file row {int(prow[k]) + 1}) released at {rt[k]}, first written at {T[first][k]}")
        r2 = (wlo[first] - rlon) ** 2 + (wla[first] - rlat) ** 2
        bad2 = ~(r2 < TOL * (1 + 1e-6))
        if bad2.any():
            k = int(np.flatnonzero(bad2)[0])
            problems.append(f"{what}: {int(bad2.sum())} of {npart} particles do not start where their release row says; first: pid {k} (file row "
                            f"{int(prow[k]) + 1}) released at lon/lat ({fr(rlon[k])},{fr(rlat[k])}) starts at ({fr(X[first][k])},{fr(Y[first][k])}) whose "
                            f"interpolated lon/lat are ({fr(wlo[first][k])},{fr(wla[first][k])}): squared miss {fr(r2[k])} >= tol {TOL}")
        # (3) metamorphic: the trajectory of every row of the table, whatever the arrangement
        orow = np.array([rows[n]["row"] for n in prow], dtype=np.int64)[P]  # row of the scenario's table, per instance
        key = orow * len(t) + REC
        srt = np.argsort(key, kind="stable")
        traj = (key[srt], X[srt], Y[srt])
        if ref is None:
            ref = (name, traj, t)
        else:
            rk, rx, ry = ref[1]
            if len(t) != len(ref[2]) or not np.array_equal(t, ref[2]):
                problems.append(f"{what}: record times {t.tolist()}, with the arrangement '{ref[0]}' {ref[2].tolist()}")
            else:
                # a row with mult = 2 gives two equal particles: compare key by key
                pos_ = np.searchsorted(rk, traj[0])
                ok = (pos_ < len(rk))
                ok[ok] &= rk[pos_[ok]] == traj[0][ok]
                if not ok.all() or not np.isin(rk, traj[0]).all():
                    problems.append(f"{what}: the (row, record) pairs written differ from those with the arrangement '{ref[0]}'")
                else:
                    badm = ~(closev(traj[1], rx[pos_]) & closev(traj[2], ry[pos_]))
                    if badm.any():
                        k = int(np.flatnonzero(badm)[0])
                        problems.append(f"{what}: table row {int(traj[0][k] // len(t)) + 1} record {int(traj[0][k] % len(t))}: position "
                                        f"({fr(traj[1][k])},{fr(traj[2][k])}), with the arrangement '{ref[0]}' ({fr(rx[pos_[k]])},{fr(ry[pos_[k]])})")
    return {"ints": None, "oracle": "; ".join(problems[:2]) or None,
            "nontrivial": ("order", gt, tuple(done)) if len(done) > 1 else None, "kind": f"order-{gt}",
            "observed": {"grid": gt, "subgrid": [i0, i1, j0, j1], "rows": len(table), "arrangements": done, "instances": ninst}}
