"""C06 at realistic scale: deterministic large cases, decided by an exact oracle in Python (oracle-only, ints=None).

The property clause decided here, for EVERY record of EVERY file of a large run: the record holds exactly the
particles alive at its time (none dead, none missing, none twice) with the values the model state had at that
time; the counts sum to the instance dimension; the time coordinate is the model time relative to the reference
time; particle variables are stored at index pid for every particle released so far; the dense layout holds the
same values at [time, pid] and fill values elsewhere.

Two ways of driving the REAL code:
  mode "direct": State + TimeKeeper + Output driven by hand (as the small histories of c06.py), a truth table
                 (release step, death step, start values per pid) kept by the harness;
  mode "main":   ladim.main.main on a synthetic ROMS file with uniform current, particles released through a
                 release file with a mult column, deaths through the harness' plug-in IBM (listed pids at listed
                 steps), ageing by the IBM.

Scale dimensions covered: particles per record (1000 .. 130000, straddling powers of two), a trickle of deaths
per step (far below one per cent) as well as a mass death, releases after deaths, instances per file (> 100000),
number of records in one file (> 1000), number of files (> 1000), steps between two records (> 1000),
the number of pids (particle variables), trailing dead pids.
"""
from __future__ import annotations

from pathlib import Path

import numpy as np
from netCDF4 import Dataset

import romsfiles as rf

DT = 600  # direct mode
NEVER = 10**9
PLUG = str(Path(rf.__file__).resolve().parents[1] / "plugins" / "kill_ibm.py")  # harness/lib/romsfiles.py -> harness/plugins
# main mode: uniform current 0.5 m/s, 512 s steps, 1024 m cells: a quarter of a cell per step
MDT, MDX, MU = 512, 1024.0, 0.5
IMAX, JMAX, NLEV = 20, 8, 3
XTOL = 1e-9  # main mode only: X went through the tracker's interpolation of a uniform field


# ---------------------------------------------------------------------------------------------- case list
def gen_scale_cases():
    out = []
    trickle = [1, 0, 3, 2, 7, 1, 5, 0, 2, 11]
    sizes = [1000, 1024, 1025, 4096, 4097, 5000, 10000, 20000, 40000, 70000, 130000]
    for i, n in enumerate(sizes):
        out.append({"k": "scale", "mode": "direct", "name": f"sparse-{n}", "layout": "sparse", "nsteps": 6, "p": 1 + i % 2,
                    "numrec": (0, 0, 2)[i % 3], "rel": [[0, n], [3, (0, 17, n // 8)[(i + 1) % 3]]], "deaths": trickle,
                    "compact": i % 2 == 0, "ref": (None, 0, 98765)[i % 3]})
    # a mass death (a third of the particles) between two records of a large state, then a trickle again
    out.append({"k": "scale", "mode": "direct", "name": "sparse-20000-massdeath", "layout": "sparse", "nsteps": 5, "p": 1, "numrec": 0,
                "rel": [[0, 20000], [2, 300]], "deaths": [2, 6667, 1, 4, 0], "compact": True, "ref": 0})
    # dense files: the real writer needs about a second per 10000 particles and record, so the sizes stay moderate here
    for n, compact in ((1025, True), (2049, False)):
        out.append({"k": "scale", "mode": "direct", "name": f"dense-{n}", "layout": "dense", "nsteps": 3, "p": 1, "numrec": 0,
                    "rel": [[0, n], [1, 33]], "deaths": trickle, "compact": compact, "ref": 0})
    # long lives: more than 1000 records in one file, more than 1000 files, more than 1000 steps between records
    out.append({"k": "scale", "mode": "direct", "name": "records-1200", "layout": "sparse", "nsteps": 1200, "p": 1, "numrec": 0,
                "rel": [[0, 40]], "rel_every": [2, 1], "deaths": [0, 1, 0, 0, 1, 0, 2], "compact": True, "ref": 98765})
    out.append({"k": "scale", "mode": "direct", "name": "files-1010", "layout": "sparse", "nsteps": 1010, "p": 1, "numrec": 1,
                "rel": [[0, 25]], "rel_every": [3, 2], "deaths": [1, 0, 1, 0, 0, 1], "compact": False, "ref": 0})
    out.append({"k": "scale", "mode": "direct", "name": "period-1250", "layout": "sparse", "nsteps": 2501, "p": 1250, "numrec": 0,
                "rel": [[0, 4100]], "rel_every": [100, 3], "deaths": [0, 0, 0, 0, 0, 0, 1], "compact": True, "ref": None})
    # complete simulations
    for n, rows, nsteps, p, layout, numrec in ((1025, 41, 10, 1, "sparse", 0), (5000, 50, 24, 3, "sparse", 4),
                                               (20000, 200, 40, 4, "sparse", 0), (70000, 700, 5, 1, "sparse", 0),
                                               (130000, 1000, 4, 1, "sparse", 2), (5000, 50, 8, 2, "dense", 0)):
        out.append({"k": "scale", "mode": "main", "name": f"main-{layout}-{n}", "layout": layout, "nsteps": nsteps, "p": p,
                    "numrec": numrec, "rows": rows, "mult": n // rows, "late": [[nsteps // 2, 7, 9]], "deaths": trickle})
    return out


# ---------------------------------------------------------------------------------------------- truth table
def schedule(desc):
    """release step and death step (first step at whose record the particle is absent) of every pid, the kill lists
    per step.  Pure bookkeeping, nothing of ladim is used."""
    nsteps = desc["nsteps"]
    per_step = [0] * nsteps
    if desc["mode"] == "main":
        per_step[0] = desc["rows"] * desc["mult"]
        for s, r, m in desc["late"]:
            per_step[s] += r * m
    else:
        for s, c in desc["rel"]:
            per_step[s] += c
        if desc.get("rel_every"):
            q, c = desc["rel_every"]
            for s in range(q, nsteps, q):
                per_step[s] += c
    M = sum(per_step)
    rel = np.repeat(np.arange(nsteps), per_step)
    death = np.full(M, NEVER)
    kills = []
    pat = desc["deaths"]
    alive = np.zeros(M, dtype=bool)
    for s in range(nsteps):
        alive |= rel == s
        # main mode: the IBM kills at the step before, only particles released by then can be hit
        idx = np.flatnonzero(alive & (rel < s)) if desc["mode"] == "main" else np.flatnonzero(alive)
        k = min(pat[s % len(pat)], len(idx))
        kl = idx[np.unique((s * 7919 + np.arange(k) * 104729) % len(idx))] if k else np.zeros(0, dtype=int)
        if s == nsteps - 1 and len(idx) > 3:  # the highest pids are dead at the end
            kl = np.union1d(kl, idx[-3:])
        kills.append(kl)
        death[kl] = s
        alive[kl] = False
    return M, per_step, rel, death, kills


def start_values(M):
    pid = np.arange(M)
    X0 = (pid % 1021).astype(float) * 0.5 + 1.0
    Y0 = ((pid * 7) % 509).astype(float) + 0.25
    W = ((pid * 13) % 97).astype(float) + 0.125
    return X0, Y0, W


# ---------------------------------------------------------------------------------------------- drivers
def run_direct(desc, d):
    from ladim.out_netcdf import Output
    from ladim.state import State
    from ladim.timekeeper import TimeKeeper

    M, per_step, rel, death, kills = schedule(desc)
    X0, Y0, W = start_values(M)
    nsteps, p, numrec, layout = desc["nsteps"], desc["p"], desc["numrec"], desc["layout"]
    tstart = 200000
    ref = desc["ref"]
    refv = tstart if ref is None else ref
    tk = TimeKeeper(start=rf.iso(tstart), stop=rf.iso(tstart + nsteps * DT), dt=DT, reference=None if ref is None else rf.iso(ref))
    st = State(instance_variables={"age": float}, particle_variables={"weight": float, "release_time": "time"}, default_values={"age": 0.0})
    ivars = {v: {"encoding": {"datatype": "f8"}, "attributes": {}} for v in ("X", "Y", "age")}
    ivars = {"pid": {"encoding": {"datatype": "i4"}, "attributes": {}}, **ivars}
    pvars = {"weight": {"encoding": {"datatype": "f8"}, "attributes": {}},
             "release_time": {"encoding": {"datatype": "f8"}, "attributes": {"units": "seconds since reference_time"}}}
    out = Output({"time": tk, "state": st, "grid": None}, d / "o.nc", p * DT, dict(ivars), pvars, layout=layout, numrec=numrec)
    first = 0
    for s in range(nsteps):
        tk.update()
        if desc["compact"]:
            st.compactify()
        c = per_step[s]
        if c:
            q = slice(first, first + c)
            st.append(X=X0[q], Y=Y0[q], Z=5.0, weight=W[q], release_time=np.full(c, np.datetime64(rf.iso(tstart + s * DT))))
            first += c
        if len(kills[s]):
            st["alive"] = st.alive & ~np.isin(st.pid, kills[s])
        out.update()
        st["age"] = st.age + DT
        st["X"] = st.X + 1.0
    out.close()
    truth = {"M": M, "rel": rel, "death": death, "dt": DT, "t0": tstart - refv, "refv": refv,
             "vals": {"X": lambda q, s: X0[q] + (s - rel[q]), "Y": lambda q, s: Y0[q], "age": lambda q, s: (s - rel[q]) * float(DT)},
             "tol": {}, "pvars": {"weight": W, "release_time": (tstart - refv) + rel * float(DT)}}
    return truth


def run_main(desc, d):
    import run_ladim as rl

    M, per_step, rel, death, kills = schedule(desc)
    nsteps, p, numrec, layout = desc["nsteps"], desc["p"], desc["numrec"], desc["layout"]
    t0 = 50000
    rf.write_roms(d / "f.nc", imax=IMAX, jmax=JMAX, N=NLEV, times=[t0 + k * MDT for k in range(nsteps + 1)], u=MU, h=120.0, dx=MDX)
    rows, X0, Y0 = [], np.zeros(M), np.zeros(M)
    first = 0
    for s, r, m in [[0, desc["rows"], desc["mult"]]] + desc["late"]:
        for j in range(r):
            x = 2.0 + (j % 256) / 64.0
            y = 2.0 + (j % 5) * 0.5
            rows.append([t0 + s * MDT, x, y, 10.0, m])
            X0[first:first + m] = x
            Y0[first:first + m] = y
            first += m
    rf.write_release(d / "r.rls", rows)
    conf = rf.base_config(start=t0, stop=t0 + nsteps * MDT, dt=MDT, forcing_file=d / "f.nc", release_file=d / "r.rls", out_file=d / "o.nc",
                          names=("release_time", "X", "Y", "Z", "mult"), output_period=p * MDT, numrec=numrec, layout=layout,
                          instance_variables=("pid", "X", "Y", "age"), reference=0)
    conf["state"] = {"instance_variables": {"age": "float"}, "default_values": {"age": 0.0}, "particle_variables": {"release_time": "time"}}
    conf["output"]["particle_variables"] = {"release_time": {"encoding": {"datatype": "f8"}, "attributes": {"units": "seconds since reference_time"}}}
    # the IBM runs after the record of its step: a particle to be absent from the record of step s is killed at step s - 1
    klist = {s - 1: [int(q) for q in kills[s]] for s in range(1, nsteps) if len(kills[s])}
    conf["ibm"] = {"module": PLUG, "age": True, "kill": klist}
    rl.run_main(conf, d)
    step = MU * MDT / MDX
    truth = {"M": M, "rel": rel, "death": death, "dt": MDT, "t0": t0, "refv": 0,
             "vals": {"X": lambda q, s: X0[q] + step * (s - rel[q]), "Y": lambda q, s: Y0[q], "age": lambda q, s: (s - rel[q]) * float(MDT)},
             "tol": {"X": XTOL}, "pvars": {"release_time": t0 + rel * float(MDT)}}
    return truth


# ---------------------------------------------------------------------------------------------- oracle
def _differs(got, want, tol):
    if tol:
        return not (got.shape == want.shape and np.all(np.abs(got - want) <= tol))
    return not np.array_equal(got, want)


def _some(a, n=5):
    return np.asarray(a)[:n].tolist()


def check_files(desc, d, truth):
    name = desc["name"]
    nsteps, p, numrec, layout = desc["nsteps"], desc["p"], desc["numrec"], desc["layout"]
    rel, death, dt = truth["rel"], truth["death"], truth["dt"]
    due = list(range(0, nsteps, p))
    if numrec:
        files = sorted(d.glob("o_*.nc"), key=lambda f: int(f.stem.split("_")[-1]))
        groups = [due[k:k + numrec] for k in range(0, len(due), numrec)]
    else:
        files = [d / "o.nc"] if (d / "o.nc").exists() else []
        groups = [due]
    problems = []
    if len(files) != len(groups):
        problems.append(f"{len(files)} output files for {len(due)} records with numrec={numrec}, expected {len(groups)}")
    instances = 0
    for f, steps in zip(files, groups):
        if len(problems) > 3:
            break
        with Dataset(f) as nc:
            nc.set_auto_mask(False)
            t = np.asarray(nc.variables["time"][:], dtype=float)
            units = nc.variables["time"].units
            if units != f"seconds since {rf.iso(truth['refv'])}":
                problems.append(f"{f.name}: time units {units!r}")
            if len(t) != len(steps):
                problems.append(f"{f.name}: {len(t)} records, {len(steps)} are due (steps {steps[:3]}...)")
                continue
            want_t = truth["t0"] + np.array(steps, dtype=float) * dt
            if not np.array_equal(t, want_t):
                k = int(np.flatnonzero(t != want_t)[0])
                problems.append(f"{f.name}: time[{k}] = {t[k]}, the record's model time relative to the reference time is {want_t[k]}")
            # particle variables: at index pid for every particle released up to the last record of the file
            npid = int(np.count_nonzero(rel <= steps[-1]))
            for v, want in truth["pvars"].items():
                got = np.asarray(nc.variables[v][:], dtype=float)
                if len(got) != npid or not np.array_equal(got, want[:npid]):
                    m = min(len(got), npid)
                    bad = np.flatnonzero(got[:m] != want[:m])
                    problems.append(f"{f.name}: particle variable {v} has {len(got)} entries for {npid} particles released; first wrong pids {_some(bad)}")
            if layout == "sparse":
                cnt = np.asarray(nc.variables["particle_count"][:]).astype(np.int64)
                ninst = len(nc.dimensions["particle_instance"])
                arrs = {v: np.asarray(nc.variables[v][:]) for v in ("pid", "X", "Y", "age")}
                if cnt.sum() != ninst or any(len(a) != ninst for a in arrs.values()) or (cnt < 0).any():
                    problems.append(f"{f.name}: particle_count sums to {int(cnt.sum())}, the instance dimension is {ninst}")
                    continue
                instances += ninst
                ends = np.cumsum(cnt)
                for k, s in enumerate(steps):
                    sl = slice(int(ends[k] - cnt[k]), int(ends[k]))
                    want = np.flatnonzero((rel <= s) & (death > s))
                    got = arrs["pid"][sl].astype(np.int64)
                    order = np.argsort(got, kind="stable")
                    got = got[order]
                    if not np.array_equal(got, want):
                        dead = np.setdiff1d(got, want)
                        missing = np.setdiff1d(want, got)
                        problems.append(f"{f.name} record {k} (step {s}): particle_count {int(cnt[k])} with {len(want)} particles alive at that time; "
                                        f"{len(dead)} dead or unreleased particles written as alive (pids {_some(dead)}), {len(missing)} living particles missing (pids {_some(missing)}), "
                                        f"{len(got) - len(np.unique(got))} written twice")
                        break
                    for v, fn in truth["vals"].items():
                        gv = arrs[v][sl][order].astype(float)
                        wv = fn(want, s)
                        if _differs(gv, wv, truth["tol"].get(v)):
                            j = int(np.flatnonzero(~(np.abs(gv - wv) <= truth["tol"].get(v, 0.0)))[0])
                            problems.append(f"{f.name} record {k} (step {s}): {v} of pid {int(want[j])} is {gv[j]}, the state had {wv[j]}")
                            break
            else:
                nc.set_auto_mask(True)
                for v, fn in truth["vals"].items():
                    A = np.ma.masked_invalid(nc.variables[v][:])
                    if A.ndim != 2 or A.shape[0] != len(steps):
                        problems.append(f"{f.name}: {v} has shape {A.shape} for {len(steps)} records")
                        continue
                    mask = np.ma.getmaskarray(A)
                    width = A.shape[1]
                    for k, s in enumerate(steps):
                        want = np.flatnonzero((rel <= s) & (death > s))
                        if len(want) and want[-1] >= width:
                            problems.append(f"{f.name} {v}[{k}] has {width} entries, no place for the living particle {int(want[-1])}")
                            break
                        present = np.flatnonzero(~mask[k])
                        if not np.array_equal(present, want):
                            extra = np.setdiff1d(present, want)
                            missing = np.setdiff1d(want, present)
                            problems.append(f"{f.name} {v}[{k}] (step {s}): {len(extra)} values where no particle is alive (pids {_some(extra)}), "
                                            f"{len(missing)} fill values at living particles (pids {_some(missing)})")
                            break
                        gv = np.asarray(A.data[k, want], dtype=float)
                        wv = fn(want, s)
                        if _differs(gv, wv, truth["tol"].get(v)):
                            j = int(np.flatnonzero(~(np.abs(gv - wv) <= truth["tol"].get(v, 0.0)))[0])
                            problems.append(f"{f.name} {v}[{k},{int(want[j])}] = {gv[j]}, the state had {wv[j]}")
                            break
    return problems, len(files), len(due), instances


def eval_scale(desc, d):
    truth = (run_main if desc["mode"] == "main" else run_direct)(desc, d)
    problems, nfiles, nrec, instances = check_files(desc, d, truth)
    for f in d.glob("*"):
        f.unlink()
    msg = None
    if problems:
        msg = f"scale case {desc['name']} ({truth['M']} particles, {desc['nsteps']} steps, {nrec} records, {desc['layout']}, through " \
              f"{'ladim.main' if desc['mode'] == 'main' else 'State+Output'}): " + "; ".join(problems[:2])
    return {"ints": None, "oracle": msg, "nontrivial": ("scale", desc["name"]), "kind": "scale-" + desc["mode"] + "-" + desc["layout"],
            "observed": {"particles": int(truth["M"]), "files": nfiles, "records": nrec, "instances": int(instances)}}
