"""C18, arrangements that must not matter.

The random cases of c18.py write every description the usual way: the two file names of a legacy (version 1) file stand
together in ONE section (`gridforce` or `files`), sections and keys come in the order of the examples, the release
columns in the order release_time, X, Y, Z.  A configuration is a mapping: the order of its sections and keys says
nothing, a version-1 file may give `input_file` and `gridfile` in either of the two sections INDEPENDENTLY (also in both),
and the columns of the release file may stand in any order as long as `names` / `variables` lists them in that order.

Every case here takes one simulation with an explicit grid file that is NOT one of the forcing files (other land mask,
other depth: the grid file decides the trajectories), writes it once the canonical way (version 2 YAML, sections in
the usual order) and once in another legal arrangement, and asks the real code (ladim.configure.configure, the real
init_module / constructor signatures, ladim.main.main) for both.  Oracle (c18.eval_order):

  (a) both files are accepted and give every module the same arguments (skipped when the arrangement permutes the
      release columns: `names` then differs by construction),
  (b) both runs write the same output file (structure, attributes and every value, exactly: same code, same numbers).

Nothing here imports ladim or c18; the descriptions are deterministic (no random draws in gen_cases).
"""
from __future__ import annotations

import copy

import numpy as np

import romsfiles as rf

GRID_B = "grid_b.nc"

OUT_ATTR = {"pid": [["long_name", "particle thing"]], "X": [["units", "m"]], "Y": [["units", "m"]],
            "Z": [["standard_name", "depth_below_surface"], ["positive", "down"]]}


def write_grid_b(path):
    """a grid file for the forcing files of c18.master_dir: same shape, another land mask (a wall east of the release
    positions instead of the two small blocks) and another depth"""
    land = np.ones((10, 12), dtype=int)
    land[3:8, 7] = 0
    land[8, 3:6] = 0
    rf.write_roms(path, imax=12, jmax=10, N=3, times=[0], u=0.0, v=0.0, h=60.0, mask=land)


def base_S(forcing, adv, legacy, extra):
    names = ["release_time", "X", "Y", "Z"]
    conv = [["release_time", "time"]]
    pv = ["release_time"]
    ibm_vars = []
    out_particle = [{"name": "release_time", "fmt": "f8", "attrs": [["long_name", "particle thing"]]}]
    inst = ["pid", "X", "Y", "Z"]
    if extra:
        names = ["mult"] + names + ["farmid", "weight"]
        conv = [["farmid", "int"]] + conv
        pv = ["farmid", "release_time"]
        ibm_vars = ["weight", "age"]
        out_particle.append({"name": "farmid", "fmt": "i4", "attrs": [["long_name", "particle thing"]]})
        inst = inst + ["weight", "age"]
        OUT = dict(OUT_ATTR, weight=[["units", "m"]], age=[["long_name", "particle thing"], ["scale_hint", 2]])
    else:
        OUT = OUT_ATTR
    return {"start": {"$dt": rf.iso(0)}, "stop": rf.iso(9 * 1200), "dt": [1200, "s"], "reference": None,
            "module": ["roms", bool(legacy)], "forcing_file": forcing, "grid_file": GRID_B, "subgrid": None,
            "extra_forcing": None, "advection": adv, "diffusion": 0.0, "release_file": "release.rls",
            "names": names, "continuous": False, "frequency": None, "converters": conv, "particle_vars": pv,
            "ibm_vars": ibm_vars, "ibm_module": "myibm" if extra else None, "ibm_opts": [], "out_file": "out.nc",
            "out_period": [3600, "s"], "out_format": None,
            "out_instance": [{"name": v, "fmt": "i4" if v == "pid" else "f4", "attrs": [list(a) for a in OUT[v]]} for v in inst],
            "out_particle": out_particle,
            "spell": {"files": False, "ibm_legacy": False, "rtype": False, "min": False, "version": False}}


# ---- transformations of a configuration tree ------------------------------------------------------------------
def rev(t):
    """the same mapping, sections and keys written in the reverse order (lists are values: untouched)"""
    if isinstance(t, dict):
        return dict((k, rev(v)) for k, v in reversed(list(t.items())))
    return t


def alpha(t):
    if isinstance(t, dict):
        return dict((k, alpha(t[k])) for k in sorted(t))
    return t


def place(t, input_in, grid_in):
    """version 1: where the two file names stand; each of 'gridforce', 'files', 'both'"""
    t = copy.deepcopy(t)
    vals = {}
    for key in ("input_file", "gridfile"):
        for sec in ("gridforce", "files"):
            if key in t[sec]:
                vals[key] = t[sec].pop(key)
    for key, where in (("input_file", input_in), ("gridfile", grid_in)):
        for sec in ("gridforce", "files"):
            if where in (sec, "both"):
                t[sec][key] = vals[key]
    return t


def outvars_reversed(t):
    """version 1: the lists of output variables and their definitions in another order (independently)"""
    t = copy.deepcopy(t)
    ov = t["output_variables"]
    ov["instance"] = list(reversed(ov["instance"]))
    ov["particle"] = list(reversed(ov["particle"]))
    head = [(k, v) for k, v in ov.items() if not isinstance(v, dict)]
    defs = [(k, v) for k, v in ov.items() if isinstance(v, dict)]
    t["output_variables"] = dict(defs[1:] + defs[:1] + list(reversed(head)))
    return t


def apply(arr, tree):
    for step in arr:
        if step[0] == "place":
            tree = place(tree, step[1], step[2])
        elif step[0] == "rev":
            tree = rev(tree)
        elif step[0] == "alpha":
            tree = alpha(tree)
        elif step[0] == "outvars":
            tree = outvars_reversed(tree)
        else:
            raise ValueError(step)
    return tree


def permuted_names(S, perm):
    """the release columns in another order (the release file is written from S['names'], column by column)"""
    S = copy.deepcopy(S)
    names = S["names"]
    S["names"] = list(reversed(names)) if perm == "reverse" else [names[i] for i in perm]
    assert sorted(S["names"]) == sorted(names)
    return S


def order_cases():
    A = base_S("forcing.nc", "RK4", True, False)
    B = base_S("f_?.nc", "EF", False, True)
    C = base_S("data/f_*.nc", "RK2", True, True)
    out = []

    def add(label, S, dialect, arr, *, cols=None, run=True):
        out.append({"k": "order", "id": 9500 + len(out), "label": label, "S": S, "dialect": dialect, "arr": arr,
                    "cols": cols, "run": run, "omit": [False, False]})

    G, F, BOTH = "gridforce", "files", "both"
    add("v1, input_file and gridfile both in gridforce (the usual way)", A, "v1", [["place", G, G]])
    add("v1, input_file and gridfile both in files", A, "v1", [["place", F, F]])
    add("v1, input_file in gridforce, gridfile in files", A, "v1", [["place", G, F]])
    add("v1, input_file in files, gridfile in gridforce", A, "v1", [["place", F, G]])
    add("v1, wildcard input_file in files, gridfile in gridforce, sections and keys reversed", B, "v1",
        [["place", F, G], ["rev"]])
    add("v1, wildcard input_file in gridforce, gridfile in files, keys in alphabetical order", C, "v1",
        [["place", G, F], ["alpha"]])
    add("v1, both names in both sections", B, "v1", [["place", BOTH, BOTH]])
    add("v1, input_file in both sections, gridfile in files only", A, "v1", [["place", BOTH, F]], run=False)
    add("v1, gridfile in both sections, input_file in files only", C, "v1", [["place", F, BOTH]], run=False)
    add("v1, sections and keys in reverse order", C, "v1", [["rev"]])
    add("v1, output variable lists and definitions in another order", B, "v1", [["outvars"], ["place", G, F]])
    add("v2 YAML, sections and keys in reverse order", B, "v2yaml", [["rev"]])
    add("v2 TOML, sections and keys in reverse order", C, "v2toml", [["rev"]])
    add("v2 YAML, sections and keys in alphabetical order", A, "v2yaml", [["alpha"]])
    add("v1, release columns reversed, gridfile in files", B, "v1", [["place", G, F]], cols="reverse")
    add("v2 YAML, release columns Z Y release_time X", A, "v2yaml", [["rev"]], cols=[3, 2, 0, 1])
    add("v1, release columns rotated (mult last), names in files / gridforce", C, "v1", [["place", F, G], ["alpha"]],
        cols=[1, 2, 3, 4, 5, 6, 0])
    return out
