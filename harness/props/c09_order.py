"""C09 under rearrangement: orders / names / spellings of the inputs that must not matter.

One small scenario (a 20 x 20 ROMS grid with an island, a mainland and land on the rim, rectilinear dyadic lon/lat whose
ranges overlap, constant current of a quarter cell per step towards the island and the open boundary, sixteen release rows
at two release times, all in sea cells of the valid region) is run through ladim.main.main once per ARRANGEMENT:
 - the release file's columns in several orders (release_time / mult / lon / lat / X / Y / Z anywhere), named by a header
   line or by `names` in the configuration; the rows of one release time in another order; times and numbers spelled
   in equivalent ways;
 - the configuration's sections, output variables and keys in another order;
 - the forcing stored as f8, f4 or packed i2 (values exactly representable), its variables in the reverse order inside the
   file, or split into three files with their own time units and reference times.
For every arrangement the property is decided for every instance of every output record (finite, inside the valid region,
in a sea cell, nobody back after vanishing, released at the given sea position), and all arrangements must give the same
records as the first one (particle for particle, through the known row permutation).  Oracle only.
"""
from __future__ import annotations

import logging
import os

import numpy as np

import c09_scale as cs

IMAX, JMAX, DT, DX, STEPS = 20, 20, 512, 1024.0, 10
LON0, LAT0, DEG = 2.0, 2.125, 0.125  # lon = LON0 + DEG*i, lat = LAT0 + DEG*j: dyadic, the conversion is exact
TOL = 1e-6  # cells; arrangements of the lon/lat release against the base (the same numbers reach the same code)

ARRANGEMENTS = [
    # name, release columns, how they are named, row order, spelling, configuration order, forcing storage
    ("base", ["mult", "release_time", "lon", "lat", "Z"], "header", "file", "plain", "usual", "f8"),
    ("latlon", ["release_time", "lat", "lon", "Z", "mult"], "header", "file", "plain", "usual", "f8"),
    ("names-Z-lat-lon", ["release_time", "Z", "lat", "lon", "mult"], "names", "file", "plain", "usual", "f8"),
    ("time-last", ["lat", "mult", "Z", "lon", "release_time"], "header", "file", "plain", "usual", "f8"),
    ("rows-reversed", ["mult", "release_time", "lon", "lat", "Z"], "header", "reversed", "plain", "usual", "f8"),
    ("rows-shuffled-latlon", ["Z", "lat", "release_time", "lon", "mult"], "names", "shuffled", "plain", "reversed", "f8"),
    ("spelling", ["mult", "release_time", "lon", "lat", "Z"], "header", "file", "other", "usual", "f8"),
    ("conf-reversed", ["mult", "release_time", "lon", "lat", "Z"], "header", "file", "plain", "reversed", "f8"),
    ("forcing-f4", ["mult", "release_time", "lon", "lat", "Z"], "header", "file", "plain", "usual", "f4"),
    ("forcing-packed", ["release_time", "lat", "lon", "Z", "mult"], "header", "file", "plain", "usual", "packed"),
    ("forcing-vars-reversed", ["mult", "release_time", "lon", "lat", "Z"], "header", "file", "plain", "usual", "revvars"),
    ("forcing-3-files", ["release_time", "mult", "lat", "lon", "Z"], "names", "reversed", "plain", "reversed", "multi"),
    # the same release given in grid coordinates
    ("XY", ["mult", "release_time", "X", "Y", "Z"], "header", "file", "plain", "usual", "f8"),
    ("YX", ["Y", "Z", "release_time", "X", "mult"], "header", "shuffled", "other", "reversed", "f4"),
    ("names-YX", ["release_time", "Z", "Y", "mult", "X"], "names", "reversed", "plain", "usual", "multi"),
]


_BASE = {}  # results of the two usual arrangements (this process, this tree)


def gen_order_cases(ctx):
    return [{"k": "order", "arr": a[0]} for a in ARRANGEMENTS if a[0] not in ("base", "XY")]


def mask():
    M = np.ones((JMAX, IMAX), dtype=int)
    M[0, :] = 0
    M[3:9, 10:16] = 0  # an island
    M[11:, 2:7] = 0  # a mainland in the north-west
    M[12, 17] = 0
    M[16:18, 9:12] = 0
    return M


def rows():
    """sixteen release rows (time step, x, y, z, mult), every one in a sea cell of the valid region; odd eighths / sixteenths"""
    M = mask()
    lim = cs.limits(None, IMAX, JMAX)
    rng = np.random.default_rng(909)
    out = []
    while len(out) < 16:
        x, y = (2 * rng.integers(4, 4 * (IMAX - 2)) + 1) / 8, (2 * rng.integers(8, 8 * (JMAX - 2)) + 1) / 16  # never on a cell face
        if cs.in_valid(np.array([x]), np.array([y]), lim)[0] and M[int(round(y)), int(round(x))] == 1:
            out.append((0 if len(out) < 10 else 3, float(x), float(y), float(rng.integers(1, 9)), 1 + int(len(out) % 5 == 2)))
    return out


def copy_reversed(src, dst):
    """the same NetCDF file with its variables defined in the reverse order"""
    from netCDF4 import Dataset

    with Dataset(src) as a, Dataset(dst, "w", format="NETCDF4") as b:
        for name, dim in a.dimensions.items():
            b.createDimension(name, None if dim.isunlimited() else len(dim))
        for name in reversed(list(a.variables)):
            v = a.variables[name]
            w = b.createVariable(name, v.dtype, v.dimensions)
            w.setncatts({k: v.getncattr(k) for k in v.ncattrs()})
            v.set_auto_maskandscale(False)
            w.set_auto_maskandscale(False)
            w[...] = v[...]


def reorder(x, rev):
    if isinstance(x, dict):
        items = [(k, reorder(v, rev)) for k, v in x.items()]
        return dict(reversed(items)) if rev else dict(items)
    return x


def run(arr, d):
    """one run of ladim.main.main; returns (count per record, identifiers, X, Y of all instances, base row/copy of every pid)"""
    import romsfiles as rf
    import yaml
    from ladim.main import main
    from netCDF4 import Dataset

    name, cols, naming, roworder, spelling, conforder, storage = arr
    for f in d.glob("*"):
        f.unlink()
    M = mask()
    jj, ii = np.meshgrid(np.arange(JMAX), np.arange(IMAX), indexing="ij")
    kw = dict(imax=IMAX, jmax=JMAX, N=2, u=0.5, v=0.25, mask=M, dx=DX, lon=LON0 + DEG * ii, lat=LAT0 + DEG * jj)
    last = (STEPS + 2) * DT
    forcing = d / "roms.nc"
    if storage == "multi":  # three files, each with its own time unit and reference time
        rf.write_roms(d / "roms_08.nc", times=[0, 3 * DT], **kw)
        rf.write_roms(d / "roms_09.nc", times=[6 * DT], time_unit="h", time_ref_shift=-7200, **kw)
        rf.write_roms(d / "roms_10.nc", times=[9 * DT, last], time_unit="d", time_ref_shift=86400, dtype="f4", **kw)
        forcing, gridfile = d / "roms_*.nc", d / "roms_08.nc"
    else:
        rf.write_roms(d / ("tmp.nc" if storage == "revvars" else "roms.nc"), times=[0, last],
                      dtype="f4" if storage == "f4" else "f8", packed={"u": 2.0 ** -6, "v": 2.0 ** -6} if storage == "packed" else None, **kw)
        if storage == "revvars":
            copy_reversed(d / "tmp.nc", d / "roms.nc")
        gridfile = forcing
    R = rows()
    order = list(range(len(R)))
    if roworder == "reversed":
        order = order[::-1]
    elif roworder == "shuffled":
        order = np.random.default_rng(17).permutation(len(R)).tolist()
    order.sort(key=lambda r: R[r][0])  # stable: the file stays ordered in time, rows of one release time are permuted
    other = spelling == "other"

    def cell(r, c, k):
        t, x, y, z, m = R[r]
        if c == "release_time":
            s = rf.iso(t * DT)
            return s[:-3] if other and k % 2 and s.endswith(":00") else s  # 2000-01-01T00:25 = 2000-01-01T00:25:00
        if c == "mult":
            return str(m)
        val = {"X": x, "Y": y, "Z": z, "lon": LON0 + DEG * x, "lat": LAT0 + DEG * y}[c]
        if not other:
            return repr(val)
        return [f"+{val!r}", f"{val:.10e}", f"{val:.10f}", str(int(val)) if val == int(val) else f"{val!r}0"][k % 4]

    with (d / "r.rls").open("w") as f:
        if naming == "header":
            f.write(" ".join(cols) + "\n")
        for k, r in enumerate(order):
            f.write(("\t" if other else " ").join(cell(r, c, k) for c in cols) + "\n")
    conf = rf.base_config(start=0, stop=STEPS * DT, dt=DT, forcing_file=forcing, release_file=d / "r.rls", out_file=d / "out.nc",
                          advection="RK4", output_period=DT, grid_file=gridfile, names=cols)
    if naming == "header":
        del conf["release"]["names"]
    conf = reorder(conf, conforder == "reversed")
    with (d / "ladim.yaml").open("w") as f:
        yaml.safe_dump(conf, f, sort_keys=False)
    cwd = os.getcwd()
    os.chdir(d)
    logging.disable(logging.CRITICAL)
    try:
        main(str(d / "ladim.yaml"), loglevel=logging.CRITICAL + 10)
    finally:
        os.chdir(cwd)
        logging.disable(logging.CRITICAL)
    with Dataset(d / "out.nc") as nc:
        nc.set_auto_mask(False)
        cnt = np.asarray(nc.variables["particle_count"][:]).astype(int)
        pid = np.asarray(nc.variables["pid"][:]).astype(int)
        X = np.asarray(nc.variables["X"][:], dtype=float)
        Y = np.asarray(nc.variables["Y"][:], dtype=float)
    mult = np.array([R[r][4] for r in order])
    who = np.repeat(np.array(order), mult) * 4 + np.concatenate([np.arange(m) for m in mult])  # pid -> 4*row + copy
    return cnt, pid, X, Y, who


def judge(cnt, pid, X, Y, who):
    """the property for one run, every instance of every record; returns (problems, table record x particle of positions)"""
    M, lim, R = mask(), cs.limits(None, IMAX, JMAX), rows()
    problems = []
    table = np.full((len(cnt), 4 * len(R), 2), np.nan)
    if cnt.sum() != len(pid) or len(pid) != len(X) or len(X) != len(Y):
        return [f"particle_count sums to {int(cnt.sum())}, {len(pid)} identifiers and {len(X)} positions stored"], table
    if len(pid) and (pid.min() < 0 or pid.max() >= len(who)):
        return [f"identifiers {int(pid.min())} ... {int(pid.max())} in the output, {len(who)} particles released"], table
    gone = np.zeros(len(who), dtype=bool)
    prev = np.zeros(len(who), dtype=bool)
    seen = np.zeros(len(who), dtype=bool)
    e = 0
    for r, c in enumerate(cnt.tolist()):
        p, x, y = pid[e:e + c], X[e:e + c], Y[e:e + c]
        e += c
        inside = cs.in_valid(x, y, lim)
        sea = cs.at_sea(M, x, y, inside)
        pos = lambda k: f"pid {int(p[k])} (release row {int(who[p[k]]) // 4}) at ({x[k]}, {y[k]})"  # noqa: E731
        now = np.zeros(len(who), dtype=bool)
        now[p] = True
        if int(now.sum()) != c:
            problems.append(f"record {r}: identifiers not unique ({c} instances, {int(now.sum())} identifiers)")
        for bad, text in ((~inside, "outside the valid region or at a non-finite position"), (inside & ~sea, "alive on land"),
                          (gone[p], "identifier of a particle that had vanished from the records is back")):
            if bad.any():
                problems.append(f"record {r} ({c} particles): {text}: " + cs.first(bad, pos))
        # a particle's first instance: at the given release position, moved by at most the steps since its release
        new = ~seen[p]
        if new.any():
            rx = np.array([R[int(w) // 4][1] for w in who[p]]); ry = np.array([R[int(w) // 4][2] for w in who[p]])
            rt = np.array([R[int(w) // 4][0] for w in who[p]])
            far = new & ((rt != r) | (np.abs(x - rx) > 1e-3) | (np.abs(y - ry) > 1e-3))
            if far.any():
                k = int(np.flatnonzero(far)[0])
                problems.append(f"record {r}: first instance of {pos(k)}, released at step {int(rt[k])} at the sea position ({rx[k]}, {ry[k]})")
        seen[p] = True
        gone |= prev & ~now
        prev = now
        table[r, who[p], 0], table[r, who[p], 1] = x, y
        if len(problems) >= 3:
            break
    return problems, table


def eval_order(desc, ctx):
    arr = {a[0]: a for a in ARRANGEMENTS}[desc["arr"]]
    base = {a[0]: a for a in ARRANGEMENTS}["base" if "lon" in arr[1] else "XY"]  # the usual arrangement of the same kind of release
    d = ctx.subdir("c09order")
    what = (f"arrangement case '{arr[0]}': ladim.main.main, release columns {' '.join(arr[1])} named by {arr[2]}, rows {arr[3]}, "
            f"spelling {arr[4]}, configuration order {arr[5]}, forcing {arr[6]}")
    res = {}
    for a in (base, arr):
        try:
            if a is base and a[0] in _BASE:
                res[a[0]] = _BASE[a[0]]
                continue
            res[a[0]] = judge(*run(a, d))
            if a is base:
                _BASE[a[0]] = res[a[0]]
        except BaseException as e:  # noqa: BLE001
            return {"ints": None, "oracle": f"{what if a is arr else 'base arrangement'}: the simulation stopped with {type(e).__name__}: {e}",
                    "nontrivial": None, "kind": "order", "observed": {}}
    problems = [f"[{n}] {p}" for n in res for p in res[n][0]]
    (pb, tb), (pa, ta) = res[base[0]], res[arr[0]]
    if not problems:
        if tb.shape != ta.shape:
            problems.append(f"{tb.shape[0]} records with the base arrangement, {ta.shape[0]} with this one")
        else:
            differ = (np.isnan(tb) != np.isnan(ta)) | (np.abs(np.nan_to_num(tb) - np.nan_to_num(ta)) > TOL)
            if differ.any():
                r, w, _ = (int(q) for q in np.argwhere(differ)[0])
                problems.append(f"record {r}, release row {w // 4} copy {w % 4}: at {ta[r, w].tolist()} with this arrangement, at {tb[r, w].tolist()} "
                                f"with the base arrangement ({' '.join(base[1])})")
    died = bool(np.isnan(tb[-1]).sum() > np.isnan(tb[4]).sum())
    return {"ints": None, "oracle": (what + ": " + "; ".join(problems[:3])) if problems else None,
            "nontrivial": ("order", arr[0]) if died else None, "kind": "order-" + arr[6],
            "observed": {"records": int(ta.shape[0]), "alive_last": int((~np.isnan(ta[-1, :, 0])).sum())}}
