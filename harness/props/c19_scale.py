"""C19 at scale — deterministic cases of realistic size (oracle only, too large for a Coq literal).

The small runs of c19.py hold at most a dozen particles for at most 14 steps.  The clauses of the property that speak
of "every living particle" and "every record" are decided here on full runs through ladim.main.main with
  * 1000 ... 130000 particles (sizes straddling powers of two and round decimal numbers), released from a release
    file with a `mult` column, a second release in the middle of the run, slow mortality (zero to three IBM kills per
    step) and, in some cases, a mass mortality in one step;
  * long lives: more than 1500 steps with a record every step (1500+ records), and more than 1000 steps between two
    records and between two forcing frames, with releases and kills all along the run;
  * a warm start from the sparse output of such a run.
The IBM is a plug-in written into the scratch directory and given by its absolute path; it keeps (numpy copies of)
the state it sees in the module `c19_scale_recorder`.  The oracle is the property text, evaluated with numpy for every
step and every record:
  - the IBM is called once per step, steps in order, and the set of LIVING particles it sees is exactly the particles
    released so far minus those killed in earlier steps, each once, after the move (X = position of the next step);
  - a record is written at every due step, with the time of its step, and holds exactly the particles living at that
    time (a particle killed by the IBM in step n is in the record of step n and in no later record), with positions
    valid at that time and the forcing-derived variable `temp` of the frame and cell valid there and then (also for
    the particles released in that very step);
  - close of the IBM once, after the last update; the plug-in given by path is the one that ran.
Arithmetic: u = 0.25 m/s, dx = 1024 m, dt a power of two, start positions multiples of 1/8: every position is a
dyadic number computed without rounding; positions are nevertheless compared with the tolerance of c19.py (1e-9 here,
1e-12 there on O(10) values) and `temp` is not checked where X or Y is within 1e-6 of a half-integer.
"""
from __future__ import annotations

import sys
import types
from pathlib import Path

import numpy as np
from netCDF4 import Dataset

import romsfiles as rf
import run_ladim as rl

IMAX, JMAX, NLEV = 48, 12, 2
U, DX = 0.25, 1024.0
NEVER = 1 << 40
TOL = 1e-9

IBM_SRC = '''"""recording plug-in IBM written by harness/props/c19_scale.py"""
import sys

import numpy as np

REC = sys.modules["c19_scale_recorder"]
TOKEN = "@TOKEN@"


class IBM:
    def __init__(self, modules, schedule=None, **kw):
        self.modules = modules
        z = np.load(schedule)
        self.ksteps, self.kpids = z["steps"], z["pids"]
        REC.events.append(("construct", TOKEN, -1))

    def update(self):
        state = self.modules["state"]
        step = int(self.modules["time"].step)
        pid = np.array(state.pid)
        alive = np.array(state.alive, dtype=bool)
        REC.calls.append((step, pid, np.array(state.X, dtype=float), alive))
        victims = self.kpids[self.ksteps == step]
        if len(victims):
            state["alive"] = alive & ~np.isin(pid, victims)
        REC.events.append(("update", TOKEN, step))

    def close(self):
        REC.events.append(("close", TOKEN, int(self.modules["time"].step)))
'''

WRONG_SRC = IBM_SRC.replace("@TOKEN@", "WRONG MODULE RAN")


def recorder():
    rec = sys.modules.get("c19_scale_recorder")
    if rec is None:
        rec = types.ModuleType("c19_scale_recorder")
        sys.modules["c19_scale_recorder"] = rec
    rec.calls, rec.events = [], []
    return rec


# --------------------------------------------------------------------------------------------------
# cases
# --------------------------------------------------------------------------------------------------
def _big(n, p, trickle, mass=None, N=10):
    return {"name": f"particles-{n}", "dt": 512, "N": N, "p": p, "gap": 2,
            "releases": [[0, n], [3, n // 7 + 3]], "trickle": trickle, "mass": mass, "warm": 0}


SPECS = [
    _big(1000, 1, [1, 0, 2]), _big(1024, 2, [1]), _big(1025, 3, [0, 1, 1, 3]),
    _big(2048, 1, [1, 1, 0]), _big(2049, 2, [2, 0, 1]),
    _big(4096, 3, [1]), _big(4097, 1, [1, 2, 0, 1]), _big(5000, 2, [1, 0, 1]),
    _big(10000, 1, [1]), _big(20000, 1, [1, 1, 2], mass=[4, 2, 1]), _big(40000, 3, [1, 0]),
    _big(70000, 2, [3, 1, 1], N=9), _big(130000, 1, [1, 1, 0, 2], N=8),
    # a million instances in one file: 131072 particles, a record in each of 8 steps, nobody dies before the sixth step
    {"name": "instances-1M", "dt": 512, "N": 8, "p": 1, "gap": 2, "releases": [[0, 131072]],
     "trickle": [0, 0, 0, 0, 0, 1, 1, 1], "mass": None, "warm": 0},
    # long lives
    {"name": "steps-1536-record-every-step", "dt": 64, "N": 1536, "p": 1, "gap": 64,
     "releases": [[4 * i, 1 + (i % 3 == 0)] for i in range(300)], "trickle": [0, 1, 0], "mass": None, "warm": 0},
    {"name": "steps-1300-sparse-records-and-frames", "dt": 64, "N": 1300, "p": 1025, "gap": 1100,
     "releases": [[0, 2500], [1026, 700], [1290, 3]], "trickle": [0, 0, 0, 0, 1], "mass": [1100, 50, 7], "warm": 0},
    {"name": "steps-1300-period-129", "dt": 64, "N": 1300, "p": 129, "gap": 1100,
     "releases": [[0, 2100], [700, 2100]], "trickle": [0] * 12 + [1], "mass": None, "warm": 0},
    # warm start from the output of a run with slow mortality (M steps), then 9 more steps
    {"name": "warm-5000", "dt": 512, "N": 9, "p": 2, "gap": 2, "releases": [[0, 5000], [1, 700], [7, 900]],
     "trickle": [1, 1, 0, 2], "mass": None, "warm": 4},
    {"name": "warm-33000", "dt": 512, "N": 6, "p": 1, "gap": 2, "releases": [[0, 33000], [6, 100]],
     "trickle": [1], "mass": None, "warm": 3},
]


def gen_cases():
    return [{"k": "scale", "id": 9000 + i, **s} for i, s in enumerate(SPECS)]


# --------------------------------------------------------------------------------------------------
# inputs
# --------------------------------------------------------------------------------------------------
def release_table(releases):
    """Rows of the release file (step, X, Y, mult) and per particle (in pid order) release step, X, Y"""
    steps, X, Y, mult = [], [], [], []
    for k, (step, n) in enumerate(releases):
        R = min(n, 256)
        i = np.arange(R)
        steps.append(np.full(R, step))
        X.append(3.0 + ((i + 5 * k) % 64) / 8.0)
        Y.append(2.25 + ((i // 64 + k) % 4) * 0.5)
        mult.append(n // R + (i < n % R))
    steps, X, Y, mult = (np.concatenate(a) for a in (steps, X, Y, mult))
    return (steps, X, Y, mult), (np.repeat(steps, mult), np.repeat(X, mult), np.repeat(Y, mult))


def kill_schedule(spec, rel_step, first, last):
    """(steps, pids) of the kills ordered by the IBM in absolute steps first..last-1, and per particle the step in
    which it dies (NEVER if it survives).  A kill of a particle that is not living then has no effect."""
    ntot = len(rel_step)
    released = np.searchsorted(rel_step, np.arange(last + 1), side="right")  # rel_step is non-decreasing
    ks, kp = [], []
    tr = spec["trickle"]
    for s in range(first, last):
        m = tr[s % len(tr)]
        if m and released[s]:
            q = (s * 7919 + np.arange(m) * 104729 + 11) % released[s]
            ks.append(np.full(m, s))
            kp.append(q)
    if spec["mass"]:
        s, stride, off = spec["mass"]
        if first <= s < last:
            q = np.arange(off, released[s], stride)
            ks.append(np.full(len(q), s))
            kp.append(q)
    ks = np.concatenate(ks) if ks else np.zeros(0, dtype=int)
    kp = np.concatenate(kp) if kp else np.zeros(0, dtype=int)
    return ks.astype(np.int64), kp.astype(np.int64), ntot


def death_steps(ntot, rel_step, ks, kp):
    dies = np.full(ntot, NEVER, dtype=np.int64)
    ok = ks >= rel_step[kp]
    np.minimum.at(dies, kp[ok], ks[ok])
    return dies


def write_inputs(d, spec, rows, last_step):
    dt, gap = spec["dt"], spec["gap"]
    nframes = last_step // gap + 3
    times = [k * gap * dt for k in range(nframes)]
    temp = np.zeros((nframes, NLEV, JMAX, IMAX))
    temp += 100.0 * np.arange(nframes)[:, None, None, None]
    temp += np.arange(IMAX)[None, None, None, :] + np.arange(JMAX)[None, None, :, None] / 32.0
    rf.write_roms(d / "f.nc", imax=IMAX, jmax=JMAX, N=NLEV, times=times, u=U, dx=DX, extra={"temp": temp}, h=100.0)
    steps, X, Y, mult = rows
    lines = [f"{rf.iso(int(s) * dt)} {int(m)} {float(x)!r} {float(y)!r} 5.0" for s, x, y, m in zip(steps, X, Y, mult)]
    (d / "r.rls").write_text("\n".join(lines) + "\n")  # a few hundred rows: the particles come from `mult`


def make_conf(d, spec, stop_step, out_name):
    dt = spec["dt"]
    conf = rf.base_config(start=0, stop=stop_step * dt, dt=dt, forcing_file=d / "f.nc", release_file=d / "r.rls",
                          out_file=d / out_name, names=("release_time", "mult", "X", "Y", "Z"), advection="EF",
                          output_period=spec["p"] * dt, reference=0, instance_variables=("pid", "X", "Y", "Z", "temp"))
    conf["state"] = {"instance_variables": {"temp": "float"}, "default_values": {"temp": -1.0}}
    conf["forcing"]["extra_forcing"] = ["temp"]
    return conf


def read_records(path):
    with Dataset(path) as nc:
        nc.set_auto_mask(False)
        out = {v: np.asarray(nc.variables[v][:]) for v in ("time", "particle_count", "pid", "X", "Y", "temp")}
    return out


def short(a, n=5):
    a = np.asarray(a)
    return f"{a[:n].tolist()}{'...' if len(a) > n else ''}"


# --------------------------------------------------------------------------------------------------
# one leg (a cold run, or the warm continuation) and its oracle
# --------------------------------------------------------------------------------------------------
def run_leg(d, spec, tag, token, conf, sched):
    """Run through ladim.main.main; returns (calls, events, error)"""
    plug = d / f"plug_{tag}"
    plug.mkdir(exist_ok=True)
    ibm_file = plug / "scale_ibm.py"
    ibm_file.write_text(IBM_SRC.replace("@TOKEN@", token))
    (d / "scale_ibm.py").write_text(WRONG_SRC)  # same base name in the working directory: must not be the one that runs
    np.savez(d / f"kills_{tag}.npz", steps=sched[0], pids=sched[1])
    conf["ibm"] = {"module": str(ibm_file), "schedule": str(d / f"kills_{tag}.npz")}
    rec = recorder()
    err = None
    try:
        rl.run_main(conf, d, name=f"ladim_{tag}.yaml")
    except (SystemExit, Exception) as e:  # noqa: BLE001
        err = e
    return rec.calls, rec.events, err


def check_leg(label, spec, calls, events, token, out_file, s0, steps, rec_steps, per):
    """The property on one leg.  s0: absolute step of the leg's step 0; steps: the leg's own step numbers in which
    the modules must have run; rec_steps: those with a record due; per: per-particle arrays (pid = index)."""
    rel_step, x0, y0, dies = per
    dt, gap = spec["dt"], spec["gap"]
    dxs = U * dt / DX
    problems = []

    def living(a):  # mask of the particles living at absolute step a (after the release, before the IBM of that step)
        return (rel_step <= a) & (dies >= a)

    # ---- the IBM: once per step, in order, the plug-in given by path, closed once at the end -----
    wrong = [e for e in events if e[1] != token]
    if wrong:
        problems.append(f"{label}: IBM calls {short([e[0] for e in wrong])} were run by {wrong[0][1]!r}, "
                        f"the module given by path is {token!r}")
    ev = [e for e in events if e[1] == token]
    kinds = [e[0] for e in ev]
    if kinds.count("construct") != 1 or kinds.count("close") != 1 or kinds[:1] != ["construct"] or kinds[-1:] != ["close"]:
        problems.append(f"{label}: IBM constructed {kinds.count('construct')} times, closed {kinds.count('close')} times, "
                        f"first/last call {kinds[:1]}/{kinds[-1:]} (expected construct first, one close last)")
    got_steps = [c[0] for c in calls]
    if got_steps != list(steps):
        i = next((i for i, (a, b) in enumerate(zip(got_steps, steps)) if a != b), min(len(got_steps), len(steps)))
        problems.append(f"{label}: IBM called {len(got_steps)} times in a run of {len(steps)} steps; call number {i} is for step "
                        f"{got_steps[i] if i < len(got_steps) else None}, expected {steps[i] if i < len(steps) else None}")
    for step, pid, X, alive in calls:
        if len(problems) >= 4:
            break
        a = s0 + step
        want = np.flatnonzero(living(a))
        seen = pid[alive]
        order = np.argsort(seen, kind="stable")
        seen_sorted = seen[order]
        if len(seen_sorted) != len(want) or not np.array_equal(seen_sorted, want):
            dup = seen_sorted[1:][np.diff(seen_sorted) == 0]
            problems.append(f"{label}: IBM of step {step} saw {len(seen_sorted)} living particles, {len(want)} are living; "
                            f"not living but seen {short(np.setdiff1d(seen_sorted, want))}, living but not seen "
                            f"{short(np.setdiff1d(want, seen_sorted))}, seen twice {short(dup)}")
            continue
        wx = x0[want] + (a + 1 - rel_step[want]) * dxs
        bad = np.flatnonzero(np.abs(X[alive][order] - wx) > TOL)
        if len(bad):
            q = want[bad[0]]
            problems.append(f"{label}: IBM of step {step} saw pid {q} at X={X[alive][order][bad[0]]!r}; after the move of "
                            f"that step it is at {wx[bad[0]]!r} ({len(bad)} such particles)")

    # ---- the records ---------------------------------------------------------------------------
    try:
        R = read_records(out_file)
    except Exception as e:  # noqa: BLE001
        problems.append(f"{label}: output file unreadable: {type(e).__name__}: {e}")
        return problems
    count = R["particle_count"].astype(np.int64)
    if len(count) != len(rec_steps):
        problems.append(f"{label}: {len(count)} records in the file, {len(rec_steps)} are due (steps {short(rec_steps, 8)})")
    if int(count.sum()) != len(R["pid"]):
        problems.append(f"{label}: particle_count adds up to {int(count.sum())}, the file holds {len(R['pid'])} instances")
        return problems
    offs = np.concatenate(([0], np.cumsum(count)))
    zombies_reported = False
    for k, step in enumerate(rec_steps[:len(count)]):
        if len(problems) >= 6:
            break
        a = s0 + step
        sl = slice(offs[k], offs[k + 1])
        pid = R["pid"][sl].astype(np.int64)
        if R["time"][k] != float(a * dt):
            problems.append(f"{label}: record {k} (step {step}) has time {R['time'][k]}, its step is at {a * dt}")
        want = np.flatnonzero(living(a))
        order = np.argsort(pid, kind="stable")
        ps = pid[order]
        if len(ps) != len(want) or not np.array_equal(ps, want):
            extra = np.setdiff1d(ps, want)
            killed_before = extra[(extra < len(dies))]
            killed_before = killed_before[dies[killed_before] < a]
            if len(killed_before) and zombies_reported:
                continue  # the same particles linger in the following records: say it once
            msg = (f"{label}: record {k} (step {step}) holds {len(ps)} particles, {len(want)} are living at that time; ")
            if len(killed_before):
                zombies_reported = True
                q = int(killed_before[0])
                msg += (f"{len(killed_before)} of them were killed by the IBM in earlier steps, e.g. pid {q} killed in step "
                        f"{int(dies[q]) - s0}: a kill must take effect from the next record on")
            else:
                dup = ps[1:][np.diff(ps) == 0]
                msg += (f"not living but present {short(extra)}, living but missing {short(np.setdiff1d(want, ps))}, "
                        f"twice {short(dup)}")
            problems.append(msg)
            continue
        X, Y, T = R["X"][sl][order], R["Y"][sl][order], R["temp"][sl][order]
        wx = x0[want] + (a - rel_step[want]) * dxs
        bad = np.flatnonzero((np.abs(X - wx) > TOL) | (np.abs(Y - y0[want]) > TOL))
        if len(bad):
            b = bad[0]
            problems.append(f"{label}: record {k} (step {step}): pid {want[b]} at X={X[b]!r} Y={Y[b]!r}, the position valid at "
                            f"that time is X={wx[b]!r} Y={y0[want][b]!r} ({len(bad)} such particles)")
            continue
        clear = (np.abs(X - np.floor(X) - 0.5) > 1e-6) & (np.abs(Y - np.floor(Y) - 0.5) > 1e-6)
        wt = 100.0 * (a // gap) + np.round(X) + np.round(Y) / 32.0  # the latest frame at or before the step
        bad = np.flatnonzero(clear & (T != wt))
        if len(bad):
            b = bad[0]
            new = " (released in this step)" if rel_step[want[b]] == a else ""
            problems.append(f"{label}: record {k} (step {step}): pid {want[b]}{new} at X={X[b]!r} Y={Y[b]!r} has temp={T[b]!r}, "
                            f"the field there and then is {wt[b]!r} ({len(bad)} such particles)")
    return problems


def eval_scale(desc, ctx):
    spec = desc
    d = ctx.subdir(f"scale_{desc['id']}")
    for f in d.glob("*.nc"):
        f.unlink()
    M, N, p, dt = spec["warm"], spec["N"], spec["p"], spec["dt"]
    s0 = (M - 1) if M else 0
    last = s0 + N  # absolute step at which the (last) run stops
    rows, (rel_step, x0, y0) = release_table(spec["releases"])
    write_inputs(d, spec, rows, last)
    ntot = len(rel_step)
    label = f"scale case {spec['name']} ({ntot} particles released, {last} steps, a record every {p} steps" + \
            (f", warm start after {M} steps" if M else "") + ")"
    nt = ("scale", spec["name"])
    problems = []
    observed = {"released": int(ntot)}
    if M:
        # first leg: cold run of M steps with a record in every step; no kills in its last step (the restart file is its
        # last record, written before the IBM of that step)
        ks, kp, _ = kill_schedule(spec, rel_step, 0, M - 1)
        # second leg: the IBM counts the steps of ITS run (step 0 = absolute step M-1)
        ks2, kp2, _ = kill_schedule(spec, rel_step, M - 1, last)
        dies = death_steps(ntot, rel_step, np.concatenate((ks, ks2)), np.concatenate((kp, kp2)))
        per = (rel_step, x0, y0, dies)
        spec1 = dict(spec, p=1)
        c1 = make_conf(d, spec1, M, "restart.nc")
        calls, events, err = run_leg(d, spec1, "leg1", f"scale-{desc['id']}-leg1", c1, (ks, kp))
        if err is not None:
            problems.append(f"{label}: the run that writes the restart file stopped with {err!r}")
        else:
            problems += check_leg(label + " first leg", spec1, calls, events, f"scale-{desc['id']}-leg1", d / "restart.nc",
                                  0, list(range(M)), list(range(M)), per)
        if not problems:
            c2 = make_conf(d, spec, last, "out.nc")
            del c2["time"]["start"]
            c2["warm_start"] = {"filename": str(d / "restart.nc"), "variables": ["temp"]}
            calls, events, err = run_leg(d, spec, "leg2", f"scale-{desc['id']}-leg2", c2, (ks2 - s0, kp2))
            if err is not None:
                problems.append(f"{label}: the warm-started run stopped with {err!r}")
            else:
                steps = list(range(0, N))
                problems += check_leg(label + " after the warm start", spec, calls, events, f"scale-{desc['id']}-leg2",
                                      d / "out.nc", s0, steps, [s for s in steps[1:] if s % p == 0], per)
    else:
        ks, kp, _ = kill_schedule(spec, rel_step, 0, last)
        dies = death_steps(ntot, rel_step, ks, kp)
        per = (rel_step, x0, y0, dies)
        conf = make_conf(d, spec, N, "out.nc")
        calls, events, err = run_leg(d, spec, "run", f"scale-{desc['id']}", conf, (ks, kp))
        if err is not None:
            problems.append(f"{label}: run stopped with {err!r}")
        else:
            steps = list(range(N))
            problems += check_leg(label, spec, calls, events, f"scale-{desc['id']}", d / "out.nc", 0, steps,
                                  [s for s in steps if s % p == 0], per)
    observed["killed"] = int((dies < NEVER).sum())
    observed["ibm_calls"] = len(calls)
    rec = sys.modules.get("c19_scale_recorder")
    if rec is not None:
        rec.calls, rec.events = [], []  # release the snapshots
    return {"ints": None, "oracle": "; ".join(problems[:3]) or None, "nontrivial": nt, "kind": "scale", "observed": observed}
