"""C01 at the float level — the binary64 arithmetic of the horizontal step of `ladim.tracker.Tracker.update`
(EF / RK2 / RK4, numba kernels RKstep1 / clip / RK4avg), bit for bit.

Self-contained (NOT registered in the harness).  Companion of
    coq/Model/TrackerFloat.v           the executable binary64 model (Coq primitive floats)
    coq/Proofs/TrackerFloatProofs.v    error bounds against the exact Runge-Kutta step, clip exactness, ...
    coq/Corr/C01F.v                    check_case : list Z -> bool  (bit-for-bit comparison + side conditions)
    coq/Proofs/C01FSound.v             an accepted case is an instance of the proved bounds

A step case drives the REAL `Tracker.update` (constructed through the real `Tracker.__init__`) for a few
particles, the particle under test LAST, with
  * `tracker_impl.StubGrid` (land-free, prescribed metric dx != dy, optionally varying from cell to cell),
  * `tracker_impl.StubForcing(func=...)`: RECORDS the positions and the fractional step it is asked at, and
    returns PRESCRIBED velocities (stage k of the particle under test gets us[k], vs[k]),
  * a time module whose `dt` is a numpy timedelta64 (ordinary cases) or an object whose division by
    np.timedelta64(1, "s") yields an arbitrary float (so that any binary64 dt goes through the real constructor).
The case is about ONE coordinate (desc["axis"]: "x" with U, dx, xmin/xmax, or "y" with V, dy, ymin/ymax); the other
coordinate moves with its own, different velocities at the same time.

Floats travel as their IEEE-754 bit pattern: int.from_bytes(struct.pack(">d", x), "big").
Layout handed to Coq (Corr/C01F.check_case):
    [code, Xb, DTb, DXb, LOb, HIb, U1b..Unb, P1b..Pkb, Fb]
      code 0 EF (n=1, k=0), 1 RK2 (n=2, k=1), 2 RK4 (n=4, k=3); +8 when the inputs are outside the hypotheses of the
      error theorems (only the bits are compared then)
      X, DT, DX, LO, HI: coordinate before the step, tracker.dt, metric of the particle's cell, the clip bounds the
      tracker used (tracker.xmin, tracker.xmax); U: velocities the forcing returned; P: coordinates at which the
      forcing was asked at stages 2..n; F: coordinate after the step
    [3, Xb, FRACb, Ub, DTDXb, LOb, HIb, Rb]     one call of the numba kernels RKstep1 + clip
    [4, U1b, U2b, U3b, U4b, Rb]                 one call of the numba kernel RK4avg

The ORACLE is independent of the Coq model: exact `fractions.Fraction` arithmetic of the tableau step with the
recorded stage velocities, and the proved error bounds
    final (EF, RK2):  |F - (x + u dt/dx)|        <= u |x| + 4 u |u dt/dx| + eta (2 + 2/|dx|)
    final (RK4):      |F - (x + ubar dt/dx)|     <= u |x| + 9 u M |dt/dx| + eta (2 + 2/|dx| + 2 |dt/dx|)
    stage:            |P - clip(x + f u dt/dx)|  <= u |x| + 5 u |f u dt/dx| + eta (2 + 2 |f u| + 2 |dt/dx|)
    RK4avg:           |R - ubar|                 <= (4 u + 7 u^2) M + eta
    RK4avg(v, v, v, v):  |R - v| <= 1 ulp(v)     for 2^-1022 <= |v| <= 2^100  (sharp)
(u = 2^-53, eta = 2^-1075, M = max |u_i|), plus: the forcing is asked exactly n times, first at the particle's own
position, at the fractional steps of the scheme; stage positions lie inside [lo, hi]; zero velocity leaves the
coordinate unchanged bit for bit (except x = -0.0).

Run:  PYTHONPATH=/repo /venv/bin/python /verif/harness/props/c01_float.py [--words] [n] [seed ...]
"""
from __future__ import annotations

import math
import os
import random
import shutil
import struct
import subprocess
import sys
import tempfile
import time
from fractions import Fraction

import numpy as np

_HERE = os.path.dirname(os.path.abspath(__file__))
for _p in (_HERE, os.path.join(_HERE, "..", "lib")):
    if _p not in sys.path:
        sys.path.insert(0, _p)

import tracker_impl as ti  # noqa: E402  (StubGrid, StubForcing)

PROP = "C01"
CHECKER = "Corr.C01F"
COQ_ROOT = os.environ.get("VERIF_COQ", os.path.join(_HERE, "..", "..", "coq"))

U = Fraction(1, 2 ** 53)
ETA = Fraction(1, 2 ** 1075)
C4 = 4 * U + 7 * U * U
SCHEMES = {"EF": 0, "RK2": 1, "RK4": 2}
NVEL = {"EF": 1, "RK2": 2, "RK4": 4}
FRACS = {"EF": [0.0], "RK2": [0.0, 0.5], "RK4": [0.0, 0.5, 0.5, 1.0]}   # fractional time of stage k
STEPFRAC = {"RK2": [0.5], "RK4": [0.5, 0.5, 1.0]}                       # frac of the RKstep leading to stage k + 1
NEGZERO = 1 << 63


def bits(x) -> int:
    return int.from_bytes(struct.pack(">d", float(x)), "big")


def unbits(b: int) -> float:
    return struct.unpack(">d", int(b).to_bytes(8, "big"))[0]


def same(a: float, b: float) -> bool:
    """bit-for-bit, all NaNs alike"""
    return (math.isnan(a) and math.isnan(b)) or bits(a) == bits(b)


# ---------------------------------------------------------------------------------------------- the proved bounds
def move_bound(x, u, dt, dx):
    return U * abs(x) + 4 * U * abs(u * dt / dx) + ETA * (2 + 2 / abs(dx))


def stage_bound(x, f, u, dt, dx):
    return U * abs(x) + 5 * U * abs(f * u * dt / dx) + ETA * (2 + 2 * abs(f * u) + 2 * abs(dt / dx))


def rk4_bound(x, M, dt, dx):
    return U * abs(x) + 9 * U * M * abs(dt / dx) + ETA * (2 + 2 / abs(dx) + 2 * abs(dt / dx))


def in_range(x, dt, dx, lo, hi, us) -> bool:
    """the side conditions of the theorems (Model/TrackerFloat.step_ok), recomputed here"""
    fin = all(math.isfinite(v) for v in [x, dt, dx, lo, hi] + list(us))
    return (fin and abs(x) <= 2.0 ** 1000 and abs(dt) <= 2.0 ** 100 and abs(dx) >= 2.0 ** -100
            and all(abs(u) <= 2.0 ** 100 for u in us))


# ---------------------------------------------------------------------------------------------- generation
def _next(x, up=True):
    return math.nextafter(x, math.inf if up else -math.inf)


def _rand_double(rng, lo_exp=-1074, hi_exp=1023):
    e = rng.randint(lo_exp, hi_exp)
    return rng.choice([-1.0, 1.0]) * math.ldexp(1.0 + rng.random(), e)


_DTS = [60.0, 600.0, 3600.0, 120.0, 1.5, 0.25, 86400.0, -600.0, -3600.0, 0.001, 1e-3 * 7, 900.0]
_DXS = [800.0, 100.0, 1234.5, 4000.0, 20000.0, 0.25, 1.0, 160.0, 2.0 ** -3, 1e5 / 3]


def _gen_vels(rng, n, style):
    if style == "ordinary":
        return [rng.uniform(-3, 3) for _ in range(n)]
    if style == "fast":          # several cells per step: stages leave the box and are clipped
        return [rng.uniform(-1, 1) * 10.0 ** rng.randint(1, 4) for _ in range(n)]
    if style == "tiny":          # products underflow: u * dt, 0.5 * u, (0.5 u) * dtdx in the subnormal range
        return [rng.choice([5e-324, -5e-324, 1e-323, 1.5e-323, 2.2250738585072014e-308, _rand_double(rng, -1074, -1000)]) for _ in range(n)]
    if style == "zero":
        return [rng.choice([0.0, -0.0]) for _ in range(n)]
    if style == "equal":
        v = rng.choice([rng.uniform(-3, 3), _rand_double(rng, -60, 60), 0.1, 1.0 / 3.0])
        return [v] * n
    if style == "last-bit":
        v = rng.uniform(-3, 3)
        out = []
        for _ in range(n):
            w = v
            for _ in range(rng.randint(0, 3)):
                w = _next(w, rng.random() < 0.5)
            out.append(w)
        return out
    if style == "edge":          # at the edge of the hypotheses: |u| = 2^100 exactly
        return [rng.choice([-1.0, 1.0]) * rng.choice([2.0 ** 100, _next(2.0 ** 100, False), _rand_double(rng, 60, 99)]) for _ in range(n)]
    if style == "mixed":         # every magnitude inside the hypotheses, zeros of both signs
        return [rng.choice([0.0, -0.0]) if rng.random() < 0.15 else _rand_double(rng, -1074, 99) for _ in range(n)]
    raise ValueError(style)


def _gen_wild_value(rng):
    c = rng.randrange(8)
    if c == 0:
        return math.nan
    if c == 1:
        return rng.choice([math.inf, -math.inf])
    if c == 2:
        return _rand_double(rng, 101, 1023)      # beyond the bound on velocities: products may overflow
    if c == 3:
        return rng.choice([0.0, -0.0])
    return _rand_double(rng, -1074, 1023)


def gen_one_step(rng, t):
    scheme = ["EF", "RK2", "RK4"][t % 3]
    n = NVEL[scheme]
    axis = "xy"[(t // 3) % 2]
    cat = ["ordinary", "origin", "fast", "tiny", "zero", "equal", "last-bit", "edge", "mixed", "big-x", "at-bound",
           "metric", "wild", "wild", "origin", "ordinary", "origin", "origin"][rng.randrange(18)]
    box = [0.0, float(rng.randint(8, 40)), 0.0, float(rng.randint(8, 40))]
    dt = rng.choice(_DTS)
    dx, dy = rng.sample(_DXS, 2)
    c, o = rng.uniform(1, 7), rng.uniform(1, 7)       # coordinate under test, other coordinate
    us = _gen_vels(rng, n, "ordinary")
    vs = _gen_vels(rng, n, "ordinary")                # velocities of the OTHER coordinate
    varying = False
    dtmode = "td64"
    if cat in ("fast", "tiny", "zero", "equal", "last-bit", "mixed"):
        us = _gen_vels(rng, n, cat)
        if cat == "zero" and rng.random() < 0.5:
            c = rng.choice([-0.0, 0.0])
            box = [-5.0, 20.0, -5.0, 20.0]
        if cat == "tiny":
            dt = rng.choice([dt, 2.0 ** -30, 1e-9])
            dtmode = "any"
    elif cat == "origin":
        # start at (or next to) zero, so that every bit of the displacement shows in the new position: this is what
        # tells (u * dt) / dx from u * (dt / dx), and a fused multiply-add from two roundings
        c = rng.choice([0.0, -0.0, 0.0, 2.0 ** -40, -2.0 ** -45, 5e-324, _rand_double(rng, -80, -20)])
        box = [-5.0, 20.0, -5.0, 20.0]
        us = _gen_vels(rng, n, rng.choice(["ordinary", "ordinary", "last-bit", "mixed"]))
        dt = rng.choice([dt, 12345.678, 0.1, 59.9, 1e-3 / 3])
        d = rng.choice([dx, 123.456, 799.9, 1e3 / 7])
        dx, dy = (d, dy) if axis == "x" else (dx, d)
        dtmode = "any"
        if rng.random() < 0.4:
            # ... or at a position of the SAME magnitude as the displacement (where a fused multiply-add would show)
            c = rng.uniform(0.3, 3.0) * rng.choice([-1.0, 1.0]) * abs(us[0] * dt / d)
            if not (math.isfinite(c) and abs(c) < 4.0):
                c = 2.0 ** -40
    elif cat == "edge":
        us = _gen_vels(rng, n, "edge")
        dt = rng.choice([-1.0, 1.0]) * rng.choice([2.0 ** 100, _rand_double(rng, 50, 99)])
        d = rng.choice([2.0 ** -100, _rand_double(rng, -99, -50), _rand_double(rng, 900, 1020)])
        dx, dy = (d, dy) if axis == "x" else (dx, d)
        c = rng.choice([c, _rand_double(rng, 900, 999), 2.0 ** 1000, -2.0 ** 1000])
        box = [-math.inf, math.inf, -math.inf, math.inf] if rng.random() < 0.5 else box
        dtmode = "any"
    elif cat == "big-x":
        c = rng.choice([2.0 ** 40, _next(2.0 ** 40, False), 2.0 ** 40 - rng.randint(1, 1000) / 1024.0, _next(2.0 ** 40, True),
                        2.0 ** 52 + 1, 2.0 ** 53])
        box = [0.0, 2.0 ** 54, 0.0, 2.0 ** 54]
        us = _gen_vels(rng, n, rng.choice(["ordinary", "fast", "tiny"]))
    elif cat == "at-bound":
        # start ON a clip bound (lo = xmin + 0.01, hi = xmax - 0.01 as the tracker forms them), or one ulp off
        lo, hi = box[0] + 0.01, box[1] - 0.01
        if axis == "y":
            lo, hi = box[2] + 0.01, box[3] - 0.01
        c = rng.choice([lo, hi, _next(lo), _next(lo, False), _next(hi), _next(hi, False)])
        us = [rng.choice([0.0, -0.0, 1e-300, -1e-300, 1e-17, -1e-17, rng.uniform(-3, 3)]) for _ in range(n)]
    elif cat == "metric":
        varying = True
        dx, dy = rng.choice([(800.0, 1000.0), (123.456, 77.7), (0.1, 0.3)])
        dt = rng.choice([dt, 0.1, 1e-3 / 3, 12345.678])
        dtmode = "any"
    elif cat == "wild":
        k = rng.randrange(6)
        dtmode = "any"
        if k == 0:
            us = [_gen_wild_value(rng) for _ in range(n)]
        elif k == 1:
            c = rng.choice([math.nan, math.inf, -math.inf, _rand_double(rng, 1001, 1023)])
        elif k == 2:
            d = rng.choice([0.0, -0.0, math.inf, math.nan, 5e-324, _rand_double(rng, -1074, -101)])
            dx, dy = (d, dy) if axis == "x" else (dx, d)
        elif k == 3:
            dt = rng.choice([math.inf, math.nan, 0.0, -0.0, _rand_double(rng, 101, 1023), 5e-324])
        elif k == 4:             # a box turned inside out: lo > hi
            box = [9.0, 1.0, 9.0, 1.0]
            us = _gen_vels(rng, n, rng.choice(["ordinary", "fast"]))
        else:
            us = [_gen_wild_value(rng) for _ in range(n)]
            c = _gen_wild_value(rng)
            dt = _gen_wild_value(rng)
            box = [rng.choice([-math.inf, math.nan, 0.0]), rng.choice([math.inf, math.nan, 10.0])] * 2
    x, y = (c, o) if axis == "x" else (o, c)
    ux, vy = (us, vs) if axis == "x" else (vs, us)
    nby = rng.randint(0, 2)                             # bystander particles, in front of the particle under test
    by = [[rng.uniform(1, 7), rng.uniform(1, 7)] + [rng.uniform(-2, 2) for _ in range(2 * n)] for _ in range(nby)]
    return {"k": "c01f", "scheme": scheme, "axis": axis, "cat": cat, "x": bits(x), "y": bits(y), "dt": bits(dt),
            "dtmode": dtmode, "dx": bits(dx), "dy": bits(dy), "box": [bits(b) for b in box],
            "us": [bits(u) for u in ux], "vs": [bits(v) for v in vy], "varying": varying, "by": by}


def gen_one_kernel(rng, t):
    if t % 2 == 0:
        c = rng.randrange(6)
        if c == 0:       # signed zeros and ties at the bounds
            vals = [rng.choice([0.0, -0.0]) for _ in range(6)]
            vals[1] = rng.choice([1.0, 0.5, 0.0, -1.0])
        elif c == 1:     # NaN / infinities anywhere
            vals = [rng.choice([math.nan, math.inf, -math.inf, 0.0, 1.0, -2.5]) for _ in range(6)]
        elif c == 2:     # lands exactly on a bound
            lo, hi = sorted([rng.uniform(-5, 5), rng.uniform(-5, 5)])
            vals = [rng.choice([lo, hi]), rng.choice([0.5, 1.0]), rng.choice([0.0, 1e-30, -1e-30]), rng.uniform(0, 2), lo, hi]
        elif c == 3:     # arbitrary frac (the kernel is more general than its three call sites)
            vals = [rng.uniform(-5, 5), rng.uniform(-2, 2), rng.uniform(-3, 3), rng.uniform(-2, 2), -4.0, 4.0]
        elif c == 4:     # underflow in frac * u and in the product with dtdx
            vals = [rng.choice([0.0, 1.0, 5e-324]), rng.choice([0.5, 1.0]), _rand_double(rng, -1074, -1000), _rand_double(rng, -60, 60), -1.0, 1.0]
        else:
            vals = [_rand_double(rng, -1074, 1023) for _ in range(6)]
        return {"k": "c01f-stage", "vals": [bits(v) for v in vals], "slot": "xy"[(t // 2) % 2]}
    c = rng.randrange(8)
    if c in (0, 6):
        v = _rand_double(rng, -1070, 1019)
        vals = [v] * 4
    elif c in (1, 7):
        v = rng.uniform(-3, 3)
        vals = [v] * 4
    elif c == 2:
        vals = [_gen_wild_value(rng) for _ in range(4)]
    elif c == 3:         # overflow of the partial sums although the average is representable
        v = rng.choice([-1.0, 1.0]) * rng.choice([1.7e308, 8e307, 4e307, 1e308])
        vals = [v, v, v, v]
    elif c == 4:
        vals = [_rand_double(rng, -1074, -1020) for _ in range(4)]
    else:
        vals = [rng.uniform(-3, 3) for _ in range(4)]
    return {"k": "c01f-avg", "vals": [bits(v) for v in vals]}


def gen_step_cases(rng, n):
    """n JSON-serialisable case descriptions (every 5th one a kernel-level case); `rng` is a random.Random"""
    out = []
    for t in range(n):
        out.append(gen_one_kernel(rng, t // 5) if t % 5 == 4 else gen_one_step(rng, t))
    return out


# ---------------------------------------------------------------------------------------------- evaluation
class _AnyDt:
    """a time step whose division by np.timedelta64(1, "s") (what Tracker.__init__ does) is a given float"""

    def __init__(self, seconds: float):
        self.seconds = seconds

    def __truediv__(self, other):
        assert other == np.timedelta64(1, "s")
        return np.float64(self.seconds)


def _td64(dt: float):
    """dt as a numpy timedelta64 when it is a whole number of nanoseconds, else None"""
    for unit, scale in (("s", 1), ("ms", 10 ** 3), ("us", 10 ** 6), ("ns", 10 ** 9)):
        k = dt * scale
        if math.isfinite(k) and k == int(k) and abs(k) < 2 ** 62:
            td = np.timedelta64(int(k), unit)
            if float(td / np.timedelta64(1, "s")) == dt:
                return td
    return None


def make_tracker(grid, forcing, dt: float, scheme: str, dtmode: str):
    """the real Tracker through its real constructor (cf. tracker_impl.make_tracker, which handles whole
    seconds / milliseconds only)"""
    from ladim.state import State
    from ladim.tracker import Tracker

    class _Time:
        pass

    tk = _Time()
    td = _td64(dt) if dtmode == "td64" else None
    tk.dt = td if td is not None else _AnyDt(dt)
    tk.step = 0
    tk.time_reversal = False
    st = State()
    mods = {"time": tk, "state": st, "grid": grid, "forcing": forcing}
    tr = Tracker(advection=scheme, modules=mods)
    return tr, st, (td is not None)


def eval_step(desc):
    scheme, axis = desc["scheme"], desc["axis"]
    n = NVEL[scheme]
    x, y, dt = unbits(desc["x"]), unbits(desc["y"]), unbits(desc["dt"])
    dx, dy = unbits(desc["dx"]), unbits(desc["dy"])
    box = [unbits(b) for b in desc["box"]]
    ux = [unbits(b) for b in desc["us"]]
    vy = [unbits(b) for b in desc["vs"]]
    by = desc["by"]
    grid = ti.StubGrid(box[0], box[1], box[2], box[3], dx, dy, varying=bool(desc["varying"]))
    ncall = [0]

    def func(X, Y, f):
        k = ncall[0]
        ncall[0] += 1
        kk = min(k, n - 1)
        return (np.array([b[2 + kk] for b in by] + [ux[kk]], dtype=float),
                np.array([b[2 + n + kk] for b in by] + [vy[kk]], dtype=float))

    forcing = ti.StubForcing(func=func)
    tr, st, used_td = make_tracker(grid, forcing, dt, scheme, desc["dtmode"])
    st.append(X=np.array([b[0] for b in by] + [x]), Y=np.array([b[1] for b in by] + [y]), Z=5.0)
    with np.errstate(all="ignore"):
        fac = float(grid.factor(np.array([x]))[0]) if desc["varying"] else 1.0
        tr.update()
    dxe, dye = dx * fac, dy * fac                      # the metric of the particle's own cell
    ox, oy = float(st.X[-1]), float(st.Y[-1])
    calls = [(float(c[0][-1]), float(c[1][-1]), c[2]) for c in forcing.calls]
    if axis == "x":
        c0, d, lo, hi, us, fin = x, dxe, float(tr.xmin), float(tr.xmax), ux, ox
        pos = [c[0] for c in calls]
        lo_expect, hi_expect = box[0] + 0.01, box[1] - 0.01
    else:
        c0, d, lo, hi, us, fin = y, dye, float(tr.ymin), float(tr.ymax), vy, oy
        pos = [c[1] for c in calls]
        lo_expect, hi_expect = box[2] + 0.01, box[3] - 0.01
    dtr = float(tr.dt)
    ok_range = in_range(c0, dtr, d, lo, hi, us)
    code = SCHEMES[scheme] + (0 if ok_range else 8)
    ints = [code, bits(c0), bits(dtr), bits(d), bits(lo), bits(hi)] + [bits(u) for u in us] + [bits(p) for p in pos[1:]] + [bits(fin)]

    # ---- the independent oracle
    problems = []
    if not same(dtr, dt):
        problems.append(f"tracker.dt = {dtr!r}, expected {dt!r}")
    if not (same(lo, lo_expect) and same(hi, hi_expect)):
        problems.append(f"clip bounds ({lo!r}, {hi!r}) are not grid bounds +- 0.01 = ({lo_expect!r}, {hi_expect!r})")
    if len(calls) != n:
        problems.append(f"the forcing was asked {len(calls)} times, the scheme has {n} stages")
    elif [c[2] for c in calls] != FRACS[scheme]:
        problems.append(f"fractional steps {[c[2] for c in calls]}, expected {FRACS[scheme]}")
    elif not same(pos[0], c0):
        problems.append(f"first stage asked at {pos[0]!r}, the particle is at {c0!r}")
    rel = None
    if ok_range and not problems:
        X, DT, DX = Fraction(c0), Fraction(dtr), Fraction(d)
        fu = [Fraction(u) for u in us]
        rels = []
        for k, f in enumerate(STEPFRAC.get(scheme, [])):
            exact = X + Fraction(f) * fu[k] * DT / DX
            clipped = max(min(exact, Fraction(hi)), Fraction(lo))
            b = stage_bound(X, Fraction(f), fu[k], DT, DX)
            err = abs(Fraction(pos[k + 1]) - clipped)
            rels.append(float(err / b))
            if err > b:
                problems.append(f"stage {k + 2} asked at {pos[k + 1]!r}: off the clipped exact stage position by {float(err):.3e} > bound {float(b):.3e}")
            if lo <= hi and not (lo <= pos[k + 1] <= hi):
                problems.append(f"stage {k + 2} asked at {pos[k + 1]!r} outside [{lo!r}, {hi!r}]")
        if scheme == "RK4":
            ubar = (fu[0] + 2 * fu[1] + 2 * fu[2] + fu[3]) / 6
            b = rk4_bound(X, max(abs(u) for u in fu), DT, DX)
        else:
            ubar = fu[-1]
            b = move_bound(X, ubar, DT, DX)
        err = abs(Fraction(fin) - (X + ubar * DT / DX))
        rels.append(float(err / b))
        if err > b:
            problems.append(f"final position {fin!r}: off the exact {scheme} step by {float(err):.3e} > bound {float(b):.3e}")
        # zero advective velocity leaves the coordinate unchanged bit for bit (x = -0.0 excepted: value unchanged)
        if ubar == 0 and (scheme != "RK4" or all(u == 0 for u in fu)):
            if bits(c0) != NEGZERO and bits(fin) != bits(c0):
                problems.append(f"zero velocity moved {c0!r} to {fin!r}")
            if bits(c0) == NEGZERO and fin != 0.0:
                problems.append(f"zero velocity moved -0.0 to {fin!r}")
        rel = max(rels)
    moved = any(u != 0 for u in us)
    return {"ints": ints, "oracle": problems[0] if problems else None,
            "nontrivial": (scheme, axis, desc["cat"], desc["x"] % 9973, desc["us"][0] % 9973) if moved else None,
            "kind": f"c01f-{scheme}-{desc['cat']}" + ("" if ok_range else "-outside"),
            "observed": {"final": fin, "final_hex": float(fin).hex(), "stage_positions": pos, "fractional_steps": [c[2] for c in calls],
                         "dt_from_timedelta64": used_td, "in_range": ok_range, "err_over_bound": rel}}


def eval_stage_kernel(desc):
    from ladim.tracker import RKstep1, clip

    x, frac, u, g, lo, hi = (unbits(b) for b in desc["vals"])
    pad = np.array([1.0, 2.0])
    Xa, Ua, Ga = np.append(pad, x), np.append(pad, u), np.append(pad, g)
    other, zero, one = np.array([3.0, 3.0, 3.0]), np.zeros(3), np.ones(3)
    if desc["slot"] == "x":
        Xp, Yp = RKstep1(Xa, other, Ua, zero, frac, Ga, one)
        clip(Xp, Yp, lo, hi, 0.0, 10.0)
        r = float(Xp[-1])
    else:
        Xp, Yp = RKstep1(other, Xa, zero, Ua, frac, one, Ga)
        clip(Xp, Yp, 0.0, 10.0, lo, hi)
        r = float(Yp[-1])
    ints = [3] + list(desc["vals"]) + [bits(r)]
    problems = []
    fin = all(math.isfinite(v) for v in (x, frac, u, g, lo, hi))
    if fin and lo <= hi and not (lo <= r <= hi):
        problems.append(f"clip returned {r!r} outside [{lo!r}, {hi!r}]")
    if fin and not any(bits(r) == b for b in (bits(lo), bits(hi))):
        with np.errstate(all="ignore"):
            raw = float(np.float64(x) + np.float64(frac) * np.float64(u) * np.float64(g))
        if math.isfinite(raw) and bits(r) != bits(raw):
            problems.append(f"clip returned {r!r}, neither a bound nor the unclipped value {raw!r}")
    if math.isnan(x) and not math.isnan(r):
        problems.append(f"a NaN position was clipped to {r!r}")
    return {"ints": ints, "oracle": problems[0] if problems else None, "nontrivial": ("stage",) + tuple(v % 9973 for v in desc["vals"][:3]),
            "kind": "c01f-kernel-stage", "observed": {"result": r, "result_hex": float(r).hex(), "err_over_bound": None}}


def eval_avg_kernel(desc):
    from ladim.tracker import RK4avg

    us = [unbits(b) for b in desc["vals"]]
    pad = np.array([1.0, 2.0])
    with np.errstate(all="ignore"):
        r = float(RK4avg(*[np.append(pad, u) for u in us])[-1])
    ints = [4] + list(desc["vals"]) + [bits(r)]
    problems = []
    rel = None
    ulps = None
    if all(math.isfinite(u) and abs(u) <= 2.0 ** 100 for u in us):
        fu = [Fraction(u) for u in us]
        ubar = (fu[0] + 2 * fu[1] + 2 * fu[2] + fu[3]) / 6
        b = C4 * max(abs(u) for u in fu) + ETA
        err = abs(Fraction(r) - ubar)
        rel = float(err / b)
        if err > b:
            problems.append(f"RK4avg = {r!r}: off the exact average by {float(err):.3e} > bound {float(b):.3e}")
    if len(set(desc["vals"])) == 1 and math.isfinite(us[0]) and math.isfinite(r) and us[0] != 0:
        ulps = float(abs(Fraction(r) - Fraction(us[0])) / Fraction(math.ulp(us[0])))
        # proved for 2^-1022 <= |u| <= 2^100 (rk4avg_f_equal_ulp); observed to hold as long as 6 u does not overflow
        if 2.0 ** -1022 <= abs(us[0]) <= 2.0 ** 1020 and ulps > 1:
            problems.append(f"RK4avg of four equal velocities {us[0]!r} is {r!r}: {ulps} ulp away")
    return {"ints": ints, "oracle": problems[0] if problems else None, "nontrivial": ("avg",) + tuple(v % 9973 for v in desc["vals"][:3]),
            "kind": "c01f-kernel-avg", "observed": {"result": r, "result_hex": float(r).hex(), "err_over_bound": rel, "equal_ulps": ulps}}


def eval_step_case(desc):
    if desc["k"] == "c01f":
        return eval_step(desc)
    if desc["k"] == "c01f-stage":
        return eval_stage_kernel(desc)
    return eval_avg_kernel(desc)


# ---------------------------------------------------------------------------------------------- Coq bridge
def to_words(case):
    out = []
    for z in case:
        out += [z >> 32, z & 0xFFFFFFFF]
    return out


def write_cases_v(path, cases, mode="z"):
    with open(path, "w") as f:
        f.write("From Coq Require Import ZArith List Uint63.\nRequire Import Ladim.Corr.C01F.\nImport ListNotations.\n")
        if mode == "z":
            f.write("Open Scope Z_scope.\nDefinition cases : list (list Z) := [\n")
            f.write(";\n".join("  [" + "; ".join(hex(z) for z in c) + "]" for c in cases))
            f.write("\n].\nEval vm_compute in (failing cases).\n")
        else:
            f.write("Open Scope uint63_scope.\nDefinition cases : list (list int) := [\n")
            f.write(";\n".join("  [" + "; ".join(str(z) for z in to_words(c)) + "]" for c in cases))
            f.write("\n].\nEval vm_compute in (failing_w cases).\n")


def run_coq(cases, timeout=900, keep=None, mode="z"):
    """returns (list of failing indices or None on error, seconds, raw output)"""
    d = tempfile.mkdtemp(prefix="c01f_")
    try:
        vf = os.path.join(d, "Scratch_c01f_cases.v")
        write_cases_v(vf, cases, mode)
        t0 = time.time()
        pr = subprocess.run(["coqc", "-Q", os.path.abspath(COQ_ROOT), "Ladim", vf], cwd=d, capture_output=True, text=True, timeout=timeout)
        dt = time.time() - t0
        out = pr.stdout + pr.stderr
        if keep:
            shutil.copy(vf, keep)
        if pr.returncode != 0:
            return None, dt, out
        flat = " ".join(out.split())
        a = flat.index("= [") + 2
        lst = flat[a + 1: flat.index("]", a)]
        failing = [int(t.replace("%Z", "")) for t in lst.replace(";", " ").split()] if lst.strip() else []
        return failing, dt, out
    finally:
        shutil.rmtree(d, ignore_errors=True)


def tamper(case, k):
    """a wrong observation: the final position (or, every other time, a stage position if there is one) off by one
    unit in the last place; a zero gets the other sign; a NaN becomes 0.0"""
    c = list(case)
    idx = len(c) - 1
    nstage = {1: 1, 2: 3, 9: 1, 10: 3}.get(c[0], 0)
    if nstage and k % 2 == 0:
        idx = len(c) - 1 - nstage + (k // 2) % nstage
    v = c[idx]
    if math.isnan(unbits(v)):
        c[idx] = 0
    elif (v & (NEGZERO - 1)) == 0:
        c[idx] = v ^ NEGZERO
    else:
        c[idx] = v ^ 1
        if math.isnan(unbits(c[idx])):       # inf ^ 1 is a NaN pattern: fine, but a NaN model value would hide it
            c[idx] = v - 1
    return c


def selftest(n=300, seed=1, verbose=True, mode="z"):
    rng = random.Random(seed)
    t0 = time.time()
    descs = gen_step_cases(rng, n)
    res = [eval_step_case(d) for d in descs]
    t_py = time.time() - t0
    cases = [r["ints"] for r in res]
    oracle_bad = [(k, r["oracle"]) for k, r in enumerate(res) if r["oracle"]]
    nontriv = len({r["nontrivial"] for r in res if r["nontrivial"] is not None})
    worst = max((r["observed"].get("err_over_bound") or 0.0) for r in res)
    ulps = [r["observed"].get("equal_ulps") for r in res if r["observed"].get("equal_ulps") is not None]
    n_in = sum(1 for c in cases if c[0] in (0, 1, 2))
    n_out = sum(1 for c in cases if c[0] in (8, 9, 10))
    n_td = sum(1 for r in res if r["observed"].get("dt_from_timedelta64"))
    failing, t_coq, out = run_coq(cases, mode=mode)
    tampered, expect = [], []
    for k, c in enumerate(cases):
        if k % 7 == 3:
            c = tamper(c, k // 7)
            expect.append(k)
        tampered.append(list(c))
    failing_t, t_coq2, out2 = run_coq(tampered, mode=mode)
    ok = (failing == [] and not oracle_bad and failing_t == expect)
    if verbose:
        kinds = {}
        for r in res:
            kinds[r["kind"]] = kinds.get(r["kind"], 0) + 1
        print(f"seed {seed}: {n} cases ({nontriv} distinct non-trivial): {n_in} steps inside the hypotheses, {n_out} outside (bits only), "
              f"{n - n_in - n_out} kernel-level; dt through numpy timedelta64 in {n_td}")
        print(f"  kinds {dict(sorted(kinds.items()))}")
        print(f"  real code + oracle in Python: {t_py:.2f} s; oracle failures: {len(oracle_bad)}; largest observed error / proved bound: {worst:.3f}"
              + (f"; RK4avg of equal velocities: up to {max(ulps):.0f} ulp off ({sum(1 for u in ulps if u > 0)}/{len(ulps)} inexact)" if ulps else ""))
        for k, m in oracle_bad[:5]:
            print(f"    oracle case {k}: {m}\n      {descs[k]}")
        if failing is None:
            print("  coqc FAILED:\n" + out[-2000:])
        else:
            print(f"  Coq (Corr.C01F.{'check_case' if mode == 'z' else 'check_case_w'}, vm_compute): {n - len(failing)}/{n} cases agree BIT FOR BIT "
                  f"(stage positions and final position) and satisfy the side conditions in {t_coq:.2f} s incl. coqc start-up; failing indices: {failing[:20]}")
            for k in failing[:5]:
                print(f"    failing case {k}: {descs[k]}\n      ints {res[k]['ints']}\n      observed {res[k]['observed']}")
        if failing_t is None:
            print("  negative control: coqc FAILED:\n" + out2[-2000:])
        else:
            print(f"  negative control (a stage or final position off by one ulp / sign of zero in {len(expect)} cases): rejected exactly those: {failing_t == expect}")
            if failing_t != expect:
                print(f"    expected {expect}\n    got      {failing_t}")
        print("  RESULT:", "OK" if ok else "PROBLEM")
    return ok


if __name__ == "__main__":
    words = "--words" in sys.argv
    args = [int(a) for a in sys.argv[1:] if a != "--words"]
    n = args[0] if args else 300
    seeds = args[1:] or [1, 2, 3]
    good = all([selftest(n, s, mode="words" if words else "z") for s in seeds])
    print("ALL OK" if good else "SOME PROBLEM")
    sys.exit(0 if good else 1)
