"""Helpers to drive the real ladim.tracker.Tracker: stub forcing / stub grid, real ROMS grid builder."""
from __future__ import annotations

import numpy as np

import romsfiles as rf


class StubForcing:
    """forcing whose velocity is prescribed per particle (arrays) or by a function of (X, Y, f)"""

    def __init__(self, U=None, V=None, func=None, w=None):
        self.U, self.V, self.func = U, V, func
        self.variables = {}
        if w is not None:
            self.variables["w"] = w
        self.calls = []

    def update(self):
        pass

    def velocity(self, X, Y, Z, fractional_step=0, method="bilinear"):
        self.calls.append((np.array(X, copy=True), np.array(Y, copy=True), float(fractional_step)))
        if self.func is not None:
            return self.func(np.asarray(X), np.asarray(Y), float(fractional_step))
        return np.array(self.U, dtype=float), np.array(self.V, dtype=float)

    def close(self):
        pass


class PassThroughForcing:
    """a user's thin wrapper around another forcing module (adds nothing): every call is handed on with whatever
    positional and keyword arguments it came with"""

    def __init__(self, inner):
        self.inner = inner
        self.variables = inner.variables

    @property
    def calls(self):
        return self.inner.calls

    def update(self, *args, **kwargs):
        return self.inner.update(*args, **kwargs)

    def velocity(self, *args, **kwargs):
        return self.inner.velocity(*args, **kwargs)

    def close(self, *args, **kwargs):
        return self.inner.close(*args, **kwargs)


class StubGrid:
    """land-free rectangular grid with a prescribed (possibly anisotropic) metric"""

    def __init__(self, xmin, xmax, ymin, ymax, dx, dy, h=100.0, varying=False):
        self.xmin, self.xmax, self.ymin, self.ymax = float(xmin), float(xmax), float(ymin), float(ymax)
        self.dx, self.dy, self.h, self.varying = dx, dy, h, varying

    def factor(self, X):
        """metric factor of the cell (1 or 2) when the metric varies from cell to cell"""
        return (1 + (np.floor(np.asarray(X, dtype=float)).astype(int) % 2)) if self.varying else np.ones(len(X), dtype=int)

    def metric(self, X, Y):
        f = self.factor(X)
        return self.dx * f.astype(float), self.dy * f.astype(float)

    def depth(self, X, Y):
        return np.full(len(X), self.h, dtype=float)

    def ingrid(self, X, Y):
        return np.full(len(X), True)

    def atsea(self, X, Y):
        return np.full(len(X), True)


def make_tracker(grid, forcing, dt, advection="EF", diffusion=0.0, vertdiff=0.0, vertical_advection=False, nstate=None):
    from ladim.state import State
    from ladim.timekeeper import TimeKeeper
    from ladim.tracker import Tracker

    if float(dt) == int(dt):
        tk = TimeKeeper(start=rf.iso(0), stop=rf.iso(100 * int(dt)), dt=int(dt))
    else:
        # a time module made by hand (the tracker reads only its dt): time step with a fraction of a second
        class _Time:
            pass
        tk = _Time()
        tk.dt = np.timedelta64(int(round(float(dt) * 1000)), "ms")
        tk.dtsec = float(dt)
        tk.step = 0
        tk.time_reversal = False
    st = State() if nstate is None else nstate
    mods = {"time": tk, "state": st, "grid": grid, "forcing": forcing}
    tr = Tracker(advection=advection, diffusion=diffusion, vertdiff=vertdiff, vertical_advection=vertical_advection, modules=mods)
    return tr, st, mods


def random_mask(rng, jmax, imax):
    """sea with islands, one-cell channels and land on the boundary"""
    M = np.ones((jmax, imax), dtype=int)
    for _ in range(rng.randint(0, 4)):  # islands
        j, i = rng.randrange(1, jmax - 1), rng.randrange(1, imax - 1)
        hh, ww = rng.randint(1, 3), rng.randint(1, 3)
        M[j:j + hh, i:i + ww] = 0
    if rng.random() < 0.4:  # wall with a one-cell channel
        i = rng.randrange(2, imax - 2)
        M[:, i] = 0
        M[rng.randrange(1, jmax - 1), i] = 1
    if rng.random() < 0.3:  # land along one boundary
        side = rng.choice("NSEW")
        if side == "N":
            M[-2:, :] = 0
        elif side == "S":
            M[:2, :] = 0
        elif side == "E":
            M[:, -2:] = 0
        else:
            M[:, :2] = 0
    return M


def random_subgrid(rng, jmax, imax):
    if rng.random() < 0.35:
        return None
    i0 = rng.randint(1, max(1, imax - 6))
    i1 = rng.randint(i0 + 4, imax - 1)
    j0 = rng.randint(1, max(1, jmax - 6))
    j1 = rng.randint(j0 + 4, jmax - 1)
    return (i0, i1, j0, j1)


def real_grid(d, name, imax, jmax, mask, h=None, dx=1024.0, subgrid=None):
    from ladim.ROMS import Grid

    p = rf.write_roms(d / name, imax=imax, jmax=jmax, N=2, times=[0], mask=mask, h=100.0 if h is None else h, dx=dx, grid_only=True)
    return Grid(filename=p, subgrid=subgrid)
