"""C02 at realistic scale (oracle only: the inputs are far too large for a Coq literal).

A fixed family of cases, always present and always the same (nothing is drawn from the run's random stream):
  kernel   the public `sample3D` (bilinear and nearest) and `sample3DUV` with 1000 ... 130000 particles in random
           (not cell-sorted) order, also cell-sorted, reverse cell-sorted, all at one point, and on a large field;
  file     a real Grid + Forcing + State + TimeKeeper (+ Tracker, one Euler-forward step) on generated files with
           1000 ... 130000 particles: `forcing.velocity`, `forcing.variables` (u, v and a scalar) after `update()`,
           two sub-rectangles; variable bathymetry, islands, a one-cell channel, f8 / f4 / int16-packed storage;
           further dimensions of scale: a large grid with many levels and window offsets in the hundreds, and many
           forcing files (the observed frame sits in the fifteenth file);
  run      a complete run through ladim.main.main with a continuous release (the number of particles grows step by
           step through several thousands), sparse output at every step: from record to record every particle
           must be displaced by the current interpolated at ITS OWN position and depth.
The oracle is the property text for EVERY particle of the case, vectorised: bilinear between the four surrounding
u- (v-) points in GLOBAL grid coordinates, linear in depth between the two levels that bracket the particle in its
own water column, zero through land faces, scalar = value of the own cell; the result lies between the eight node
values; sub-rectangles agree.  Floats are compared exactly only where all arithmetic is exact by construction (dyadic
stream of the kernel cases), otherwise with the module's tolerances (1e-9 float64, 1e-6 packed storage).
"""
from __future__ import annotations

import numpy as np

import romsfiles as rf

SIZES = [1000, 1024, 1025, 4096, 4097, 5000, 10000, 20000, 40000, 70000, 130000]
TOL = {0: 0.0, 1: 1e-9, 2: 1e-6}
DX = 10000.0  # file cases: at most 0.3 cells per step of 600 s (nobody jumps over the rim of the loaded window)


# ------------------------------------------------------------------------------------------------ the family
def gen_scale_cases():
    out = []
    for q, n in enumerate(SIZES):
        out.append({"k": "scale", "sub": "kernel", "n": n, "seed": 7100 + q, "exact": q % 2 == 0, "order": "random",
                    "shape": [5, 23, 31]})
    out.append({"k": "scale", "sub": "kernel", "n": 6000, "seed": 7150, "exact": True, "order": "cellsorted", "shape": [5, 23, 31]})
    out.append({"k": "scale", "sub": "kernel", "n": 6000, "seed": 7151, "exact": False, "order": "cellreversed", "shape": [5, 23, 31]})
    out.append({"k": "scale", "sub": "kernel", "n": 9000, "seed": 7152, "exact": True, "order": "twopoints", "shape": [5, 23, 31]})
    out.append({"k": "scale", "sub": "kernel", "n": 33000, "seed": 7153, "exact": False, "order": "random", "shape": [30, 210, 170]})
    storages = ["f8", "i2", "f4"]
    for q, n in enumerate(SIZES):
        out.append({"k": "scale", "sub": "file", "n": n, "seed": 7200 + q, "exact": q % 3 == 0, "storage": storages[q % 3],
                    "imax0": 37 + q, "jmax0": 29 + (q * 3) % 7, "N": 4 if q % 3 == 0 else 5 + q % 4, "nfiles": 1, "obs": q % 2,
                    "field": "linear" if q % 4 == 3 else "random", "mask": "sea" if q % 4 == 3 else "random"})
    # other dimensions of scale: grid size / number of levels / window offset, number of forcing files
    out.append({"k": "scale", "sub": "file", "n": 12000, "seed": 7251, "exact": False, "storage": "f4", "imax0": 236, "jmax0": 187,
                "N": 21, "nfiles": 1, "obs": 1, "field": "random", "mask": "random", "subgrids": [[143, 235, 101, 185], [120, 230, 110, -3]]})
    out.append({"k": "scale", "sub": "file", "n": 7000, "seed": 7252, "exact": False, "storage": "i2", "imax0": 30, "jmax0": 26,
                "N": 6, "nfiles": 16, "obs": 29, "field": "random", "mask": "random"})
    out.append({"k": "scale", "sub": "run", "per_release": 2300, "releases": 5, "steps": 7, "seed": 7301})
    out.append({"k": "scale", "sub": "run", "per_release": 17000, "releases": 2, "steps": 3, "seed": 7302})
    return out


def label(desc):
    if desc["sub"] == "kernel":
        return (f"scale case kernel n={desc['n']} order={desc['order']} field={'x'.join(str(s) for s in desc['shape'])} "
                f"{'dyadic' if desc['exact'] else 'general'} seed={desc['seed']}")
    if desc["sub"] == "file":
        return (f"scale case file n={desc['n']} grid={desc['imax0']}x{desc['jmax0']}x{desc['N']} storage={desc['storage']} "
                f"files={desc['nfiles']} frame={desc['obs']} seed={desc['seed']}")
    return f"scale case run release={desc['releases']}x{desc['per_release']} steps={desc['steps']} seed={desc['seed']}"


def isclose(flag, a, b):
    a, b = np.asarray(a, dtype=float), np.asarray(b, dtype=float)
    if flag == 0:
        return a == b
    return np.abs(a - b) <= TOL[flag] * (1 + np.abs(a) + np.abs(b))


def first_bad(ok):
    bad = np.flatnonzero(~np.asarray(ok))
    return (int(bad[0]), len(bad)) if len(bad) else None


# ------------------------------------------------------------------------------------------------ references
def bilinear_nodes(F, k, x, y):
    """bilinear interpolation of level k of F at array coordinates (x, y) + the four node values"""
    i, j = np.floor(x).astype(np.int64), np.floor(y).astype(np.int64)
    p, q = x - i, y - j
    n = [F[k, j, i].astype(float), F[k, j, i + 1].astype(float), F[k, j + 1, i].astype(float), F[k, j + 1, i + 1].astype(float)]
    return (1 - p) * (1 - q) * n[0] + p * (1 - q) * n[1] + (1 - p) * q * n[2] + p * q * n[3], n


def trilinear_ref(F, x, y, K, A):
    v0, n0 = bilinear_nodes(F, K - 1, x, y)
    v1, n1 = bilinear_nodes(F, K, x, y)
    nodes = np.stack(n0 + n1)
    return A * v0 + (1 - A) * v1, nodes.min(axis=0), nodes.max(axis=0)


def spec_velocity(mask, UF, VF, X, Y, K, A):
    """The property text in global coordinates: u-point I of the file at (I + 1/2, J), v-point J at (I, J + 1/2),
    zero through land faces, linear in depth between levels K - 1 and K."""
    Um = UF * (mask[:, :-1] * mask[:, 1:])[None, :, :]
    Vm = VF * (mask[:-1, :] * mask[1:, :])[None, :, :]
    u, ulo, uhi = trilinear_ref(Um, X - 0.5, Y, K, A)
    v, vlo, vhi = trilinear_ref(Vm, X, Y - 0.5, K, A)
    return u, v, (ulo, uhi), (vlo, vhi)


def own_level(zcol, Z):
    """zcol: (N, P) the particles' own water columns (ascending, negative): the bracket (K, A) of depth Z"""
    N = zcol.shape[0]
    below = np.sum(zcol < -Z[None, :], axis=0)           # levels strictly below the particle
    k = np.clip(below, 1, N - 1)
    idx = np.arange(zcol.shape[1])
    zk, zk1 = zcol[k, idx], zcol[k - 1, idx]
    A = (zk + Z) / (zk - zk1)
    A = np.where(below == 0, 1.0, np.where(below == N, 0.0, A))
    return k.astype(np.int64), A


def dyadic(rng, lo, hi, n, den=256):
    a, b = int(np.ceil(lo * den)), int(np.floor(hi * den))
    return rng.integers(a, b + 1, size=n) / float(den)


def horizontal(rng, lo, hi, n, exact):
    """n coordinates in [lo, hi]: dyadic k/256 (incl. integers and half-integers) and, in the general stream, any
    float; the end points occur too"""
    x = dyadic(rng, lo, hi, n)
    if not exact:
        g = rng.random(n) < 0.6
        x = np.where(g, rng.uniform(lo, hi, n), x)
    c = rng.random(n)
    x = np.where(c < 0.01, lo, np.where(c > 0.99, hi, x))
    c = rng.random(n)
    whole = np.clip(np.round(x), np.ceil(lo), np.floor(hi))
    return np.where(c < 0.03, whole, x)


# ------------------------------------------------------------------------------------------------ kernel cases
def eval_kernel(desc):
    from ladim.ROMS import sample3D, sample3DUV

    rng = np.random.default_rng(desc["seed"])
    n, exact = desc["n"], desc["exact"]
    N, jmax, imax = desc["shape"]
    den = 64.0
    F = rng.integers(-300, 301, size=(N, jmax, imax)) / den
    U = rng.integers(-300, 301, size=(N, jmax, imax + 1)) / den
    V = rng.integers(-300, 301, size=(N, jmax + 1, imax)) / den
    # sample3DUV clips nothing itself: stay inside [0.01, imax - 1.01] as the tracker does
    X = horizontal(rng, 3 / 256, imax - 1 - 3 / 256, n, exact)
    Y = horizontal(rng, 3 / 256, jmax - 1 - 3 / 256, n, exact)
    K = rng.integers(1, N, size=n).astype(np.int64)
    A = rng.integers(0, 65, size=n) / 64.0
    if not exact:
        A = np.where(rng.random(n) < 0.5, rng.random(n), A)
    order = desc["order"]
    if order in ("cellsorted", "cellreversed"):
        cell = (K * (jmax + 1) + np.floor(Y).astype(np.int64)) * (imax + 1) + np.floor(X).astype(np.int64)
        o = np.argsort(cell, kind="stable")
        if order == "cellreversed":
            o = o[::-1]
        X, Y, K, A = X[o].copy(), Y[o].copy(), K[o].copy(), A[o].copy()
    elif order == "twopoints":  # two clouds of coinciding particles, interleaved
        X[0::2], Y[0::2], K[0::2], A[0::2] = X[0], Y[0], K[0], A[0]
        X[1::2], Y[1::2], K[1::2], A[1::2] = X[1], Y[1], K[1], A[1]
        X[n // 3], Y[n // 3] = X[-1] / 2 + 1, Y[-1] / 2 + 1  # and one elsewhere
    flag = 0 if exact else 1
    problems = []
    lab = label(desc)

    def report(what, got, want, lo=None, hi=None):
        got = np.asarray(got, dtype=float)
        if got.shape != want.shape:
            problems.append(f"{lab}: {what} returns shape {got.shape} for {n} particles")
            return
        bad = first_bad(isclose(flag, got, want))
        if bad:
            m, cnt = bad
            problems.append(f"{lab}: {what} at particle #{m} x={X[m]} y={Y[m]} k={int(K[m])} a={A[m]} gives {got[m]}, "
                            f"interpolation of the array at that particle's own position gives {want[m]} ({cnt} of {n} particles differ)")
        if lo is not None:
            slack = 1e-9
            bad = first_bad((got >= lo - slack) & (got <= hi + slack))
            if bad:
                m, cnt = bad
                problems.append(f"{lab}: {what} at particle #{m} x={X[m]} y={Y[m]} k={int(K[m])} a={A[m]} gives {got[m]} outside the range "
                                f"{lo[m]}..{hi[m]} of the eight surrounding nodes ({cnt} of {n} particles)")

    args = (X.copy(), Y.copy(), K.copy(), A.copy())
    R = sample3D(F, *args, method="bilinear")
    want, lo, hi = trilinear_ref(F, X, Y, K, A)
    report("sample3D(bilinear)", R, want, lo, hi)
    Rn = sample3D(F, *args, method="nearest")
    report("sample3D(nearest)", Rn, F[K, np.round(Y).astype(np.int64), np.round(X).astype(np.int64)])
    RU, RV = sample3DUV(U, V, *args, method="bilinear")
    wu, ulo, uhi = trilinear_ref(U, X + 0.5, Y, K, A)
    wv, vlo, vhi = trilinear_ref(V, X, Y + 0.5, K, A)
    report("sample3DUV u", RU, wu, ulo, uhi)
    report("sample3DUV v", RV, wv, vlo, vhi)
    if not (np.array_equal(args[0], X) and np.array_equal(args[1], Y) and np.array_equal(args[2], K) and np.array_equal(args[3], A)):
        problems.append(f"{lab}: the sampling routines changed their position/level arguments in place")
    return {"ints": None, "oracle": problems[0] if problems else None, "nontrivial": ("scale-kernel", n, order, desc["seed"]),
            "kind": "scale-kernel", "observed": {"n": n, "u": [float(x) for x in np.asarray(RU)[:3]], "problems": len(problems)}}


# ------------------------------------------------------------------------------------------------ file cases
def make_mask(rng, jmax0, imax0, kind):
    M = np.ones((jmax0, imax0))
    if kind == "sea":
        return M
    for _ in range(3 + (jmax0 * imax0) // 400):  # islands
        j, i = int(rng.integers(0, jmax0)), int(rng.integers(0, imax0))
        M[j:j + int(rng.integers(1, 4)), i:i + int(rng.integers(1, 4))] = 0
    i = int(rng.integers(imax0 // 3, 2 * imax0 // 3))  # a wall with a one-cell channel
    M[:, i] = 0
    M[int(rng.integers(jmax0 // 3, 2 * jmax0 // 3)), i] = 1
    return M


def norm_sub(spec, imax0, jmax0):
    if spec is None:
        return (1, imax0 - 1, 1, jmax0 - 1)
    a, b, c, d = spec
    return (a + imax0 if a < 0 else a, b + imax0 if b < 0 else b, c + jmax0 if c < 0 else c, d + jmax0 if d < 0 else d)


def build(desc):
    rng = np.random.default_rng(desc["seed"])
    imax0, jmax0, N, exact = desc["imax0"], desc["jmax0"], desc["N"], desc["exact"]
    T = 2 * desc["nfiles"]
    mask = make_mask(rng, jmax0, imax0, desc["mask"])
    if exact:
        h = rng.choice([32.0, 64.0, 128.0, 256.0], size=(jmax0, imax0))
    else:
        h = rng.uniform(20.0, 300.0, size=(jmax0, imax0))
    lin = None
    if desc["field"] == "linear":
        a_u, a_v = rng.integers(-60, 61, size=(T, N)), rng.integers(-60, 61, size=(T, N))
        bu, gu, bv, gv = (int(x) for x in rng.integers(-3, 4, size=4))
        kk, jj, ii = np.meshgrid(np.arange(N), np.arange(jmax0), np.arange(imax0 - 1), indexing="ij")
        SU = np.stack([2 * a_u[t][kk] + bu * (2 * ii + 1) + 2 * gu * jj for t in range(T)])   # 2 (a + b (I + 1/2) + g J)
        kk, jj, ii = np.meshgrid(np.arange(N), np.arange(jmax0 - 1), np.arange(imax0), indexing="ij")
        SV = np.stack([2 * a_v[t][kk] + 2 * bv * ii + gv * (2 * jj + 1) for t in range(T)])
        lin = {"au": a_u, "av": a_v, "bu": bu, "gu": gu, "bv": bv, "gv": gv}
    else:
        SU = rng.integers(-300, 301, size=(T, N, jmax0, imax0 - 1))
        SV = rng.integers(-300, 301, size=(T, N, jmax0 - 1, imax0))
    ST = rng.integers(-300, 301, size=(T, N, jmax0, imax0))
    if desc["storage"] == "i2":
        if exact:
            sf = [2.0 ** -int(x) for x in rng.choice([4, 5, 6, 7, 8], size=3, replace=False)]
            off = float(rng.integers(-8, 9)) / 4
        else:
            sf = [float(x) for x in rng.choice([1e-3, 2.5e-3, 1e-4, 3e-4, 0.01, 0.0123], size=3, replace=False)]
            off = float(rng.choice([0.0, 1.5, -3.25, 10.0]))
        pack = {"u": sf[0], "v": sf[1], "temp": sf[2], "off": off}
    else:
        pack = None
    return {"rng": rng, "mask": mask, "h": h, "SU": SU, "SV": SV, "ST": ST, "lin": lin, "pack": pack}


def vertical_setup(desc):
    if desc["exact"] or desc["seed"] % 2 == 0:
        return {}
    N = desc["N"]
    sr, sw = (np.arange(N) + 0.5) / N - 1.0, np.arange(N + 1) / N - 1.0
    return {"Vtransform": 2, "hc": 20.0, "Cs_r": -(sr ** 2), "Cs_w": -(sw ** 2)}


def write_files(d, desc, inp):
    from netCDF4 import Dataset

    pk = inp["pack"]
    dt = 600
    if pk is None:
        unit = {"u": 1 / 64, "v": 1 / 64, "temp": 1 / 64}
    else:
        unit = {k: float(np.float32(pk[k])) for k in ("u", "v", "temp")}
    for f in range(desc["nfiles"]):
        frs = [2 * f, 2 * f + 1]
        p = d / f"forcing_{f:03d}.nc"
        rf.write_roms(p, imax=desc["imax0"], jmax=desc["jmax0"], N=desc["N"], times=[dt * t for t in frs], h=inp["h"], mask=inp["mask"],
                      u=inp["SU"][frs] * unit["u"], v=inp["SV"][frs] * unit["v"], extra={"temp": inp["ST"][frs] * unit["temp"]},
                      dtype=("f8" if desc["storage"] == "i2" else desc["storage"]),
                      packed=None if pk is None else {k: pk[k] for k in ("u", "v", "temp")}, dx=DX, **vertical_setup(desc))
        if pk is not None:
            with Dataset(p, "a") as nc:  # stored integers exactly as generated; scalar offset
                nc.set_auto_maskandscale(False)
                nc.variables["u"][:] = inp["SU"][frs].astype("i2")
                nc.variables["v"][:] = inp["SV"][frs].astype("i2")
                nc.variables["temp"][:] = inp["ST"][frs].astype("i2")
                nc.variables["temp"].add_offset = np.float32(pk["off"])
    return unit


def eval_file(desc, ctx):
    from ladim.ROMS import Forcing, Grid
    from ladim.state import State
    from ladim.timekeeper import TimeKeeper
    from ladim.tracker import Tracker

    inp = build(desc)
    rng = inp["rng"]
    imax0, jmax0, N, exact, n = desc["imax0"], desc["jmax0"], desc["N"], desc["exact"], desc["n"]
    d = ctx.subdir(f"c02scale_{desc['seed']}")
    for old in d.glob("*.nc"):
        old.unlink()
    unit = write_files(d, desc, inp)
    if desc.get("subgrids"):
        subs = [list(s) for s in desc["subgrids"]]
    else:  # the full grid and a window with i0 != j0 (upper limits counted from the end)
        subs = [None, [int(rng.integers(2, 6)), imax0 - int(rng.integers(2, 5)), int(rng.integers(6, 9)), -int(rng.integers(2, 5))]]
    nn = [norm_sub(s, imax0, jmax0) for s in subs]
    eps = 1 / 256
    box = (max(g[0] for g in nn) + 0.5 + eps, min(g[1] for g in nn) - 1.5 - eps, max(g[2] for g in nn) + 0.5 + eps, min(g[3] for g in nn) - 1.5 - eps)
    X = horizontal(rng, box[0], box[1], n, exact)
    Y = horizontal(rng, box[2], box[3], n, exact)
    hh = inp["h"][np.round(Y).astype(np.int64), np.round(X).astype(np.int64)]
    Z = np.floor(rng.uniform(0, hh * 4 + 1)) / 4 if exact else rng.uniform(0, hh)
    c = rng.random(n)
    Z = np.where(c < 0.05, 0.0, np.where(c < 0.10, hh, np.where(c < 0.14, hh + 5.0, np.where(c < 0.18, 0.25, Z))))
    obs = desc["obs"]
    pk = inp["pack"]
    off = 0.0 if pk is None else float(np.float32(pk["off"]))
    UF, VF = inp["SU"][obs] * unit["u"], inp["SV"][obs] * unit["v"]
    TF = off + inp["ST"][obs] * unit["temp"]
    flag = 1 if (exact or desc["storage"] != "i2") else 2
    mask = inp["mask"]
    lab = label(desc)
    problems = []
    per_sub = []

    def where(m, spec):
        return f"particle #{m} X={X[m]} Y={Y[m]} Z={Z[m]} subgrid={spec}"

    def complain(ok, spec, text):
        bad = first_bad(ok)
        if bad:
            m, cnt = bad
            problems.append(f"{lab}: {text(m)}: {where(m, spec)} ({cnt} of {n} particles)")

    for spec in subs:
        tk = TimeKeeper(start=rf.iso(0), stop=rf.iso(600 * (2 * desc["nfiles"] - 1)), dt=600)
        stt = State(instance_variables={"temp": float})
        grid = Grid(filename=str(d / "forcing_000.nc"), subgrid=None if spec is None else tuple(spec))
        mods = {"time": tk, "state": stt, "grid": grid}
        stt.append(X=X.copy(), Y=Y.copy(), Z=Z.copy(), temp=0.0)
        force = Forcing(mods, filename=str(d / "forcing_*.nc"), extra_forcing=["temp"])
        mods["forcing"] = force
        try:
            for s_ in range(obs + 1):
                # before the observed step the particles sit elsewhere (each at its neighbour's position)
                if s_ < obs:
                    stt["X"], stt["Y"] = np.roll(X, 1), np.roll(Y, 1)
                else:
                    stt["X"], stt["Y"] = X.copy(), Y.copy()
                tk.update()
                force.update()
            U, V = force.velocity(stt.X, stt.Y, stt.Z)
            U, V = np.array(U, dtype=float), np.array(V, dtype=float)
            uvar, vvar = np.array(force.variables["u"], dtype=float), np.array(force.variables["v"], dtype=float)
            tvar = np.array(force.variables["temp"], dtype=float)
            zr = np.array(grid.z_r, dtype=float)
            g = (int(grid.i0), int(grid.i1), int(grid.j0), int(grid.j1))
            # one Euler-forward step of the real Tracker with the first particle inactive
            tr = Tracker(advection="EF", modules=mods)
            act = np.ones(n, dtype=bool)
            act[0] = False
            stt["active"] = act
            X0, Y0 = np.array(stt.X, dtype=float), np.array(stt.Y, dtype=float)
            mx, my = grid.metric(X0, Y0)
            tr.update()
            X1, Y1 = np.array(stt.X, dtype=float), np.array(stt.Y, dtype=float)
            alive = np.array(stt.alive, dtype=bool)
        finally:
            try:
                force.close()
            except Exception:
                pass
        if not (U.shape == V.shape == uvar.shape == vvar.shape == tvar.shape == (n,)):
            problems.append(f"{lab}: forcing returns arrays of shapes {U.shape}, {V.shape}, {uvar.shape}, {vvar.shape}, {tvar.shape} for {n} particles (subgrid={spec})")
            continue
        # the particle's own water column (cell of Grid.depth: round(X) - i0) and its bracket
        JJ, II = np.round(Y).astype(np.int64), np.round(X).astype(np.int64)
        K, A = own_level(zr[:, JJ - g[2], II - g[0]], Z)
        wu, wv, (ulo, uhi), (vlo, vhi) = spec_velocity(mask, UF, VF, X, Y, K, A)
        per_sub.append({"spec": spec, "U": U, "V": V, "T": tvar})
        complain(isclose(flag, U, wu) & isclose(flag, V, wv), spec,
                 lambda m: f"velocity ({U[m]}, {V[m]}) differs from the interpolation of the file's staggered fields at the particle's own position ({wu[m]}, {wv[m]})")
        slack = 1e-6 * (1 + np.maximum(np.maximum(np.abs(ulo), np.abs(uhi)), np.maximum(np.abs(vlo), np.abs(vhi))))
        complain((U >= ulo - slack) & (U <= uhi + slack) & (V >= vlo - slack) & (V <= vhi + slack), spec,
                 lambda m: f"velocity ({U[m]}, {V[m]}) outside the range of the eight surrounding nodes u:{ulo[m]}..{uhi[m]} v:{vlo[m]}..{vhi[m]}")
        complain((U == uvar) & (V == vvar), spec,
                 lambda m: f"forcing.variables u,v ({uvar[m]}, {vvar[m]}) differ from forcing.velocity ({U[m]}, {V[m]})")
        wt = TF[K, JJ, II]
        complain(isclose(flag, tvar, wt), spec,
                 lambda m: f"scalar forcing {tvar[m]} is not the value {wt[m]} of the particle's own cell at level {int(K[m])}")
        # zero velocity through land faces
        IF, JF = np.floor(X + 0.5).astype(np.int64), np.floor(Y).astype(np.int64)
        complain(~((mask[JF, IF] == 0) & (mask[JF + 1, IF] == 0) & (U != 0)), spec,
                 lambda m: f"u = {U[m]} although all four surrounding u-faces border land")
        IF, JF = np.floor(X).astype(np.int64), np.floor(Y + 0.5).astype(np.int64)
        complain(~((mask[JF, IF] == 0) & (mask[JF, IF + 1] == 0) & (V != 0)), spec,
                 lambda m: f"v = {V[m]} although all four surrounding v-faces border land")
        lin = inp["lin"]
        if lin is not None and desc["mask"] == "sea":
            lu = 2 * unit["u"] * (A * lin["au"][obs][K - 1] + (1 - A) * lin["au"][obs][K] + lin["bu"] * X + lin["gu"] * Y)
            lv = 2 * unit["v"] * (A * lin["av"][obs][K - 1] + (1 - A) * lin["av"][obs][K] + lin["bv"] * X + lin["gv"] * Y)
            complain(isclose(flag, U, lu) & isclose(flag, V, lv), spec,
                     lambda m: f"linear field not reproduced: got ({U[m]}, {V[m]}), the field at the particle's position is ({lu[m]}, {lv[m]})")
        # the tracker: every particle that moves must move by ITS OWN velocity
        moved = (X1 != X0) | (Y1 != Y0)
        if moved[0]:
            problems.append(f"{lab}: inactive particle moved from ({X0[0]},{Y0[0]}) to ({X1[0]},{Y1[0]}) (subgrid={spec})")
        tx, ty = X0 + wu * 600.0 / np.asarray(mx, dtype=float), Y0 + wv * 600.0 / np.asarray(my, dtype=float)
        chk = moved & alive
        chk[0] = False
        tol = 1e-9 if flag == 1 else 1e-6
        okm = ~chk | ((np.abs(X1 - tx) <= tol * (1 + np.abs(tx))) & (np.abs(Y1 - ty) <= tol * (1 + np.abs(ty))))
        complain(okm, spec, lambda m: f"tracker moved the particle to ({X1[m]},{Y1[m]}); with the velocity interpolated at its own position and depth it goes to ({tx[m]},{ty[m]})")
    a = per_sub[0] if per_sub else None
    for b in per_sub[1:]:
        same = isclose(1, a["U"], b["U"]) & isclose(1, a["V"], b["V"]) & (a["T"] == b["T"])
        bad = first_bad(same)
        if bad:
            m, cnt = bad
            problems.append(f"{lab}: particle #{m} X={X[m]} Y={Y[m]} Z={Z[m]} feels (u,v,temp)=({a['U'][m]}, {a['V'][m]}, {a['T'][m]}) with subgrid {a['spec']} "
                            f"but ({b['U'][m]}, {b['V'][m]}, {b['T'][m]}) with subgrid {b['spec']} ({cnt} of {n} particles)")
    for f in d.glob("*.nc"):
        f.unlink()
    return {"ints": None, "oracle": problems[0] if problems else None, "nontrivial": ("scale-file", n, desc["seed"]),
            "kind": "scale-file", "observed": {"n": n, "subgrids": subs, "u": [float(x) for x in (a["U"][:3] if a else [])], "problems": len(problems)}}


# ------------------------------------------------------------------------------------------------ complete runs
def eval_run(desc, ctx):
    """ladim.main.main, continuous release of `per_release` particles at each of the first `releases` steps, Euler
    forward in a stationary random current over variable bathymetry, sparse output at every step"""
    import run_ladim as rl
    from ladim.ROMS import Grid
    from netCDF4 import Dataset

    rng = np.random.default_rng(desc["seed"])
    d = ctx.subdir(f"c02scalerun_{desc['seed']}")
    for f in d.glob("*"):
        f.unlink()
    imax, jmax, N, dt, dx = 44, 31, 6, 600, 1000.0
    mask = np.ones((jmax, imax))
    h = rng.uniform(40.0, 250.0, size=(jmax, imax))
    SU = rng.integers(-300, 301, size=(N, jmax, imax - 1))
    SV = rng.integers(-300, 301, size=(N, jmax - 1, imax))
    UF, VF = SU / 2048.0, SV / 2048.0   # at most 0.15 m/s: 0.09 cells per step
    nsteps, m, nrel = desc["steps"], desc["per_release"], desc["releases"]
    rf.write_roms(d / "f.nc", imax=imax, jmax=jmax, N=N, times=[0, dt * (nsteps + 1)], u=np.stack([UF, UF]), v=np.stack([VF, VF]),
                  h=h, mask=mask, dx=dx)
    tot = m * nrel
    X0 = np.where(rng.random(tot) < 0.5, dyadic(rng, 4.0, imax - 5.0, tot), rng.uniform(4.0, imax - 5.0, tot))
    Y0 = np.where(rng.random(tot) < 0.5, dyadic(rng, 4.0, jmax - 5.0, tot), rng.uniform(4.0, jmax - 5.0, tot))
    hh = h[np.round(Y0).astype(np.int64), np.round(X0).astype(np.int64)]
    Z0 = np.round(rng.uniform(0, hh) * 8) / 8
    Z0 = np.where(rng.random(tot) < 0.1, hh + 3.0, Z0)
    times = np.repeat(np.arange(nrel), m) * dt
    with open(d / "r.rls", "w") as fid:
        fid.write("".join(f"{rf.iso(int(t))} {x!r} {y!r} {z!r}\n" for t, x, y, z in zip(times.tolist(), X0.tolist(), Y0.tolist(), Z0.tolist())))
    conf = rf.base_config(start=0, stop=nsteps * dt, dt=dt, forcing_file=d / "f.nc", release_file=d / "r.rls", out_file=d / "o.nc",
                          advection="EF", output_period=dt, layout="sparse")
    rl.run_main(conf, d)
    g = Grid(filename=str(d / "f.nc"))
    zr = np.asarray(g.z_r, dtype=float)
    gi0, gj0 = int(g.i0), int(g.j0)
    lab = label(desc)
    problems = []
    with Dataset(d / "o.nc") as nc:
        nc.set_auto_mask(False)
        pc = np.asarray(nc.variables["particle_count"][:], dtype=np.int64)
        pid = np.asarray(nc.variables["pid"][:], dtype=np.int64)
        XX, YY, ZZ = (np.asarray(nc.variables[v][:], dtype=float) for v in ("X", "Y", "Z"))
    start = np.concatenate([[0], np.cumsum(pc)])
    want_counts = [m * min(r + 1, nrel) for r in range(len(pc))]
    if len(pc) < nsteps or pc.tolist() != want_counts:
        problems.append(f"{lab}: records hold {pc.tolist()} particles, released and staying inside: {want_counts}")
    nchecked = 0
    for r in range(len(pc) - 1):
        if problems:
            break
        s0, s1 = slice(start[r], start[r + 1]), slice(start[r + 1], start[r + 2])
        p0, p1 = pid[s0], pid[s1]
        if len(np.unique(p0)) != len(p0) or len(np.unique(p1)) != len(p1):
            problems.append(f"{lab}: duplicate identifiers in record {r} or {r + 1}")
            break
        pos = np.full(tot + 1, -1, dtype=np.int64)
        ok1 = (p1 >= 0) & (p1 < tot)
        pos[p1[ok1]] = np.flatnonzero(ok1)
        okp = (p0 >= 0) & (p0 < tot)
        j1 = np.where(okp, pos[np.where(okp, p0, 0)], -1)
        if (j1 < 0).any():
            q = int(p0[np.flatnonzero(j1 < 0)[0]])
            problems.append(f"{lab}: particle {q} of record {r} is missing from record {r + 1}")
            break
        x, y, z = XX[s0], YY[s0], ZZ[s0]
        x1, y1 = XX[s1][j1], YY[s1][j1]
        # positions and depths of a fresh particle are those of the release file (pid = row number)
        new = p0 >= m * r
        # (to 1e-9: the text reader of the release file is not correctly rounding)
        if r < nrel and not (isclose(1, x[new], X0[p0[new]]).all() and isclose(1, y[new], Y0[p0[new]]).all() and isclose(1, z[new], Z0[p0[new]]).all()):
            problems.append(f"{lab}: particles released at step {r} do not appear at the positions of the release file in record {r}")
            break
        JJ, II = np.round(y).astype(np.int64), np.round(x).astype(np.int64)
        K, A = own_level(zr[:, JJ - gj0, II - gi0], z)
        wu, wv, _, _ = spec_velocity(mask, UF, VF, x, y, K, A)
        tx, ty = x + wu * dt / dx, y + wv * dt / dx
        ok = (np.abs(x1 - tx) <= 1e-9 * (1 + np.abs(tx))) & (np.abs(y1 - ty) <= 1e-9 * (1 + np.abs(ty)))
        bad = first_bad(ok)
        nchecked += len(x)
        if bad:
            k, cnt = bad
            problems.append(f"{lab}: step {r} -> {r + 1} ({len(x)} particles in the state): particle pid={int(p0[k])} at X={x[k]} Y={y[k]} Z={z[k]} moved to "
                            f"({x1[k]}, {y1[k]}); the current interpolated at its own position and depth takes it to ({tx[k]}, {ty[k]}) "
                            f"({cnt} of {len(x)} particles)")
    for f in d.glob("*"):
        f.unlink()
    return {"ints": None, "oracle": problems[0] if problems else None, "nontrivial": ("scale-run", m, nrel, desc["seed"]),
            "kind": "scale-run", "observed": {"counts": pc.tolist(), "checked": nchecked, "problems": len(problems)}}


def eval_scale_case(desc, ctx):
    if desc["sub"] == "kernel":
        return eval_kernel(desc)
    if desc["sub"] == "file":
        return eval_file(desc, ctx)
    return eval_run(desc, ctx)
