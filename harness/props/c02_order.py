"""C02 — arrangements that must not matter (a fixed family, oracle only; see c02.py).

What a particle feels is a function of the forcing file's FIELDS and of the particle's position; it may not depend on
  * the order in which the variables (u, v, scalars, grid variables, unrelated packed variables) and the dimensions are
    stored inside the NetCDF file(s),
  * the order in which the extra forcing fields are listed (and whether only some of them are asked for),
  * which of the variables are packed (int16 + scale_factor / add_offset) and which are float32 / float64, each variable
    with its OWN factors,
  * the time unit / reference time each file of a multi-file forcing uses, and a different variable order in each file.
Every case is a METAMORPHIC pair: the same fields written in the canonical arrangement (u, v, temp, salt after the grid
variables; extra_forcing = [temp, salt]) and in another legal arrangement; a real Grid + Forcing (+ TimeKeeper, State) is run
over each, the property text (global coordinates, numpy) is applied to both, and the two results must agree.
All numbers are dyadic (scale factors 2**-k, offsets k/4, positions k/256, depths k/4, bathymetry 32/64/128), so the
float arithmetic is exact; the comparison still uses the module's tolerances (1e-6 packed, 1e-9 float).
One pair goes through ladim.main (configuration keys and lists in another order, scalars written to the output file).
"""
from __future__ import annotations

import numpy as np

import romsfiles as rf

IMAX, JMAX, N, DT, T = 12, 10, 4, 3600, 4
GRIDVARS = ["h", "mask_rho", "pm", "pn", "angle", "lon_rho", "lat_rho", "hc", "Cs_r", "Cs_w", "Vtransform", "ocean_time"]
FIELDVARS = ["u", "v", "w", "temp", "salt"]
DIMS = [("xi_rho", IMAX), ("eta_rho", JMAX), ("xi_u", IMAX - 1), ("eta_u", JMAX), ("xi_v", IMAX), ("eta_v", JMAX - 1),
        ("s_rho", N), ("s_w", N + 1), ("ocean_time", None)]
FDIMS = {"u": ("ocean_time", "s_rho", "eta_u", "xi_u"), "v": ("ocean_time", "s_rho", "eta_v", "xi_v"),
         "w": ("ocean_time", "s_w", "eta_rho", "xi_rho"), "temp": ("ocean_time", "s_rho", "eta_rho", "xi_rho"),
         "salt": ("ocean_time", "s_rho", "eta_rho", "xi_rho")}
# every variable its own factor and offset (velocity offsets are 0: the code ignores them, see ASSUMPTIONS of c02.py)
PACK = {"u": (2.0 ** -7, 0.0), "v": (2.0 ** -5, 0.0), "w": (2.0 ** -9, 0.5), "temp": (2.0 ** -4, 10.25), "salt": (2.0 ** -8, 30.5)}
FLOATUNIT = 2.0 ** -6
ALLPACKED = {k: "i2" for k in FIELDVARS}
CANON = {"order": "canon", "dims": "canon", "extra": ["temp", "salt"], "storage": ALLPACKED, "files": 1, "units": ["s"]}


def arrangement(**kw):
    a = dict(CANON)
    a.update(kw)
    return a


def gen_order_cases():
    A = arrangement
    # u and v share their storage (the code decides the scaling of both by u: one kind of storage per velocity pair)
    mixed1 = {"u": "i2", "v": "i2", "w": "f4", "temp": "f8", "salt": "i2"}
    mixed2 = {"u": "f4", "v": "f4", "w": "i2", "temp": "i2", "salt": "f8"}
    allf8 = {k: "f8" for k in FIELDVARS}
    pairs = [
        ("v-before-u", A(order="vu")),
        ("scalars-first", A(order="scalars_first")),
        ("all-reversed", A(order="reversed", dims="reversed")),
        ("interleaved-with-grid", A(order="interleaved")),
        ("distractor-first", A(order="w_first")),
        ("extra-salt-temp", A(extra=["salt", "temp"])),
        ("extra-salt-only", A(extra=["salt"])),
        ("extra-temp-only-reversed-file", A(extra=["temp"], order="reversed")),
        ("extra-swapped-and-vu", A(extra=["salt", "temp"], order="vu", dims="reversed")),
        ("mixed-storage-1", A(storage=mixed1)),
        ("mixed-storage-1-scalars-first", A(storage=mixed1, order="scalars_first", extra=["salt", "temp"])),
        ("mixed-storage-2-reversed", A(storage=mixed2, order="reversed")),
        ("float-vs-packed", A(storage=allf8, order="vu")),
        ("two-files-other-order-and-units", A(files=2, order=["canon", "reversed"], units=["h", "s-ref"])),
        ("two-files-packed-then-mixed", A(files=2, order=["scalars_first", "vu"], units=["s", "h"], storage=[ALLPACKED, mixed2],
                                          extra=["salt", "temp"])),
    ]
    out = []
    for q, (name, arr) in enumerate(pairs):
        out.append({"k": "order", "sub": "forcing", "name": name, "seed": 9100 + q, "arr": arr, "obs": q % T, "P": 40,
                    "mask": "sea" if q % 5 == 4 else "random"})
    out.append({"k": "order", "sub": "main", "name": "main-config-order", "seed": 9190,
                "arr": A(order="scalars_first", dims="reversed", extra=["salt", "temp"]), "P": 30, "mask": "sea"})
    return out


# ------------------------------------------------------------------------------------------------ inputs
def build(desc):
    rng = np.random.default_rng(desc["seed"])
    mask = np.ones((JMAX, IMAX))
    if desc["mask"] != "sea":
        for _ in range(3):
            j, i = int(rng.integers(0, JMAX)), int(rng.integers(0, IMAX))
            mask[j:j + int(rng.integers(1, 3)), i:i + int(rng.integers(1, 3))] = 0
    h = rng.choice([32.0, 64.0, 128.0], size=(JMAX, IMAX))
    S = {"u": rng.integers(-300, 301, size=(T, N, JMAX, IMAX - 1)), "v": rng.integers(-300, 301, size=(T, N, JMAX - 1, IMAX)),
         "w": rng.integers(-300, 301, size=(T, N + 1, JMAX, IMAX)), "temp": rng.integers(-300, 301, size=(T, N, JMAX, IMAX)),
         "salt": rng.integers(-300, 301, size=(T, N, JMAX, IMAX))}
    P = desc["P"]
    # positions k/256 in the valid region of the default window (1.5 .. imax - 2.5), among them cell centres and edges
    e = 1 / 256
    X = rng.integers(int(1.5 * 256) + 1, int((IMAX - 2.5) * 256), size=P) / 256.0
    Y = rng.integers(int(1.5 * 256) + 1, int((JMAX - 2.5) * 256), size=P) / 256.0
    X[: P // 5] = np.round(X[: P // 5])
    Y[P // 10: P // 4] = np.floor(Y[P // 10: P // 4]) + 0.5
    X, Y = np.clip(X, 1.5 + e, IMAX - 2.5 - e), np.clip(Y, 1.5 + e, JMAX - 2.5 - e)
    hh = h[np.round(Y).astype(int), np.round(X).astype(int)]
    Z = np.floor(rng.random(P) * hh * 4) / 4
    Z[::7] = 0.0
    Z[3::11] = hh[3::11] + 5.0
    return {"mask": mask, "h": h, "S": S, "X": X, "Y": Y, "Z": Z}


def per_file(arr, key, f):
    v = arr[key]
    if key == "storage":
        return v[f] if isinstance(v, list) else v
    if key == "order":
        return v[f] if isinstance(v, list) else v
    return v[f]


def var_order(mode):
    g, fv = list(GRIDVARS), list(FIELDVARS)
    if mode == "canon":
        return g + fv
    if mode == "vu":
        return g + ["v", "u", "w", "salt", "temp"]
    if mode == "scalars_first":
        return ["salt", "temp", "w", "v", "u"] + g
    if mode == "reversed":
        return (g + fv)[::-1]
    if mode == "w_first":
        return ["w"] + g + ["temp", "u", "salt", "v"]
    if mode == "interleaved":
        out, gg, ff = [], g[::-1], ["temp", "v", "w", "salt", "u"]
        while gg or ff:
            if ff:
                out.append(ff.pop(0))
            for _ in range(2):
                if gg:
                    out.append(gg.pop(0))
        return out
    raise ValueError(mode)


def unit_of(storage, name):
    # the same physical values in every kind of storage (exact in float32 too: at most 9 + 8 bits)
    return PACK[name][0]


def offset_of(storage, name):
    # float files hold the same kind of values: offset folded into the stored numbers (0 for the velocities)
    return PACK[name][1] if name in ("temp", "salt", "w") else 0.0


def file_values(storage, name, Sf):
    """the (unpacked) values the file denotes for this variable, float64 (exact: dyadic)"""
    return offset_of(storage, name) + unit_of(storage, name) * Sf.astype(float)


def write_file(path, inp, frames, order_mode, dims_mode, storage, unit):
    from netCDF4 import Dataset

    Cs_r, Cs_w = rf.default_vertical(N)
    jj, ii = np.meshgrid(np.arange(JMAX), np.arange(IMAX), indexing="ij")
    two = {"h": inp["h"], "mask_rho": inp["mask"], "pm": np.full((JMAX, IMAX), 1 / 1000.0), "pn": np.full((JMAX, IMAX), 1 / 1000.0),
           "angle": np.zeros((JMAX, IMAX)), "lon_rho": 0.01 * ii, "lat_rho": 60 + 0.01 * jj}
    secs = np.array([DT * t for t in frames], dtype=float)
    with Dataset(path, "w", format="NETCDF4") as nc:
        for name, size in (DIMS if dims_mode == "canon" else DIMS[::-1]):
            nc.createDimension(name, size)
        for name in var_order(order_mode):
            if name in two:
                nc.createVariable(name, "f8", ("eta_rho", "xi_rho"))[:, :] = two[name]
            elif name == "hc":
                nc.createVariable(name, "f8", ())[...] = 0.0
            elif name == "Vtransform":
                nc.createVariable(name, "i4", ())[...] = 1
            elif name == "Cs_r":
                nc.createVariable(name, "f8", ("s_rho",))[:] = Cs_r
            elif name == "Cs_w":
                nc.createVariable(name, "f8", ("s_w",))[:] = Cs_w
            elif name == "ocean_time":
                x = nc.createVariable(name, "f8", ("ocean_time",))
                if unit == "s":
                    x.units, x[:] = "seconds since 2000-01-01 00:00:00", secs
                elif unit == "h":
                    x.units, x[:] = "hours since 1999-12-31 00:00:00", secs / 3600.0 + 24.0
                else:  # seconds counted from another reference time
                    x.units, x[:] = "seconds since 1999-12-25 12:00:00", secs + 6.5 * 86400
            else:
                Sf = inp["S"][name][frames]
                if storage[name] == "i2":
                    y = nc.createVariable(name, "i2", FDIMS[name])
                    y.set_auto_maskandscale(False)
                    y.scale_factor = np.float32(PACK[name][0])
                    y.add_offset = np.float32(PACK[name][1])
                    y[:] = Sf.astype("i2")
                else:
                    y = nc.createVariable(name, storage[name], FDIMS[name])
                    y[:] = file_values(storage, name, Sf)


def write_arrangement(d, inp, arr):
    for old in d.glob("*.nc"):
        old.unlink()
    nf = arr["files"]
    frames_of = [list(range(T))] if nf == 1 else [[0, 1], [2, 3]]
    for f, frs in enumerate(frames_of):
        order = arr["order"][f] if isinstance(arr["order"], list) else arr["order"]
        storage = arr["storage"][f] if isinstance(arr["storage"], list) else arr["storage"]
        write_file(d / f"forcing_{f:03d}.nc", inp, frs, order, arr["dims"], storage, arr["units"][f])
    return frames_of


# ------------------------------------------------------------------------------------------------ the property, numpy
def brackets(zr_cols, Z):
    """(K, A) of depth Z in the particles' own columns zr_cols (N, P), ascending negative"""
    n = zr_cols.shape[0]
    below = np.sum(zr_cols < -Z[None, :], axis=0)
    K = np.clip(below, 1, n - 1)
    p = np.arange(len(Z))
    hi, lo = zr_cols[K, p], zr_cols[K - 1, p]
    A = np.where(below == 0, 1.0, np.where(below == n, 0.0, (hi + Z) / (hi - lo)))
    return K, A


def bilinear(F, k, x, y):
    i, j = np.floor(x).astype(int), np.floor(y).astype(int)
    p, q = x - i, y - j
    return (1 - p) * (1 - q) * F[k, j, i] + p * (1 - q) * F[k, j, i + 1] + (1 - p) * q * F[k, j + 1, i] + p * q * F[k, j + 1, i + 1]


def spec(inp, storage, obs, K, A):
    """what the property text says the particles feel at frame obs: u, v bilinear between the staggered points (zero
    through land faces), linear in depth; scalars = value of the own cell at level K"""
    m, X, Y = inp["mask"], inp["X"], inp["Y"]
    UF = file_values(storage, "u", inp["S"]["u"][obs]) * (m[:, :-1] * m[:, 1:])[None]
    VF = file_values(storage, "v", inp["S"]["v"][obs]) * (m[:-1, :] * m[1:, :])[None]
    out = {"u": A * bilinear(UF, K - 1, X - 0.5, Y) + (1 - A) * bilinear(UF, K, X - 0.5, Y),
           "v": A * bilinear(VF, K - 1, X, Y - 0.5) + (1 - A) * bilinear(VF, K, X, Y - 0.5)}
    I, J = np.round(X).astype(int), np.round(Y).astype(int)
    for name in ("temp", "salt"):
        out[name] = file_values(storage, name, inp["S"][name][obs])[K, J, I]
    return out


def differs(a, b, tol):
    a, b = np.asarray(a, dtype=float), np.asarray(b, dtype=float)
    if a.shape != b.shape:
        return np.array([0])
    return np.nonzero(~(np.abs(a - b) <= tol * (1 + np.abs(a) + np.abs(b))))[0]


def describe(arr):
    st = arr["storage"]
    st = st if isinstance(st, list) else [st]
    sts = "|".join(",".join(f"{k}:{s[k]}" for k in ("u", "v", "temp", "salt")) for s in st)
    return f"variables stored in order '{arr['order']}', dimensions '{arr['dims']}', extra_forcing={arr['extra']}, storage {sts}, time units {arr['units']}"


# ------------------------------------------------------------------------------------------------ Grid + Forcing
def feel(d, inp, arr, obs):
    from ladim.ROMS import Forcing, Grid
    from ladim.state import State
    from ladim.timekeeper import TimeKeeper

    frames_of = write_arrangement(d, inp, arr)
    fidx = [f for f, frs in enumerate(frames_of) if obs in frs][0]
    storage = arr["storage"][fidx] if isinstance(arr["storage"], list) else arr["storage"]
    tk = TimeKeeper(start=rf.iso(0), stop=rf.iso((T - 1) * DT), dt=DT)
    stt = State(instance_variables={name: float for name in arr["extra"]})
    grid = Grid(filename=str(d / "forcing_000.nc"))
    mods = {"time": tk, "state": stt, "grid": grid}
    X, Y, Z = inp["X"], inp["Y"], inp["Z"]
    stt.append(X=X.copy(), Y=Y.copy(), Z=Z.copy(), **{name: 0.0 for name in arr["extra"]})
    force = Forcing(mods, filename=str(d / "forcing_*.nc"), extra_forcing=list(arr["extra"]))
    try:
        for _ in range(obs + 1):
            tk.update()
            force.update()
        U, V = force.velocity(stt.X, stt.Y, stt.Z)
        got = {"u": np.array(U, dtype=float), "v": np.array(V, dtype=float)}
        var = {"u": np.array(force.variables["u"], dtype=float), "v": np.array(force.variables["v"], dtype=float)}
        for name in arr["extra"]:
            got[name] = np.array(force.variables[name], dtype=float)
            var[name] = np.array(stt[name], dtype=float)   # the same value handed to the state
        zr = np.asarray(grid.z_r, dtype=float)
        i0, j0 = int(grid.i0), int(grid.j0)
    finally:
        try:
            force.close()
        except Exception:
            pass
    K, A = brackets(zr[:, np.round(Y).astype(int) - j0, np.round(X).astype(int) - i0], Z)
    want = spec(inp, storage, obs, K, A)
    tol = 1e-6 if any(storage[k] != "f8" for k in ("u", "v", *arr["extra"])) else 1e-9
    problems = []
    for name in ["u", "v", *arr["extra"]]:
        bad = differs(got[name], want[name], tol)
        if len(bad):
            n = int(bad[0])
            what = ("interpolation of the file's staggered field" if name in "uv" else "value of the particle's own cell at level %d" % K[n])
            problems.append(f"{name} = {got[name][n]} felt by particle X={X[n]} Y={Y[n]} Z={Z[n]} at frame {obs} (file {fidx}) differs from the "
                            f"{what} = {want[name][n]} ({len(bad)} of {len(X)} particles) with {describe(arr)}")
        bad = differs(var[name], got[name], 0.0)
        if len(bad):
            n = int(bad[0])
            problems.append(f"forcing.variables / state value of {name} = {var[name][n]} differs from what forcing reports = {got[name][n]} "
                            f"for particle X={X[n]} Y={Y[n]} Z={Z[n]} with {describe(arr)}")
    return got, problems, storage


def eval_forcing_pair(desc, ctx):
    inp = build(desc)
    arr, obs = desc["arr"], desc["obs"]
    d = ctx.subdir(f"c02_order_{desc['seed']}")
    got_a, prob_a, st_a = feel(d, inp, CANON, obs)
    got_b, prob_b, st_b = feel(d, inp, arr, obs)
    for f in d.glob("*.nc"):
        f.unlink()
    problems = prob_b + prob_a
    same_storage = all(st_a[k] == st_b[k] for k in ("u", "v", "temp", "salt"))
    for name in got_b:
        bad = differs(got_a[name], got_b[name], 1e-9 if same_storage else 1e-6)
        if len(bad):
            n = int(bad[0])
            problems.append(f"particle X={inp['X'][n]} Y={inp['Y'][n]} Z={inp['Z'][n]} feels {name} = {got_a[name][n]} with the canonical file "
                            f"and {got_b[name][n]} with the same fields and {describe(arr)} (frame {obs})")
    return {"ints": None, "oracle": problems[0] if problems else None, "nontrivial": ("order", desc["name"]),
            "kind": f"order-{desc['name']}",
            "observed": {"u": [float(x) for x in got_b["u"][:3]], "v": [float(x) for x in got_b["v"][:3]], "problems": len(problems)}}


# ------------------------------------------------------------------------------------------------ ladim.main
def reorder(x, rev):
    if not rev or not isinstance(x, dict):
        return x
    return {k: reorder(x[k], rev) for k in reversed(list(x))}


def run_yaml(conf, workdir):
    """ladim.main.main on a YAML file whose keys stand in the order of the dictionary (run_ladim.run_main sorts them)"""
    import logging
    import os

    import yaml
    from ladim.main import main

    f = workdir / "ladim.yaml"
    with f.open("w") as fid:
        yaml.safe_dump(conf, fid, sort_keys=False)
    cwd = os.getcwd()
    os.chdir(workdir)
    try:
        main(str(f), loglevel=logging.CRITICAL + 10)
    finally:
        os.chdir(cwd)
        logging.disable(logging.CRITICAL)


def run_pair_member(d, inp, arr, rev, tag):
    import run_ladim as rl

    for f in d.glob("*"):
        if f.is_file():
            f.unlink()
    write_arrangement(d, inp, arr)
    X, Y, Z = inp["X"], inp["Y"], inp["Z"]
    P = len(X)
    if rev:   # columns of the release file in another order (named in the configuration)
        names = ["Z", "Y", "release_time", "X"]
        with open(d / "r.rls", "w") as f:
            for n in range(P):
                f.write(f"{float(Z[n])!r} {float(Y[n])!r} {rf.iso(0)} {float(X[n])!r}\n")
    else:
        names = ["release_time", "X", "Y", "Z"]
        rf.write_release(d / "r.rls", [[0, float(X[n]), float(Y[n]), float(Z[n])] for n in range(P)])
    outvars = ["pid", "X", "Y", "Z", *arr["extra"]]
    if rev:
        outvars = outvars[::-1]
    conf = rf.base_config(start=0, stop=2 * DT, dt=DT, forcing_file=d / "forcing_*.nc", release_file=d / "r.rls", out_file=d / f"o_{tag}.nc",
                          names=names, advection="EF", output_period=DT, layout="sparse", instance_variables=outvars,
                          grid_file=d / "forcing_000.nc")
    conf["forcing"]["extra_forcing"] = list(arr["extra"])
    conf["state"] = {"instance_variables": {name: "float" for name in arr["extra"]}, "default_values": {name: 0.0 for name in arr["extra"]}}
    conf = reorder(conf, rev)
    run_yaml(conf, d)
    recs = rl.read_sparse(d / f"o_{tag}.nc")["records"]
    out = []
    for r in recs:
        order = np.argsort(np.asarray(r["vars"]["pid"]))
        out.append({k: np.asarray(v, dtype=float)[order] for k, v in r["vars"].items()})
    return out


def eval_main_pair(desc, ctx):
    """complete runs: Euler forward over one frame interval with frames that do not change in time; the first record
    holds the scalars of the own cell at the release position, the second record the position after one step with the
    velocity interpolated at the release position"""
    from ladim.ROMS import Grid

    inp = build(desc)
    for name in inp["S"]:       # fields constant in time (time interpolation is C03)
        inp["S"][name][:] = inp["S"][name][0]
    # slow currents: |u| dt / dx <= 300 * 2**-5 * 3600 / 1000 is too far, so scale the integers down
    inp["S"]["u"] //= 64
    inp["S"]["v"] //= 256
    arr = desc["arr"]
    d = ctx.subdir("c02_order_main")
    problems = []
    recs = {}
    for tag, a, rev in (("a", CANON, False), ("b", arr, True)):
        recs[tag] = run_pair_member(d, inp, a, rev, tag)
        g = Grid(filename=str(d / "forcing_000.nc"))
        zr = np.asarray(g.z_r, dtype=float)
        X, Y, Z = inp["X"], inp["Y"], inp["Z"]
        K, A = brackets(zr[:, np.round(Y).astype(int) - int(g.j0), np.round(X).astype(int) - int(g.i0)], Z)
        want = spec(inp, a["storage"], 0, K, A)
        r = recs[tag]
        if len(r) < 2 or len(r[0]["pid"]) != len(X):
            problems.append(f"run with {describe(a)}: expected two records of {len(X)} particles")
            continue
        for name in a["extra"]:
            bad = differs(r[0][name], want[name], 1e-6)
            if len(bad):
                n = int(bad[0])
                problems.append(f"{name} = {r[0][name][n]} written for particle X={X[n]} Y={Y[n]} Z={Z[n]} differs from the value of its own "
                                f"cell {want[name][n]} in a complete run with {describe(a)}")
        alive = np.isin(np.arange(len(X)), r[1]["pid"].astype(int))
        wx, wy = X + want["u"] * DT / 1000.0, Y + want["v"] * DT / 1000.0
        if alive.all():
            moved = (r[1]["X"] != X) | (r[1]["Y"] != Y)   # particles stopped at the coast stay where they were
            bad = np.nonzero(moved & ((np.abs(r[1]["X"] - wx) > 1e-6) | (np.abs(r[1]["Y"] - wy) > 1e-6)))[0]
            if len(bad):
                n = int(bad[0])
                problems.append(f"particle X={X[n]} Y={Y[n]} Z={Z[n]} moved to ({r[1]['X'][n]}, {r[1]['Y'][n]}); the velocity interpolated at its "
                                f"position takes it to ({wx[n]}, {wy[n]}) in a complete run with {describe(a)}")
    if not problems:
        for s in range(2):
            for name in recs["a"][s]:
                bad = differs(recs["a"][s][name], recs["b"][s].get(name, np.array([])), 1e-9)
                if len(bad):
                    n = int(bad[0])
                    problems.append(f"record {s}: {name} of particle {n} is {recs['a'][s][name][n]} in the canonical run and "
                                    f"{recs['b'][s][name][n] if len(recs['b'][s].get(name, [])) > n else None} with the same fields, reversed "
                                    f"configuration / release column order and {describe(arr)}")
                    break
    for f in d.glob("*"):
        if f.is_file():
            f.unlink()
    return {"ints": None, "oracle": problems[0] if problems else None, "nontrivial": ("order", desc["name"]), "kind": "order-main",
            "observed": {"records": [len(recs[t]) for t in recs], "problems": len(problems)}}


def eval_order_case(desc, ctx):
    if desc["sub"] == "main":
        return eval_main_pair(desc, ctx)
    return eval_forcing_pair(desc, ctx)
