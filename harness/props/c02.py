"""C02 — particles feel the interpolated C-grid forcing at their own position.

Three kinds of cases:
  s3d   the public `sample3D` (bilinear = `trilinear`, and nearest) on a generated array;
  uv    the public `sample3DUV` (the +1/2 stagger) on generated U, V arrays;
  file  a real `Grid` + `Forcing` (+ TimeKeeper, State) on generated NetCDF files: random variable bathymetry,
        land masks with islands and one-cell channels, two or three legal sub-rectangles, float64 / float32 /
        int16-packed storage chosen per file (packed -> float, float -> packed, packed -> packed with other factors); observed: `forcing.velocity(X, Y, Z)`,
        `forcing.variables` and `forcing.K/A` after `update()`.  The Coq model gets the RAW arrays written
        into the file (and the level index/weight the harness computed from the particle's own water column).
  scale a fixed family at realistic scale (c02_scale.py; oracle only, always first): sample3D / sample3DUV, Grid+Forcing
        (+ Tracker) and complete ladim.main runs with 1000 ... 130000 particles in random order, a large grid with
        window offsets in the hundreds, sixteen forcing files, a continuous release growing through several thousands.
  order a fixed family of metamorphic pairs (c02_order.py; oracle only, after the scale family): the same fields written with the
        variables / dimensions of the NetCDF file in another order, extra_forcing listed in another order or in part, each
        variable with its own packing or float storage, per-file time units and orders of a two-file forcing, and one pair of
        complete ladim.main runs with the configuration keys, output variables and release columns in another order.
Everything of a case is regenerated from its description (a seed), so a replay file is small.
The oracle is the property text in GLOBAL grid coordinates (no slicing, no offsets): bilinear between the four
surrounding u- (v-) points, linear in depth between levels K-1 and K, zero through land faces, scalar = own cell;
plus: linear fields are reproduced, the result lies between the eight node values, two sub-rectangles agree.
"""
from __future__ import annotations

import math

import numpy as np

import romsfiles as rf
from coqbridge import fl

PROP = "C02"
THEOREM_FILE = "Props/C02.v"
CHECKER = "Corr.C02All"
SHARD = 6
RULE = ("sample3D / sample3DUV on generated arrays (positions on cell centres, edges, corners, dyadic k/256 and "
        "general floats, weights 0, 1, dyadic, general) and real Grid+Forcing on generated files (variable "
        "bathymetry, islands and one-cell channels, sub-rectangles with i0 != j0 incl. negative limits and the full "
        "grid, f8/f4/int16-packed storage chosen independently per file (packed then float, float then packed, packed then packed "
        "with other scale factors), frames of the second file). "
        "Scale (oracle only, every particle of the case): the same entry points and complete ladim.main runs with 1000 to "
        "130000 particles in random order, a 236x187x21 grid with window offsets > 100, 16 forcing files. "
        "Non-trivial = distinct (kind, seed) with at least one particle off the nodes in a non-constant field.")
TRUSTED = ["Coq 8.16.1 kernel + vm_compute", "hand-written model coq/Model/Interp.v tied by this correspondence",
           "netCDF4/HDF5 round trip of the generated arrays", "numba compilation of trilinear/z2s_kernel as run",
           "K, A handed to the model are computed by the harness from grid.z_r (vertical grid itself: C12)"]
ASSUMPTIONS = ["exact rational arithmetic in the model; float rounding is covered by the exact (dyadic) stream and a "
               "1e-9 (float64) / 1e-6 (float32 products of packed storage) tolerance on the general stream",
               "velocity add_offset = 0 (the code ignores it; the property speaks of scale_factor only)",
               "time reversal (sign flip) and time interpolation are C10/C03; observation at frame steps, fraction 0"]

TOL = {0: 0.0, 1: 1e-9, 2: 1e-6}


def close(flag, a, b):
    if flag == 0:
        return a == b
    return abs(a - b) <= TOL[flag] * (1 + abs(a) + abs(b))


# ---------------------------------------------------------------------------------------------- generation
def gen_cases(ctx):
    rng = ctx.rng
    nk, nuv, nf = (50, 40, 48) if ctx.quick else (500, 400, 420)
    out = []
    # realistic scale first (a fixed family, nothing drawn from rng: the random stream below is unchanged)
    import c02_scale

    out.extend(c02_scale.gen_scale_cases())
    # arrangements that must not matter (a fixed family of metamorphic pairs, nothing drawn from rng either)
    import c02_order

    out.extend(c02_order.gen_order_cases())
    for n in range(nk):
        out.append({"k": "s3d", "seed": rng.randrange(10**9), "meth": rng.choice([0, 0, 0, 1]), "exact": n % 2 == 0,
                    "N": rng.randint(2, 4), "jn": rng.randint(2, 6), "im": rng.randint(2, 7), "P": 12})
    for n in range(nuv):
        out.append({"k": "uv", "seed": rng.randrange(10**9), "meth": rng.choice([0, 0, 0, 1]), "exact": n % 2 == 0,
                    "N": rng.randint(2, 4), "jmax": rng.randint(2, 6), "imax": rng.randint(2, 7), "P": 12})
    out.append({"k": "landrow", "layout": "sparse", "scale": 1.0, "depths": [5.0, 30.0, 60.0, 90.0]})
    out.append({"k": "landrow", "layout": "sparse", "scale": 0.5, "depths": [95.0, 12.5, 70.0]})
    import c02_float

    for fdesc in c02_float.gen_float_cases(rng, 60 if ctx.quick else 1500):
        out.append({"k": "fbits", "f": fdesc})
    # storage is chosen per file: a packed file followed by a float file, float -> packed, packed -> packed with
    # other factors, ...; with two files the observed frame belongs to the later one
    combos = [["f8"], ["i2", "f8"], ["i2", "i2"], ["f4"], ["f4", "i2"], ["i2", "f4"], ["i2"], ["f8", "f4"], ["i2", "i2"],
              ["f8", "i2"], ["i2", "f8"], ["f4", "f8"]]
    for n in range(nf):
        sts = combos[n % len(combos)]
        exact = (n // 3) % 2 == 0
        nfiles = len(sts)
        # with two files the observed frame belongs to the later one or (every other round) to the earlier one
        obs = rng.choice([2, 3]) if nfiles == 2 else rng.randint(0, 3)
        if nfiles == 2 and (n // len(combos)) % 2 == 1:
            obs = [1, 0][(n // (2 * len(combos))) % 2]
        out.append({"k": "file", "seed": rng.randrange(10**9), "storages": sts, "storage": sts[-1], "exact": exact,
                    "imax0": rng.randint(7, 11), "jmax0": rng.randint(7, 10), "N": rng.choice([2, 4]) if exact else rng.randint(2, 5),
                    "field": rng.choice(["random", "random", "linear"]), "mask": rng.choice(["random", "random", "sea"]),
                    "bathy": "random", "nfiles": nfiles, "obs_step": obs,
                    "nsub": rng.choice([2, 2, 3]), "P": 10})
    return out


def storages_of(desc):
    return desc.get("storages") or [desc["storage"]] * desc["nfiles"]


def positions(rng, lo, hi, n, exact):
    """n positions in [lo, hi]: end points, integers, half-integers, dyadic k/256 and (general stream) any float"""
    out = []
    ints = [v for v in range(math.ceil(lo), math.floor(hi) + 1)]
    halves = [v + 0.5 for v in range(math.floor(lo) - 1, math.ceil(hi) + 1) if lo <= v + 0.5 <= hi]
    for _ in range(n):
        c = rng.random()
        if c < 0.08:
            out.append(lo)
        elif c < 0.16:
            out.append(hi)
        elif c < 0.30 and ints:
            out.append(float(ints[rng.integers(len(ints))]))
        elif c < 0.45 and halves:
            out.append(float(halves[rng.integers(len(halves))]))
        elif c < 0.75 or exact:
            a, b = math.ceil(lo * 256), math.floor(hi * 256)
            out.append(rng.integers(a, b + 1) / 256.0)
        else:
            out.append(float(rng.uniform(lo, hi)))
    return out


def weights(rng, n, exact):
    out = []
    for _ in range(n):
        c = rng.random()
        if c < 0.12:
            out.append(0.0)
        elif c < 0.24:
            out.append(1.0)
        elif c < 0.6 or exact:
            out.append(rng.integers(0, 65) / 64.0)
        else:
            out.append(float(rng.random()))
    return out


def ints_field(rng, shape):
    return rng.integers(-300, 301, size=shape).astype(np.int64)


# ---------------------------------------------------------------------------------------------- kernel cases
def eval_s3d(desc):
    from ladim.ROMS import sample3D

    rng = np.random.default_rng(desc["seed"])
    N, jn, im, P, meth, exact = desc["N"], desc["jn"], desc["im"], desc["P"], desc["meth"], desc["exact"]
    den = 64
    S = ints_field(rng, (N, jn, im))
    F = S / den
    if rng.random() < 0.3:
        F = F.astype(np.float32)  # exactly representable
    if meth == 0:
        X = positions(rng, 0.0, im - 1 - 1 / 256, P, exact)
        Y = positions(rng, 0.0, jn - 1 - 1 / 256, P, exact)
    else:
        X = positions(rng, 0.0, im - 1.0, P, exact)
        Y = positions(rng, 0.0, jn - 1.0, P, exact)
    K = [int(rng.integers(1, N)) for _ in range(P)]
    if meth == 1:
        K = [int(rng.integers(0, N)) for _ in range(P)]
    A = weights(rng, P, exact)
    R = sample3D(F, np.array(X), np.array(Y), np.array(K, dtype=np.int64), np.array(A), method="bilinear" if meth == 0 else "nearest")
    F = F.astype(np.float64)  # for the reference below (the stored values are exactly representable)
    flag = 0 if exact else 1
    ints = [1, meth, flag, N, jn, im, den, P]
    oracle = None
    offnode = False
    for n in range(P):
        ints += fl(X[n]) + fl(Y[n]) + [K[n]] + fl(A[n]) + fl(float(R[n]))
        # property text: trilinear interpolation in the array's own coordinates / value of the own cell
        if meth == 0:
            i, j = math.floor(X[n]), math.floor(Y[n])
            p, q = X[n] - i, Y[n] - j
            lev = [(1 - p) * (1 - q) * F[k, j, i] + p * (1 - q) * F[k, j, i + 1] + (1 - p) * q * F[k, j + 1, i] + p * q * F[k, j + 1, i + 1]
                   for k in (K[n] - 1, K[n])]
            want = A[n] * float(lev[0]) + (1 - A[n]) * float(lev[1])
            nodes = [float(F[k, jj, ii]) for k in (K[n] - 1, K[n]) for jj in (j, j + 1) for ii in (i, i + 1)]
            if not (min(nodes) - 1e-9 <= float(R[n]) <= max(nodes) + 1e-9):
                oracle = f"sample3D result {float(R[n])} outside the range of the eight surrounding nodes {min(nodes)}..{max(nodes)} at x={X[n]} y={Y[n]} k={K[n]} a={A[n]}"
            offnode = offnode or (p != 0 or q != 0)
        else:
            want = float(F[K[n], round(Y[n]), round(X[n])])
            offnode = True
        if oracle is None and not close(flag, float(R[n]), want):
            oracle = f"sample3D({'bilinear' if meth == 0 else 'nearest'}) at x={X[n]} y={Y[n]} k={K[n]} a={A[n]} gives {float(R[n])}, interpolation of the array gives {want}"
    ints += [int(v) for v in S.ravel()]
    return {"ints": ints, "oracle": oracle, "nontrivial": ("s3d", desc["seed"]) if offnode else None,
            "kind": f"s3d-{'bilinear' if meth == 0 else 'nearest'}-{'exact' if exact else 'general'}",
            "observed": [float(r) for r in R[:4]]}


def eval_uv(desc):
    from ladim.ROMS import sample3DUV

    rng = np.random.default_rng(desc["seed"])
    N, jmax, imax, P, meth, exact = desc["N"], desc["jmax"], desc["imax"], desc["P"], desc["meth"], desc["exact"]
    den = 64
    SU = ints_field(rng, (N, jmax, imax + 1))
    SV = ints_field(rng, (N, jmax + 1, imax))
    lin = rng.random() < 0.4
    if lin:  # linear at the own points: u-node (j, i) at local (i - 1/2, j), v-node at (i, j - 1/2)
        au, bu, gu = rng.integers(-40, 41, size=N), int(rng.integers(-9, 10)), int(rng.integers(-9, 10))
        av, bv, gv = rng.integers(-40, 41, size=N), int(rng.integers(-9, 10)), int(rng.integers(-9, 10))
        kk, jj, ii = np.meshgrid(np.arange(N), np.arange(jmax), np.arange(imax + 1), indexing="ij")
        SU = au[kk] * 2 + bu * (2 * ii - 1) + 2 * gu * jj  # value*2 ; den below is 2*32
        kk, jj, ii = np.meshgrid(np.arange(N), np.arange(jmax + 1), np.arange(imax), indexing="ij")
        SV = av[kk] * 2 + 2 * bv * ii + gv * (2 * jj - 1)
    U, V = SU / den, SV / den
    if exact:  # dyadic positions inside the clip box [0.01, imax - 1.01]
        X = positions(rng, 3 / 256, imax - 1 - 3 / 256, P, True)
        Y = positions(rng, 3 / 256, jmax - 1 - 3 / 256, P, True)
    else:      # the clip box incl. its extremes
        X = positions(rng, 0.01, imax - 1.01, P, False)
        Y = positions(rng, 0.01, jmax - 1.01, P, False)
    K = [int(rng.integers(1, N)) for _ in range(P)]
    A = weights(rng, P, exact)
    RU, RV = sample3DUV(U, V, np.array(X), np.array(Y), np.array(K, dtype=np.int64), np.array(A),
                        method="bilinear" if meth == 0 else "nearest")
    flag = 0 if exact else 1
    ints = [2, meth, flag, N, jmax, imax, den, P]
    oracle = None
    for n in range(P):
        ints += fl(X[n]) + fl(Y[n]) + [K[n]] + fl(A[n]) + fl(float(RU[n])) + fl(float(RV[n]))
        if meth == 0:
            def bil(F, x, y, k):
                i, j = math.floor(x), math.floor(y)
                p, q = x - i, y - j
                return float((1 - p) * (1 - q) * F[k, j, i] + p * (1 - q) * F[k, j, i + 1] + (1 - p) * q * F[k, j + 1, i] + p * q * F[k, j + 1, i + 1])
            # u-points sit at local (i - 1/2, j): the particle at x is at array coordinate x + 1/2
            wu = A[n] * bil(U, X[n] + 0.5, Y[n], K[n] - 1) + (1 - A[n]) * bil(U, X[n] + 0.5, Y[n], K[n])
            wv = A[n] * bil(V, X[n], Y[n] + 0.5, K[n] - 1) + (1 - A[n]) * bil(V, X[n], Y[n] + 0.5, K[n])
            if lin:
                k0, k1 = K[n] - 1, K[n]
                lu = A[n] * (au[k0] + bu * X[n] + gu * Y[n]) + (1 - A[n]) * (au[k1] + bu * X[n] + gu * Y[n])
                lv = A[n] * (av[k0] + bv * X[n] + gv * Y[n]) + (1 - A[n]) * (av[k1] + bv * X[n] + gv * Y[n])
                if not (close(1, float(RU[n]), lu * 2 / den) and close(1, float(RV[n]), lv * 2 / den)):
                    oracle = (f"linear staggered field not reproduced at x={X[n]} y={Y[n]} k={K[n]} a={A[n]}: "
                              f"got ({float(RU[n])}, {float(RV[n])}), field is ({lu * 2 / den}, {lv * 2 / den})")
        else:
            wu = float(U[K[n], round(Y[n]), round(X[n] + 0.5)])
            wv = float(V[K[n], round(Y[n] + 0.5), round(X[n])])
        if oracle is None and not (close(max(flag, 1), float(RU[n]), wu) and close(max(flag, 1), float(RV[n]), wv)):
            oracle = (f"sample3DUV at x={X[n]} y={Y[n]} k={K[n]} a={A[n]} gives ({float(RU[n])}, {float(RV[n])}), "
                      f"interpolation between the staggered points gives ({wu}, {wv})")
    ints += [int(v) for v in SU.ravel()] + [int(v) for v in SV.ravel()]
    return {"ints": ints, "oracle": oracle, "nontrivial": ("uv", desc["seed"]),
            "kind": f"uv-{'bilinear' if meth == 0 else 'nearest'}-{'exact' if flag == 0 else 'general'}{'-linear' if lin else ''}",
            "observed": [[float(a), float(b)] for a, b in zip(RU[:3], RV[:3])]}


# ---------------------------------------------------------------------------------------------- file cases
def make_mask(rng, jmax0, imax0, kind):
    M = np.ones((jmax0, imax0))
    if kind == "sea":
        return M
    for _ in range(int(rng.integers(1, 4))):  # islands
        j, i = int(rng.integers(0, jmax0)), int(rng.integers(0, imax0))
        M[j:j + int(rng.integers(1, 3)), i:i + int(rng.integers(1, 3))] = 0
    if rng.random() < 0.6:  # a wall with a one-cell channel
        if rng.random() < 0.5:
            i = int(rng.integers(1, imax0 - 1))
            M[:, i] = 0
            M[int(rng.integers(1, jmax0 - 1)), i] = 1
        else:
            j = int(rng.integers(1, jmax0 - 1))
            M[j, :] = 0
            M[j, int(rng.integers(1, imax0 - 1))] = 1
    return M


def norm_sub(spec, imax0, jmax0):
    if spec is None:
        return (1, imax0 - 1, 1, jmax0 - 1)
    a, b, c, d = spec
    return (a + imax0 if a < 0 else a, b + imax0 if b < 0 else b, c + jmax0 if c < 0 else c, d + jmax0 if d < 0 else d)


def make_subgrids(rng, imax0, jmax0, n):
    """n sub-rectangle specs whose valid regions overlap (by at least one cell in x and y), i0 != j0 preferred"""
    for _ in range(200):
        subs = []
        for s in range(n):
            if s == 0 and rng.random() < 0.35:
                subs.append(None)
                continue
            i0 = int(rng.integers(1, imax0 - 4)); i1 = int(rng.integers(i0 + 4, imax0))
            j0 = int(rng.integers(1, jmax0 - 4)); j1 = int(rng.integers(j0 + 4, jmax0))
            spec = [i0, i1, j0, j1]
            if rng.random() < 0.2:  # negative values count from the upper end
                spec[1] = i1 - imax0
                spec[3] = j1 - jmax0
            subs.append(spec)
        nn = [norm_sub(s, imax0, jmax0) for s in subs]
        xlo, xhi = max(g[0] for g in nn) + 0.5, min(g[1] for g in nn) - 1.5
        ylo, yhi = max(g[2] for g in nn) + 0.5, min(g[3] for g in nn) - 1.5
        if xhi - xlo >= 1.0 and yhi - ylo >= 1.0 and any(g[0] != g[2] for g in nn) and len({tuple(g) for g in nn}) == n:
            return subs, (xlo, xhi, ylo, yhi)
    return [None, None][:n], (1.5, imax0 - 2.5, 1.5, jmax0 - 2.5)


def build_file_inputs(desc):
    rng = np.random.default_rng(desc["seed"])
    imax0, jmax0, N, exact = desc["imax0"], desc["jmax0"], desc["N"], desc["exact"]
    T = 4
    mask = make_mask(rng, jmax0, imax0, desc["mask"])
    if desc["bathy"] == "slope_x":
        h = 50.0 + 10.0 * np.arange(imax0)[None, :] + 0.0 * np.arange(jmax0)[:, None]
    elif desc["bathy"] == "flat":
        h = np.full((jmax0, imax0), 64.0)
    elif exact:
        h = rng.choice([32.0, 64.0, 128.0, 256.0], size=(jmax0, imax0))
    else:
        h = rng.uniform(20.0, 300.0, size=(jmax0, imax0))
    lin = None
    if desc["field"] == "linear":
        a_u, a_v = rng.integers(-60, 61, size=(T, N)), rng.integers(-60, 61, size=(T, N))
        bu, gu, bv, gv = (int(x) for x in rng.integers(-7, 8, size=4))
        kk, jj, ii = np.meshgrid(np.arange(N), np.arange(jmax0), np.arange(imax0 - 1), indexing="ij")
        SU = np.stack([2 * a_u[t][kk] + bu * (2 * ii + 1) + 2 * gu * jj for t in range(T)])   # 2 * (a + b (I+1/2) + g J)
        kk, jj, ii = np.meshgrid(np.arange(N), np.arange(jmax0 - 1), np.arange(imax0), indexing="ij")
        SV = np.stack([2 * a_v[t][kk] + 2 * bv * ii + gv * (2 * jj + 1) for t in range(T)])
        lin = {"au": a_u, "av": a_v, "bu": bu, "gu": gu, "bv": bv, "gv": gv}
    else:
        SU = ints_field(rng, (T, N, jmax0, imax0 - 1))
        SV = ints_field(rng, (T, N, jmax0 - 1, imax0))
    if desc["field"] == "index":
        ST = np.stack([np.arange(N * jmax0 * imax0).reshape(N, jmax0, imax0) + 1000 * t for t in range(T)])
    else:
        ST = ints_field(rng, (T, N, jmax0, imax0))
    nfiles = desc["nfiles"]
    frames_of = [[0, 1, 2, 3]] if nfiles == 1 else [[0, 1], [2, 3]]
    packs = []
    for f in range(nfiles):
        if storages_of(desc)[f] == "i2":
            if exact:
                e = rng.choice([4, 5, 6, 7, 8], size=3, replace=False)
                sf = [2.0 ** -int(x) for x in e]
                off = float(rng.integers(-8, 9)) / 4
            else:
                sf = [float(x) for x in rng.choice([1e-3, 2.5e-3, 1e-4, 3e-4, 0.01, 0.0123], size=3, replace=False)]
                off = float(rng.choice([0.0, 1.5, -3.25, 10.0]))
            packs.append({"u": sf[0], "v": sf[1], "temp": sf[2], "off": off})
        else:
            packs.append(None)
    return {"rng": rng, "mask": mask, "h": h, "SU": SU, "SV": SV, "ST": ST, "lin": lin, "frames_of": frames_of,
            "packs": packs, "den": 64}


def vertical_setup(desc):
    """vertical coordinate of the files: the default (Vtransform 1, hc = 0) or Vtransform 2 with a critical depth
    above the shallowest cells (legal there: h_c enters as (hc*s + h*C)/(hc + h))"""
    k = desc["seed"] % 3
    if k == 0 or desc.get("exact"):  # the exact stream keeps dyadic level depths (float arithmetic exact)
        return {}
    # a genuinely stretched coordinate (with C(s) = s the levels do not depend on hc at all)
    N = desc["N"]
    sr, sw = (np.arange(N) + 0.5) / N - 1.0, np.arange(N + 1) / N - 1.0
    return {"Vtransform": 2, "hc": [0.0, 20.0, 150.0][k], "Cs_r": -(sr ** 2), "Cs_w": -(sw ** 2)}


def write_files(d, desc, inp):
    from netCDF4 import Dataset

    imax0, jmax0, N = desc["imax0"], desc["jmax0"], desc["N"]
    dt = 600
    names = []
    for f, frs in enumerate(inp["frames_of"]):
        p = d / f"forcing_{f:03d}.nc"
        st = storages_of(desc)[f]
        pk = inp["packs"][f]
        if pk is None:
            unit = {"u": 1 / inp["den"], "v": 1 / inp["den"], "temp": 1 / inp["den"]}
            packed = None
        else:
            unit = {k: float(np.float32(pk[k])) for k in ("u", "v", "temp")}
            packed = {k: pk[k] for k in ("u", "v", "temp")}
        rf.write_roms(p, imax=imax0, jmax=jmax0, N=N, times=[dt * t for t in frs], h=inp["h"], mask=inp["mask"],
                      u=inp["SU"][frs] * unit["u"], v=inp["SV"][frs] * unit["v"], extra={"temp": inp["ST"][frs] * unit["temp"]},
                      dtype=("f8" if st == "i2" else st), packed=packed,
                      dx=1000.0, **vertical_setup(desc))
        if pk is not None:
            with Dataset(p, "a") as nc:  # stored integers exactly as generated; scalar offset
                nc.set_auto_maskandscale(False)
                nc.variables["u"][:] = inp["SU"][frs].astype("i2")
                nc.variables["v"][:] = inp["SV"][frs].astype("i2")
                nc.variables["temp"][:] = inp["ST"][frs].astype("i2")
                nc.variables["temp"].add_offset = np.float32(pk["off"])
        names.append(p)
    return names


def own_level(zr, Z):
    """the two s-levels that bracket depth Z in the column zr (ascending, negative): (K, A)"""
    N = len(zr)
    below = int(np.sum(zr < -Z))          # number of levels strictly below the particle
    if below == 0:
        return 1, 1.0                      # under the lowest level: constant
    if below == N:
        return N - 1, 0.0                  # above the highest level: constant
    return below, float((zr[below] + Z) / (zr[below] - zr[below - 1]))


def spec_velocity(mask, UF, VF, X, Y, K, A):
    """The property text in global coordinates: bilinear between the four surrounding u- (v-) points of the
    file (u-point I at (I + 1/2, J), v-point J at (I, J + 1/2)), linear in depth, zero through land faces."""
    def uval(k, j, i):
        return float(UF[k, j, i]) * float(mask[j, i] * mask[j, i + 1])

    def vval(k, j, i):
        return float(VF[k, j, i]) * float(mask[j, i] * mask[j + 1, i])

    def bil(f, k, x, y):
        i, j = math.floor(x), math.floor(y)
        p, q = x - i, y - j
        nodes = [f(k, j, i), f(k, j, i + 1), f(k, j + 1, i), f(k, j + 1, i + 1)]
        return (1 - p) * (1 - q) * nodes[0] + p * (1 - q) * nodes[1] + (1 - p) * q * nodes[2] + p * q * nodes[3], nodes

    u0, n0 = bil(uval, K - 1, X - 0.5, Y)
    u1, n1 = bil(uval, K, X - 0.5, Y)
    v0, m0 = bil(vval, K - 1, X, Y - 0.5)
    v1, m1 = bil(vval, K, X, Y - 0.5)
    return A * u0 + (1 - A) * u1, A * v0 + (1 - A) * v1, n0 + n1, m0 + m1


def eval_file(desc, ctx):
    from ladim.ROMS import Forcing, Grid
    from ladim.state import State
    from ladim.timekeeper import TimeKeeper

    inp = build_file_inputs(desc)
    rng = inp["rng"]
    imax0, jmax0, N, exact = desc["imax0"], desc["jmax0"], desc["N"], desc["exact"]
    d = ctx.subdir(f"c02_{desc['seed']}")
    for old in d.glob("*.nc"):
        old.unlink()
    names = write_files(d, desc, inp)
    if desc.get("subgrids") is not None:
        subs = desc["subgrids"]
        nn = [norm_sub(s, imax0, jmax0) for s in subs]
        box = (max(g[0] for g in nn) + 0.5, min(g[1] for g in nn) - 1.5, max(g[2] for g in nn) + 0.5, min(g[3] for g in nn) - 1.5)
    else:
        subs, box = make_subgrids(rng, imax0, jmax0, desc["nsub"])
    eps = 1 / 256
    if desc.get("particles") is not None:
        P = len(desc["particles"])
        X, Y, Z = ([float(p[c]) for p in desc["particles"]] for c in range(3))
    else:
        P = desc["P"]
        X = positions(rng, box[0] + eps, box[1] - eps, P, exact)
        Y = positions(rng, box[2] + eps, box[3] - eps, P, exact)
        Z = []
        for n in range(P):
            hh = float(inp["h"][round(Y[n]), round(X[n])])
            c = rng.random()
            if c < 0.1:
                Z.append(0.0)
            elif c < 0.2:
                Z.append(hh)
            elif c < 0.28:
                Z.append(hh + 5.0)
            elif c < 0.36:
                Z.append(0.25)
            elif exact:
                Z.append(float(rng.integers(0, int(hh * 4) + 1)) / 4)
            else:
                Z.append(float(rng.uniform(0, hh)))
    obs = desc["obs_step"]
    fidx = [f for f, frs in enumerate(inp["frames_of"]) if obs in frs][0]
    st = storages_of(desc)[fidx]            # storage of the file the observed frame is read from
    stall = "+".join(storages_of(desc))
    pk = inp["packs"][fidx]
    if pk is None:
        den, scaled = inp["den"], 0
        su = sv = sT = 1.0
        off = 0.0
        unit_u = unit_v = unit_t = 1.0 / den
    else:
        den, scaled = 1, 1
        su, sv, sT = (float(np.float32(pk[k])) for k in ("u", "v", "temp"))
        off = float(np.float32(pk["off"]))
        unit_u, unit_v, unit_t = su, sv, sT
    SU, SV, ST = inp["SU"][obs], inp["SV"][obs], inp["ST"][obs]
    UF, VF = SU * unit_u, SV * unit_v          # the file's (unpacked) fields, float64
    TF = off + ST * unit_t
    flag = 0 if exact else (2 if (st == "i2") else 1)
    oflag = max(flag, 1) if st != "i2" or exact else 2
    mask = inp["mask"]
    problems = []
    coq = []
    per_sub = []
    for spec in subs:
        tk = TimeKeeper(start=rf.iso(0), stop=rf.iso(1800), dt=600)
        stt = State(instance_variables={"temp": float})
        grid = Grid(filename=names[0], subgrid=None if spec is None else tuple(spec))
        mods = {"time": tk, "state": stt, "grid": grid}
        stt.append(X=np.array(X), Y=np.array(Y), Z=np.array(Z), temp=0.0)
        force = Forcing(mods, filename=str(d / "forcing_*.nc"), extra_forcing=["temp"])
        mods["forcing"] = force
        # another forcing object over OTHER files with the other kind of storage (packed <-> float) comes to life in
        # the same process while this one is in use
        ddir = d / "neighbour"
        ddir.mkdir(exist_ok=True)
        if not (ddir / "other_000.nc").exists():
            main_packed = inp["packs"][0] is not None
            rf.write_roms(ddir / "other_000.nc", imax=imax0, jmax=jmax0, N=N, times=[0, 600, 1200, 1800], h=inp["h"], mask=inp["mask"],
                          u=0.25, v=0.125, extra={"temp": 3.0}, dx=1000.0,
                          packed=None if main_packed else {"u": 2.0 ** -10, "v": 2.0 ** -9, "temp": 2.0 ** -6}, **vertical_setup(desc))
        neighbour = Forcing({"time": tk, "state": stt, "grid": grid}, filename=str(ddir / "other_*.nc"), extra_forcing=["temp"])
        try:
            for s_ in range(obs + 1):
                # before the observed step the particles sit elsewhere (each at its neighbour's position, same
                # depths, same number): what is felt at the observed step belongs to the position held THEN
                if P > 1 and s_ < obs:
                    stt["X"], stt["Y"] = np.roll(np.array(X), 1), np.roll(np.array(Y), 1)
                else:
                    stt["X"], stt["Y"] = np.array(X), np.array(Y)
                tk.update()
                force.update()
            U, V = force.velocity(stt.X, stt.Y, stt.Z)
            U, V = np.array(U, dtype=float), np.array(V, dtype=float)
            uvar, vvar = np.array(force.variables["u"], dtype=float), np.array(force.variables["v"], dtype=float)
            if P > 2:
                # the same through the real Tracker (Euler forward, one step) with the FIRST particle inactive: every
                # other particle that moves must move by ITS OWN velocity (its own position, its own depth bracket)
                from ladim.tracker import Tracker

                tr = Tracker(advection="EF", modules=mods)
                act = np.ones(P, dtype=bool)
                act[0] = False
                stt["active"] = act
                X0, Y0 = np.array(stt.X, dtype=float), np.array(stt.Y, dtype=float)
                mx, my = grid.metric(X0, Y0)
                tr.update()
                X1, Y1 = np.array(stt.X, dtype=float), np.array(stt.Y, dtype=float)
                for n in range(P):
                    moved = X1[n] != X0[n] or Y1[n] != Y0[n]
                    if n == 0 and moved:
                        problems.append(f"inactive particle moved from ({X0[0]},{Y0[0]}) to ({X1[0]},{Y1[0]})")
                    if n > 0 and moved and stt.alive[n]:
                        wx, wy = X0[n] + U[n] * 600.0 / float(mx[n]), Y0[n] + V[n] * 600.0 / float(my[n])
                        if abs(X1[n] - wx) > 1e-9 * (1 + abs(wx)) or abs(Y1[n] - wy) > 1e-9 * (1 + abs(wy)):
                            problems.append(f"tracker moved particle {n} (first particle inactive) from ({X0[n]},{Y0[n]}) depth {Z[n]} to ({X1[n]},{Y1[n]}); "
                                            f"with the velocity interpolated at its own position and depth it goes to ({wx},{wy}): subgrid={spec}")
                            break
                stt["X"], stt["Y"] = X0, Y0
                stt["active"] = np.ones(P, dtype=bool)
                stt["alive"] = np.ones(P, dtype=bool)
            tvar = np.array(force.variables["temp"], dtype=float)
            Kc, Ac = np.array(force.K), np.array(force.A, dtype=float)
            zr = np.array(grid.z_r)
            g = (grid.i0, grid.i1, grid.j0, grid.j1)
            # the level depths the file's vertical set-up denotes in the loaded window (ladim.ROMS.sdepth: C12)
            from ladim.ROMS import sdepth as _sdepth
            from netCDF4 import Dataset as _DS
            with _DS(names[0]) as _nc:
                _hc = float(_nc.variables["hc"].getValue()); _cs = np.array(_nc.variables["Cs_r"][:], dtype=float)
                _vt = int(_nc.variables["Vtransform"].getValue()) if "Vtransform" in _nc.variables else 1
            zr_file = _sdepth(np.asarray(inp["h"], dtype=float)[g[2]:g[3], g[0]:g[1]], _hc, _cs, stagger="rho", Vtransform=_vt)
            if zr.shape != zr_file.shape or not np.allclose(zr, zr_file, rtol=1e-12, atol=1e-9):
                problems.append(f"level depths of the loaded window differ from those the file's vertical set-up (hc={_hc}, Vtransform={_vt}) gives: subgrid={spec}")
        finally:
            for fo in (force, neighbour):
                try:
                    fo.close()
                except Exception:
                    pass
        # the particle's own water column (cell of Grid.depth: round(X) - i0) and its bracket
        KA = [own_level(zr[:, round(Y[n]) - g[2], round(X[n]) - g[0]], Z[n]) for n in range(P)]
        per_sub.append({"spec": spec, "U": U, "V": V, "T": tvar, "K": Kc, "A": Ac})
        head = [flag, imax0, jmax0, N, den, scaled]
        subints = [0, 0, 0, 0, 0] if spec is None else [1] + [int(x) for x in spec]
        c3 = [3] + head + fl(su) + fl(sv) + subints + [P]
        c4 = [4] + [flag if st != "i2" or exact else 2] + head[1:] + fl(sT) + fl(off) + subints + [P]
        for n in range(P):
            K, A = KA[n]
            c3 += fl(X[n]) + fl(Y[n]) + [K] + fl(A) + fl(U[n]) + fl(V[n])
            c4 += fl(X[n]) + fl(Y[n]) + [K] + fl(tvar[n])
            where = f"particle X={X[n]} Y={Y[n]} Z={Z[n]} subgrid={spec} storage={stall} frame {obs} (file {fidx})"
            if int(Kc[n]) != K or not close(1, float(Ac[n]), A):
                problems.append(f"level bracket of the particle's own water column is K={K} A={A}, forcing cached K={int(Kc[n])} A={float(Ac[n])}: {where}")
            wu, wv, nu, nv = spec_velocity(mask, UF, VF, X[n], Y[n], K, A)
            if not (close(oflag, U[n], wu) and close(oflag, V[n], wv)):
                problems.append(f"velocity ({U[n]}, {V[n]}) differs from the interpolation of the file's staggered fields ({wu}, {wv}): {where}")
            if 0 <= A <= 1:
                slack = 1e-6 * (1 + max(abs(x) for x in nu + nv))
                if not (min(nu) - slack <= U[n] <= max(nu) + slack and min(nv) - slack <= V[n] <= max(nv) + slack):
                    problems.append(f"velocity ({U[n]}, {V[n]}) outside the range of the eight surrounding nodes u:{min(nu)}..{max(nu)} v:{min(nv)}..{max(nv)}: {where}")
            if not (U[n] == uvar[n] and V[n] == vvar[n]):
                problems.append(f"forcing.variables u,v ({uvar[n]}, {vvar[n]}) differ from forcing.velocity ({U[n]}, {V[n]}): {where}")
            wt = float(TF[K, round(Y[n]), round(X[n])])
            if not close(oflag, tvar[n], wt):
                problems.append(f"scalar forcing {tvar[n]} is not the value {wt} of the particle's own cell at level {K}: {where}")
            # zero velocity through land faces: land column between the two u-faces / land row between the v-faces
            IF, JF = math.floor(X[n] + 0.5), math.floor(Y[n])
            if mask[JF, IF] == 0 and mask[JF + 1, IF] == 0 and U[n] != 0:
                problems.append(f"u = {U[n]} although all four surrounding u-faces border land: {where}")
            IF, JF = math.floor(X[n]), math.floor(Y[n] + 0.5)
            if mask[JF, IF] == 0 and mask[JF, IF + 1] == 0 and V[n] != 0:
                problems.append(f"v = {V[n]} although all four surrounding v-faces border land: {where}")
            lin = inp["lin"]
            if lin is not None:
                IFu, JFu = math.floor(X[n] + 0.5), math.floor(Y[n])
                seau = all(mask[j, i] == 1 for j in (JFu, JFu + 1) for i in (IFu - 1, IFu, IFu + 1))
                IFv, JFv = math.floor(X[n]), math.floor(Y[n] + 0.5)
                seav = all(mask[j, i] == 1 for j in (JFv - 1, JFv, JFv + 1) for i in (IFv, IFv + 1))
                lu = [2 * unit_u * (lin["au"][obs][k] + lin["bu"] * X[n] + lin["gu"] * Y[n]) for k in (K - 1, K)]
                lv = [2 * unit_v * (lin["av"][obs][k] + lin["bv"] * X[n] + lin["gv"] * Y[n]) for k in (K - 1, K)]
                if seau and not close(oflag, U[n], A * lu[0] + (1 - A) * lu[1]):
                    problems.append(f"linear u-field not reproduced: got {U[n]}, field is {A * lu[0] + (1 - A) * lu[1]}: {where}")
                if seav and not close(oflag, V[n], A * lv[0] + (1 - A) * lv[1]):
                    problems.append(f"linear v-field not reproduced: got {V[n]}, field is {A * lv[0] + (1 - A) * lv[1]}: {where}")
        c3 += [int(v) for v in mask.ravel()] + [int(v) for v in SU.ravel()] + [int(v) for v in SV.ravel()]
        c4 += [int(v) for v in ST.ravel()]
        coq.append(c3)
        coq.append(c4)
    # the same particle under different sub-rectangles
    a = per_sub[0]
    for b in per_sub[1:]:
        for n in range(P):
            same = (a["U"][n] == b["U"][n] and a["V"][n] == b["V"][n] and a["T"][n] == b["T"][n]
                    and int(a["K"][n]) == int(b["K"][n]) and a["A"][n] == b["A"][n])
            if not same and not (close(1, a["U"][n], b["U"][n]) and close(1, a["V"][n], b["V"][n]) and a["T"][n] == b["T"][n]
                                 and int(a["K"][n]) == int(b["K"][n]) and close(1, a["A"][n], b["A"][n])):
                problems.append(f"particle X={X[n]} Y={Y[n]} Z={Z[n]} feels (u,v,temp,K,A)=({a['U'][n]}, {a['V'][n]}, {a['T'][n]}, {int(a['K'][n])}, {a['A'][n]}) "
                                f"with subgrid {a['spec']} but ({b['U'][n]}, {b['V'][n]}, {b['T'][n]}, {int(b['K'][n])}, {b['A'][n]}) with subgrid {b['spec']} (storage={stall}, frame {obs})")
    for f in list(d.glob("*.nc")) + list((d / "neighbour").glob("*.nc")):
        f.unlink()
    kind = f"file-{stall}-{'exact' if exact else 'general'}-{desc['field']}-{desc['mask']}" + ("-file2" if fidx == 1 else "")
    return {"ints": coq, "oracle": problems[0] if problems else None, "nontrivial": ("file", desc["seed"], stall),
            "kind": kind, "observed": {"subgrids": [p["spec"] for p in per_sub], "u": [float(x) for x in per_sub[0]["U"][:3]],
                                       "v": [float(x) for x in per_sub[0]["V"][:3]], "temp": [float(x) for x in per_sub[0]["T"][:3]],
                                       "problems": len(problems)}}


def eval_landrow(desc, ctx):
    """end to end through ladim.main: a release file whose FIRST row lies on land, followed by sea particles at one
    position and different depths in a vertically sheared current, sparse output at every step: each sea particle must be
    displaced by the current interpolated at ITS OWN depth (oracle only)"""
    import run_ladim as rl
    from ladim.ROMS import Grid

    d = ctx.subdir("c02land")
    for f in d.glob("*"):
        f.unlink()
    imax, jmax, N, dt, dx = 12, 9, 4, 600, 1000.0
    mask = np.ones((jmax, imax))
    mask[2, 2] = 0
    ulev = np.array([0.08, 0.16, 0.32, 0.64]) * desc["scale"]
    u = np.broadcast_to(ulev[None, :, None, None], (2, N, jmax, imax - 1)).copy()
    rf.write_roms(d / "f.nc", imax=imax, jmax=jmax, N=N, times=[0, 3600], u=u, v=0.0, h=100.0, mask=mask, dx=dx)
    depths = desc["depths"]
    rf.write_release(d / "r.rls", [[0, 2.0, 2.0, 5.0]] + [[0, 7.0, 5.0, z] for z in depths])
    conf = rf.base_config(start=0, stop=2 * dt, dt=dt, forcing_file=d / "f.nc", release_file=d / "r.rls", out_file=d / "o.nc",
                          advection="EF", output_period=dt, layout=desc["layout"])
    rl.run_main(conf, d)
    recs = rl.read_sparse(d / "o.nc")["records"] if desc["layout"] == "sparse" else None
    g = Grid(filename=str(d / "f.nc"))
    zr = np.asarray(g.z_r, dtype=float)[:, 5 - g.j0, 7 - g.i0]
    problems = []
    if recs is not None and len(recs) >= 2:
        r0, r1 = recs[0], recs[1]
        x0 = {int(q): float(x) for q, x in zip(r0["vars"]["pid"], r0["vars"]["X"])}
        x1 = {int(q): float(x) for q, x in zip(r1["vars"]["pid"], r1["vars"]["X"])}
        for k, z in enumerate(depths):
            q = k + 1
            K, A = own_level(zr, z)
            want = 7.0 + (A * ulev[K - 1] + (1 - A) * ulev[K]) * dt / dx
            if q not in x1:
                problems.append(f"sea particle {q} (depth {z}) is missing from the second record")
            elif abs(x1[q] - want) > 1e-9:
                problems.append(f"sea particle {q} at depth {z} moved from {x0.get(q)} to {x1[q]}; the current at its own depth takes it to {want}")
    else:
        problems.append("no two records to compare")
    return {"ints": None, "oracle": "; ".join(problems[:2]) or None, "nontrivial": ("landrow", desc["layout"], desc["scale"]), "kind": "e2e-land-row",
            "observed": {"depths": depths}}


def eval_case(desc, ctx):
    if desc["k"] == "scale":
        import c02_scale

        return c02_scale.eval_scale_case(desc, ctx)
    if desc["k"] == "order":
        import c02_order

        return c02_order.eval_order_case(desc, ctx)
    if desc["k"] == "landrow":
        return eval_landrow(desc, ctx)
    if desc["k"] == "fbits":
        # the floating-point model of the kernel: the compiled trilinear on eight node values in general position,
        # compared BIT FOR BIT with Model/TrilinearFloat.v (leading 9: Corr/C02All dispatches to Corr/C02F), and an
        # independent exact-rational oracle for the proved error bound 11 u M + 7 eta and the min/max clause
        import c02_float

        r = c02_float.eval_float_case(desc["f"])
        r["ints"] = [9] + [int(x) for x in r["ints"]]
        return r
    if desc["k"] == "s3d":
        return eval_s3d(desc)
    if desc["k"] == "uv":
        return eval_uv(desc)
    return eval_file(desc, ctx)
