"""C03 — forcing in time: generator of frame/file layouts, driver of the real Forcing, oracle.

A case description is the layout dict of c03_impl (dt, start, stop, reversed, files = lists of
[time_seconds, uvalue, scalar_value]) plus `scalar` (an extra forcing field is configured) and `exact`
(values chosen so that every float operation of the update is exact).  A description with key `batch`
holds several such layouts that share one set of forcing files (same frames and file partition, different
start/stop/direction); it expands to one Coq case per layout.
"""
from __future__ import annotations

import itertools
import json
import multiprocessing
import os
import shutil
import traceback
from pathlib import Path

import c03_impl as c3
from coqbridge import fl

PROP = "C03"
THEOREM_FILE = "Props/C03.v"
CHECKER = "Corr.C03"
SHARD = 150
RULE = ("Layouts: 2-9 frames on the model time grid with spacings from 1 step upwards (all-ones, constant, irregular, "
        "long), split into 1-4 files as consecutive blocks incl. one frame per file, run started on a frame or at any "
        "offset between frames and continued to the last frame, forward and reversed, with and without a scalar field; "
        "an exact stream (frame values = cumulative sums of spacing x dyadic slope, so every float operation is exact; "
        "compared with Qeq) and a general stream (random decimal values; tolerance 1e-9). Observed at every step: "
        "velocity at fractions 0, 1/2, 1, variables[u], scalar. Thorough: the complete family of layouts with <= 5 "
        "frames and spacings <= 4 steps, and with 6 frames and spacings <= 3 steps (<= 4 with C03_FULL=1), each split in "
        "every way into <= 3 files, every start offset, both directions. "
        "Non-trivial = a run with at least one hand-over at a frame step after step 0 and a slope change; "
        "key = (spacings, partition, offset, direction, scalar).")
TRUSTED = ["Coq 8.16.1 kernel + vm_compute", "hand-written model coq/Model/ForcingTime.v tied by this correspondence",
           "netCDF4 reading/writing of the synthetic files; uniform fields so that spatial sampling is the identity (glue)",
           "Model/Time.v time2step (tied by C13)"]
ASSUMPTIONS = ["frames lie on the model time grid (start + k*dt) and cover the run; float rounding not modelled",
               "fields are spatially uniform in the correspondence (space is C02's subject)",
               "velocity(fractional_step=f) with 0 < f < 0.001 returns the field at the step itself (stated in "
               "C03_fractional_small); the schemes use f in {0, 1/2, 1}"]
EXHAUSTIVE = {"quick": False, "thorough": True}
FRACTIONS = (0.0, 0.5, 1.0)
DT = 600


# ---------------------------------------------------------------------------------------------
# layouts
# ---------------------------------------------------------------------------------------------
def compositions(m, kmax):
    """all ways to cut m frames into 1..kmax consecutive non-empty blocks (as lists of block sizes)"""
    out = []
    for k in range(1, min(kmax, m) + 1):
        for cuts in itertools.combinations(range(1, m), k - 1):
            b = [0, *cuts, m]
            out.append([b[i + 1] - b[i] for i in range(k)])
    return out


SLOPES = [1, -2, 4, 3, -5, 2, 7, -1, 6, -3, 5, -4]  # distinct neighbours: the slope changes at every frame


def exact_values(spacings, scale=0.25):
    """frame values whose increments are spacing x (integer x scale): dU, u += dU, u + dU/2 are all exact"""
    vals = [3.0]
    for j, sp in enumerate(spacings):
        vals.append(vals[-1] + sp * SLOPES[j % len(SLOPES)] * scale)
    return vals


def make_layout(spacings, parts, offset, rev, uvals, tvals, dt=DT, t0=7200):
    """frames at t0 + dt*cumsum(spacings); the run starts `offset` steps inside the covered window
    (counted from the first frame, from the last when reversed) and goes on to the other end"""
    m = len(spacings) + 1
    times = [t0]
    for sp in spacings:
        times.append(times[-1] + sp * dt)
    span = sum(spacings)
    frames = [[times[j], uvals[j], tvals[j]] for j in range(m)]
    files, k = [], 0
    for n in parts:
        files.append(frames[k:k + n])
        k += n
    if rev:
        start, stop = times[-1] - offset * dt, times[0]
    else:
        start, stop = times[0] + offset * dt, times[-1]
    assert 0 <= offset < span
    return {"dt": dt, "start": start, "stop": stop, "reversed": bool(rev), "files": files}


def family(spacings, parts, scalar, exact, uvals, tvals, offsets=None, dirs=(False, True)):
    span = sum(spacings)
    lays = []
    for rev in dirs:
        for off in (range(span) if offsets is None else offsets):
            lay = make_layout(spacings, parts, off, rev, uvals, tvals)
            lay["key"] = [list(spacings), list(parts), off, int(rev)]
            lays.append(lay)
    return {"batch": lays, "scalar": bool(scalar), "exact": bool(exact)}


# complete family of the thorough tier: (number of frames, largest spacing); C03_FULL=1 takes spacing <= 4
# for 6 frames as well (410 000 more runs of the real code, about 45 minutes on 14 cores)
FAMILY = [(2, 4), (3, 4), (4, 4), (5, 4), (6, 4 if os.environ.get("C03_FULL") == "1" else 3)]
_PENDING = []   # descriptions of the complete family, evaluated by a process pool on first use
_PRE = {}       # bid -> result


def gen_cases(ctx):
    rng = ctx.rng
    out = []
    if not ctx.quick:
        # complete family: every spacing vector, every split into <= 3 files, every offset, both directions
        for m, smax in FAMILY:
            for spacings in itertools.product(range(1, smax + 1), repeat=m - 1):
                uv = exact_values(spacings)
                tv = [10.0 * (j + 1) for j in range(m)]
                for parts in compositions(m, 3):
                    out.append(family(spacings, parts, True, True, uv, tv))
    nrand = 60 if ctx.quick else 600
    shapes = ["ones", "const", "irregular", "irregular", "long", "mixed1"]
    for q in range(nrand):
        m = rng.randint(2, 9)
        shape = shapes[q % len(shapes)]
        if shape == "ones":
            spacings = [1] * (m - 1)
        elif shape == "const":
            spacings = [rng.choice([2, 3, 4, 6])] * (m - 1)
        elif shape == "long":
            spacings = [rng.choice([5, 8, 12, 16]) for _ in range(m - 1)]
        elif shape == "mixed1":
            spacings = [rng.choice([1, 1, 2, 5]) for _ in range(m - 1)]
        else:
            spacings = [rng.randint(1, 7) for _ in range(m - 1)]
        comps = compositions(m, 4)
        parts = rng.choice(comps) if q % 5 else ([1] * m if m <= 4 else rng.choice(comps))
        if q % 7 == 3 and m <= 4:
            parts = [1] * m
        scalar = (q % 4) != 1
        exact = (q % 3) != 2
        if exact:
            uv = exact_values(spacings, scale=rng.choice([0.25, 0.5, 1.0, 0.125]))
            tv = [float(rng.randint(-40, 40)) + 0.5 * j for j in range(m)]
        else:
            uv = [round(rng.uniform(-2, 2), 3) for _ in range(m)]
            tv = [round(rng.uniform(-5, 30), 2) for _ in range(m)]
        span = sum(spacings)
        offs = sorted(set([0, span - 1] + [rng.randrange(span) for _ in range(3 if ctx.quick else 6)]))
        # offsets that start exactly on an inner frame (counted from the first frame / from the last when reversed)
        cum = list(itertools.accumulate(spacings))[:-1] + list(itertools.accumulate(reversed(spacings)))[:-1]
        offs = sorted(set(offs + [c for c in cum if rng.random() < 0.5]))
        out.append(family(spacings, parts, scalar, exact, uv, tv, offsets=offs))
    if not ctx.quick:
        for k, fam in enumerate(out):
            fam["bid"] = k
        _PENDING[:] = out
        _PRE.clear()
    return out


# ---------------------------------------------------------------------------------------------
# evaluation
# ---------------------------------------------------------------------------------------------
def encode(lay, scalar, exact, got):
    ints = [1 if exact else 0, lay["dt"], lay["start"], 1 if lay["reversed"] else 0, 1 if scalar else 0, len(got),
            len(lay["files"])]
    for frames in lay["files"]:
        ints.append(len(frames))
        for t, uv, tv in frames:
            ints += [int(t), *fl(uv), *fl(tv)]
    for row in got:
        for x in row["u"]:
            ints += fl(x)
        ints += fl(row["uvar"])
        ints += fl(row.get("temp", 0.0))
    return ints


def compare(lay, scalar, got, tol):
    """property text (c03_impl.spec) against the observation; None when it holds"""
    want = c3.spec(lay, FRACTIONS)
    if len(got) != len(want):
        return f"{len(got)} steps observed, {len(want)} expected"
    for g, w in zip(got, want):
        for f, a, b in zip(FRACTIONS, g["u"], w["u"]):
            if not abs(a - b) <= tol:
                return (f"step {g['step']}: velocity(fraction {f}) = {a!r}, linear interpolation between the "
                        f"bracketing frames gives {b!r}")
        for f, a, b in zip(FRACTIONS, g["v"], w["v"]):
            if not abs(a - b) <= tol:
                return f"step {g['step']}: v-velocity(fraction {f}) = {a!r}, interpolation gives {b!r}"
        if not abs(g["uvar"] - w["u"][0]) <= tol:
            return f"step {g['step']}: variables[u] = {g['uvar']!r}, interpolation gives {w['u'][0]!r}"
        if scalar and not abs(g["temp"] - w["temp"]) <= tol:
            return f"step {g['step']}: scalar = {g['temp']!r}, latest frame at or before the model time has {w['temp']!r}"
    return None


def nontrivial_key(lay, scalar):
    """a hand-over at a frame step after step 0 inside the run, with a slope change at that frame"""
    frames = [f for fl_ in lay["files"] for f in fl_]
    nsteps = abs(lay["stop"] - lay["start"]) // lay["dt"]
    for j in range(1, len(frames) - 1):
        step = abs(frames[j][0] - lay["start"]) // lay["dt"]
        inside = (frames[j][0] < lay["start"]) if lay["reversed"] else (frames[j][0] > lay["start"])
        s1 = (frames[j][1] - frames[j - 1][1]) / (frames[j][0] - frames[j - 1][0])
        s2 = (frames[j + 1][1] - frames[j][1]) / (frames[j + 1][0] - frames[j][0])
        if inside and 0 < step < nsteps and s1 != s2:
            return json.dumps([lay.get("key") or [lay["start"], lay["stop"], [[f[0] for f in fl_] for fl_ in lay["files"]]],
                               scalar])
    return None


def run_one(d, lay, scalar, exact, files_ready=False):
    got = trace(d, lay, scalar, files_ready)
    tol = 0.0 if exact else 1e-9
    return got, compare(lay, scalar, got, tol)


def trace(d, lay, scalar, files_ready):
    """c03_impl.trace; when the files of this batch are already written only the objects are rebuilt"""
    if not files_ready:
        return c3.trace(d, lay, FRACTIONS, scalar)
    orig = c3.write_layout
    c3.write_layout = lambda dd, layout, dtype="f8": sorted(dd.glob("forcing_*.nc"))
    try:
        return c3.trace(d, lay, FRACTIONS, scalar)
    finally:
        c3.write_layout = orig


_counter = itertools.count()


def _worker(arg):
    desc, root = arg
    try:
        return desc["bid"], evaluate(desc, Path(root) / f"p{os.getpid()}_{desc['bid']}")
    except (Exception, SystemExit) as e:  # noqa: BLE001
        return desc["bid"], {"ints": None, "oracle": f"unexpected exception {type(e).__name__}: {e}",
                             "nontrivial": None, "trace": traceback.format_exc()[-1500:]}


def _precompute(ctx):
    """the complete family is large: evaluate it with a pool of forked workers (each imports the same ladim)"""
    todo = list(_PENDING)
    _PENDING.clear()
    nproc = max(1, min(int(os.environ.get("C03_JOBS", "14")), os.cpu_count() or 1))
    root = ctx.subdir("pool")
    with multiprocessing.get_context("fork").Pool(nproc) as pool:
        for bid, res in pool.imap_unordered(_worker, [(d, str(root)) for d in todo], chunksize=16):
            _PRE[bid] = res


def eval_case(desc, ctx):
    bid = desc.get("bid")
    if bid is not None and _PENDING and not ctx.quick:
        _precompute(ctx)
    if bid is not None and bid in _PRE:
        return _PRE.pop(bid)
    return evaluate(desc, ctx.subdir(f"c03_{next(_counter)}"))


def evaluate(desc, d):
    if "batch" in desc:
        lays, scalar, exact = desc["batch"], desc.get("scalar", True), desc.get("exact", True)
    else:
        lays, scalar, exact = [desc], desc.get("scalar", True), desc.get("exact", True)
    d.mkdir(parents=True, exist_ok=True)
    ints, problems, keys, summary = [], [], [], []
    try:
        for k, lay in enumerate(lays):
            got, bad = run_one(d, lay, scalar, exact, files_ready=k > 0)
            ints.append(encode(lay, scalar, exact, got))
            if bad:
                problems.append(f"layout {json.dumps({k_: v for k_, v in lay.items() if k_ != 'key'})} scalar={scalar}: {bad}")
            key = nontrivial_key(lay, scalar)
            if key:
                keys.append(key)
            if k < 2:
                summary.append({"start": lay["start"], "rev": lay["reversed"],
                                "u": [r["u"] for r in got[:6]], "temp": [r.get("temp") for r in got[:6]]})
    finally:
        shutil.rmtree(d, ignore_errors=True)
    nfiles = len(lays[0]["files"])
    kind = ("exact" if exact else "general") + ("-scalar" if scalar else "-noscalar") + f"-{nfiles}file"
    return {"ints": ints, "oracle": "; ".join(problems[:3]) or None,
            "nontrivial": (tuple(keys) if keys else None), "kind": kind, "observed": summary,
            "layouts": len(lays), "nontrivial_layouts": len(keys)}


def extra_coverage(ctx, results):
    """cases of this property are batches of layouts; report the layout counts as well"""
    return {"layouts_run": sum(r.get("layouts", 0) for r in results),
            "nontrivial_layouts": sum(r.get("nontrivial_layouts", 0) for r in results),
            "complete_family": None if ctx.quick else
            "; ".join(f"{m} frames: spacings 1..{smax}" for m, smax in FAMILY)
            + "; 1..3 files (every split into consecutive blocks), every start offset, both directions"}
