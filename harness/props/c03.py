"""C03 — forcing in time: generator of frame/file layouts, driver of the real Forcing, oracle.

A case description is the layout dict of c03_impl (dt, start, stop, reversed, files = lists of
[time_seconds, uvalue, scalar_value]) plus `scalar` (an extra forcing field is configured) and `exact`
(values chosen so that every float operation of the update is exact).  A description with key `batch`
holds several such layouts that share one set of forcing files (same frames and file partition, different
start/stop/direction); it expands to one Coq case per layout.
"""
from __future__ import annotations

import itertools
import json
import multiprocessing
import os
import shutil
import traceback
from pathlib import Path

import c03_impl as c3
import c03_scale
from coqbridge import fl

PROP = "C03"
THEOREM_FILE = "Props/C03.v"
CHECKER = "Corr.C03"
SHARD = 150
RULE = ("Layouts: 2-9 frames on the model time grid with spacings from 1 step upwards (all-ones, constant, irregular, "
        "long), split into 1-4 files as consecutive blocks incl. one frame per file, run started on a frame or at any "
        "offset between frames and continued to the last frame, forward and reversed, with and without a scalar field; "
        "an exact stream (frame values = cumulative sums of spacing x dyadic slope, so every float operation is exact; "
        "compared with Qeq) and a general stream (random decimal values; tolerance 1e-9). Observed at every step: "
        "velocity at fractions 0, 1/2, 1, variables[u], scalar. Particle schedules: one particle from step 0 on; "
        "state EMPTY for the first m steps (m from 1 to several frame intervals) and a particle released later; "
        "particle removed for a stretch of steps and another released afterwards - Forcing.update runs at every step, "
        "the Coq machine is stepped for all steps and compared on the steps with a particle. Thorough: the complete family of layouts with <= 5 "
        "frames and spacings <= 4 steps, and with 6 frames and spacings <= 3 steps (<= 4 with C03_FULL=1), each split in "
        "every way into <= 3 files, every start offset, both directions. "
        "Scale (every tier, every seed, first in the list; oracle only): c03_scale.scale_cases - 999..20001 model steps between "
        "two frames (around 1000, 1024, 2048, 4096, daily frames at dt = 10 s), a run of > 2^16 steps over 17 files, 1040 frames "
        "in 104 files, 70 000 / 130 000 particles, one run through the real Model with 1025 particles; f8 and f4 files; "
        "the clause is decided at EVERY step (numpy); thorough adds 1100 files, 1500 frames in a file, gaps 40000/70001, 140 000 steps. "
        "Non-trivial = a run with at least one hand-over at a frame step after step 0 and a slope change; "
        "key = (spacings, partition, offset, direction, scalar).")
TRUSTED = ["Coq 8.16.1 kernel + vm_compute", "hand-written model coq/Model/ForcingTime.v tied by this correspondence",
           "netCDF4 reading/writing of the synthetic files; uniform fields so that spatial sampling is the identity (glue)",
           "Model/Time.v time2step (tied by C13)"]
ASSUMPTIONS = ["frames lie on the model time grid (start + k*dt) and cover the run; float rounding not modelled",
               "fields are spatially uniform in the correspondence (space is C02's subject)",
               "velocity(fractional_step=f) with 0 < f < 0.001 returns the field at the step itself (stated in "
               "C03_fractional_small); the schemes use f in {0, 1/2, 1}"]
EXHAUSTIVE = {"quick": False, "thorough": True}
FRACTIONS = (0.0, 0.5, 1.0)
DT = 600


# ---------------------------------------------------------------------------------------------
# layouts
# ---------------------------------------------------------------------------------------------
def compositions(m, kmax):
    """all ways to cut m frames into 1..kmax consecutive non-empty blocks (as lists of block sizes)"""
    out = []
    for k in range(1, min(kmax, m) + 1):
        for cuts in itertools.combinations(range(1, m), k - 1):
            b = [0, *cuts, m]
            out.append([b[i + 1] - b[i] for i in range(k)])
    return out


SLOPES = [1, -2, 4, 3, -5, 2, 7, -1, 6, -3, 5, -4]  # distinct neighbours: the slope changes at every frame


def exact_values(spacings, scale=0.25):
    """frame values whose increments are spacing x (integer x scale): dU, u += dU, u + dU/2 are all exact"""
    vals = [3.0]
    for j, sp in enumerate(spacings):
        vals.append(vals[-1] + sp * SLOPES[j % len(SLOPES)] * scale)
    return vals


def make_layout(spacings, parts, offset, rev, uvals, tvals, dt=DT, t0=7200):
    """frames at t0 + dt*cumsum(spacings); the run starts `offset` steps inside the covered window
    (counted from the first frame, from the last when reversed) and goes on to the other end"""
    m = len(spacings) + 1
    times = [t0]
    for sp in spacings:
        times.append(times[-1] + sp * dt)
    span = sum(spacings)
    frames = [[times[j], uvals[j], tvals[j]] for j in range(m)]
    files, k = [], 0
    for n in parts:
        files.append(frames[k:k + n])
        k += n
    if rev:
        start, stop = times[-1] - offset * dt, times[0]
    else:
        start, stop = times[0] + offset * dt, times[-1]
    assert 0 <= offset < span
    return {"dt": dt, "start": start, "stop": stop, "reversed": bool(rev), "files": files}


def family(spacings, parts, scalar, exact, uvals, tvals, offsets=None, dirs=(False, True)):
    span = sum(spacings)
    lays = []
    for rev in dirs:
        for off in (range(span) if offsets is None else offsets):
            lay = make_layout(spacings, parts, off, rev, uvals, tvals)
            lay["key"] = [list(spacings), list(parts), off, int(rev)]
            lays.append(lay)
    return {"batch": lays, "scalar": bool(scalar), "exact": bool(exact)}


# complete family of the thorough tier: (number of frames, largest spacing); C03_FULL=1 takes spacing <= 4
# for 6 frames as well (410 000 more runs of the real code, about 45 minutes on 14 cores)
FAMILY = [(2, 4), (3, 4), (4, 4), (5, 4), (6, 4 if os.environ.get("C03_FULL") == "1" else 3)]
_PENDING = []   # descriptions of the complete family, evaluated by a process pool on first use
_PRE = {}       # bid -> result


def gen_cases(ctx):
    rng = ctx.rng
    # realistic size first: deterministic, independent of the seed (c03_scale.py)
    scale = c03_scale.scale_cases(thorough=not ctx.quick)
    out = []
    if not ctx.quick:
        # complete family: every spacing vector, every split into <= 3 files, every offset, both directions
        for m, smax in FAMILY:
            for spacings in itertools.product(range(1, smax + 1), repeat=m - 1):
                uv = exact_values(spacings)
                tv = [10.0 * (j + 1) for j in range(m)]
                for parts in compositions(m, 3):
                    out.append(family(spacings, parts, True, True, uv, tv))
    nrand = 60 if ctx.quick else 600
    shapes = ["ones", "const", "irregular", "irregular", "long", "mixed1"]
    for q in range(nrand):
        m = rng.randint(2, 9)
        shape = shapes[q % len(shapes)]
        if shape == "ones":
            spacings = [1] * (m - 1)
        elif shape == "const":
            spacings = [rng.choice([2, 3, 4, 6])] * (m - 1)
        elif shape == "long":
            spacings = [rng.choice([5, 8, 12, 16]) for _ in range(m - 1)]
        elif shape == "mixed1":
            spacings = [rng.choice([1, 1, 2, 5]) for _ in range(m - 1)]
        else:
            spacings = [rng.randint(1, 7) for _ in range(m - 1)]
        comps = compositions(m, 4)
        parts = rng.choice(comps) if q % 5 else ([1] * m if m <= 4 else rng.choice(comps))
        if q % 7 == 3 and m <= 4:
            parts = [1] * m
        scalar = (q % 4) != 1
        exact = (q % 3) != 2
        if exact:
            uv = exact_values(spacings, scale=rng.choice([0.25, 0.5, 1.0, 0.125]))
            tv = [float(rng.randint(-40, 40)) + 0.5 * j for j in range(m)]
        else:
            uv = [round(rng.uniform(-2, 2), 3) for _ in range(m)]
            tv = [round(rng.uniform(-5, 30), 2) for _ in range(m)]
        span = sum(spacings)
        offs = sorted(set([0, span - 1] + [rng.randrange(span) for _ in range(3 if ctx.quick else 6)]))
        # offsets that start exactly on an inner frame (counted from the first frame / from the last when reversed)
        cum = list(itertools.accumulate(spacings))[:-1] + list(itertools.accumulate(reversed(spacings)))[:-1]
        offs = sorted(set(offs + [c for c in cum if rng.random() < 0.5]))
        # u and v vary independently: one of them steady (identical in all frames) while the other changes
        vv = None
        if q % 6 == 4:
            vv, uv = [2 * x - 1 for x in uv], [uv[0]] * m
        elif q % 6 == 1:
            vv = [0.75] * m
        elif q % 6 == 3:
            vv = [2.0 - 3 * x for x in uv]  # affine images keep the exactness of the increments
        fam = family(spacings, parts, scalar, exact, uv, tv, offsets=offs)
        for k, lay in enumerate(fam["batch"]):
            if vv is not None:
                lay["vvals"] = vv
            nst = abs(lay["stop"] - lay["start"]) // lay["dt"]
            pres = schedule(rng, nst, ["late", "always", "gap", "late"][(q + k) % 4])
            if pres:
                lay["present"] = pres
                # every other late-release layout is driven through the real Model (main loop, release module)
                if 1 in pres and pres == [0] * pres.index(1) + [1] * (len(pres) - pres.index(1)) and (q + k) % 2 == 0:
                    lay["via_model"] = True
        out.append(fam)
    if not ctx.quick:
        for k, fam in enumerate(out):
            fam["bid"] = k
        _PENDING[:] = out
        _PRE.clear()
    return scale + out


# ---------------------------------------------------------------------------------------------
# evaluation
# ---------------------------------------------------------------------------------------------
def encode(lay, scalar, exact, got):
    ints = [1 if exact else 0, lay["dt"], lay["start"], 1 if lay["reversed"] else 0, 1 if scalar else 0, len(got),
            len(lay["files"])]
    for frames in lay["files"]:
        ints.append(len(frames))
        for t, uv, tv in frames:
            ints += [int(t), *fl(uv), *fl(tv)]
    for row in got:
        if row.get("absent"):
            ints += [0] + [0, 1] * 5
            continue
        ints.append(1)
        for x in row["u"]:
            ints += fl(x)
        ints += fl(row["uvar"])
        ints += fl(row.get("temp", 0.0))
    return ints


def compare(lay, scalar, got, tol):
    """property text (c03_impl.spec) against the observation; None when it holds"""
    want = c3.spec(lay, FRACTIONS)
    if len(got) != len(want):
        return f"{len(got)} steps observed, {len(want)} expected"
    for g, w in zip(got, want):
        if g.get("absent"):  # no particle alive: nothing is in force on anything at this step
            continue
        for f, a, b in zip(FRACTIONS, g["u"], w["u"]):
            if not abs(a - b) <= tol:
                return (f"step {g['step']}: velocity(fraction {f}) = {a!r}, linear interpolation between the "
                        f"bracketing frames gives {b!r}")
        for f, a, b in zip(FRACTIONS, g["v"], w["v"]):
            if not abs(a - b) <= tol:
                return f"step {g['step']}: v-velocity(fraction {f}) = {a!r}, interpolation gives {b!r}"
        if not abs(g["uvar"] - w["u"][0]) <= tol:
            return f"step {g['step']}: variables[u] = {g['uvar']!r}, interpolation gives {w['u'][0]!r}"
        if scalar and not abs(g["temp"] - w["temp"]) <= tol:
            return f"step {g['step']}: scalar = {g['temp']!r}, latest frame at or before the model time has {w['temp']!r}"
    return None


def nontrivial_key(lay, scalar):
    """a hand-over at a frame step after step 0 inside the run, with a slope change at that frame"""
    frames = [f for fl_ in lay["files"] for f in fl_]
    nsteps = abs(lay["stop"] - lay["start"]) // lay["dt"]
    for j in range(1, len(frames) - 1):
        step = abs(frames[j][0] - lay["start"]) // lay["dt"]
        inside = (frames[j][0] < lay["start"]) if lay["reversed"] else (frames[j][0] > lay["start"])
        s1 = (frames[j][1] - frames[j - 1][1]) / (frames[j][0] - frames[j - 1][0])
        s2 = (frames[j + 1][1] - frames[j][1]) / (frames[j + 1][0] - frames[j][0])
        if inside and 0 < step < nsteps and s1 != s2:
            return json.dumps([lay.get("key") or [lay["start"], lay["stop"], [[f[0] for f in fl_] for fl_ in lay["files"]]],
                               scalar, lay.get("present")])
    return None


def run_one(d, lay, scalar, exact, files_ready=False):
    got = trace_via_model(d, lay, scalar, files_ready) if lay.get("via_model") else trace(d, lay, scalar, files_ready)
    tol = 0.0 if exact else 1e-9
    return got, compare(lay, scalar, got, tol)


def trace(d, lay, scalar, files_ready):
    """c03_impl.trace extended with a particle schedule: lay["present"][n] tells whether a particle is alive at
    step n (default: one particle from step 0 on).  Forcing.update runs at every step as in Model.update; on
    steps without a particle nothing can be sampled and the row is marked absent.  The files of a batch are
    written once."""
    import numpy as np
    import romsfiles as rf
    from ladim.ROMS import Forcing, Grid
    from ladim.state import State
    from ladim.timekeeper import TimeKeeper

    names = sorted(d.glob("forcing_*.nc")) if files_ready else c3.write_layout(d, lay)
    tk = TimeKeeper(start=rf.iso(lay["start"]), stop=rf.iso(lay["stop"]), dt=lay["dt"],
                    time_reversal=bool(lay["reversed"]))
    st = State(instance_variables={"temp": float} if scalar else None)
    grid = Grid(filename=names[0])
    mods = {"time": tk, "state": st, "grid": grid}
    present = lay.get("present") or [1] * tk.Nsteps

    def release():
        st.append(X=np.array([2.25]), Y=np.array([2.5]), Z=np.array([10.0]), **({"temp": 0.0} if scalar else {}))

    if present[0]:
        release()
    force = Forcing(mods, filename=str(d / "forcing_*.nc"), extra_forcing=["temp"] if scalar else None)
    mods["forcing"] = force
    out = []
    try:
        for n in range(tk.Nsteps):
            tk.update()
            want = bool(present[n]) if n < len(present) else True
            if want and len(st) == 0:
                release()
            elif not want and len(st) > 0:
                st["alive"] = np.zeros(len(st), dtype=bool)
                st.compactify()
            force.update()
            if not want:
                out.append({"step": n, "absent": True})
                continue
            row = {"step": n, "u": [], "v": []}
            for f in FRACTIONS:
                U, V = force.velocity(st.X, st.Y, st.Z, fractional_step=f)
                row["u"].append(float(U[0]))
                row["v"].append(float(V[0]))
            row["uvar"] = float(force.variables["u"][0])
            if scalar:
                row["temp"] = float(force.variables["temp"][0])
            out.append(row)
    finally:
        try:
            force.close()
        except Exception:  # noqa: BLE001
            pass
    return out


def trace_via_model(d, lay, scalar, files_ready):
    """the same observations through the REAL ladim.model.Model (configuration dictionary, built-in grid / forcing /
    release / tracker / output modules, the main loop's `model.update()`): the first particle is released at the
    first step of the schedule that has one (schedules 0..0 1..1 only), no advection, so that the steps before it run
    with an empty state exactly as a simulation with a late first release does"""
    import run_ladim as rl
    import romsfiles as rf

    names = sorted(d.glob("forcing_*.nc")) if files_ready else c3.write_layout(d, lay)
    present = lay["present"]
    first = present.index(1)
    sg = -1 if lay["reversed"] else 1
    rf.write_release(d / "late.rls", [[lay["start"] + sg * first * lay["dt"], 2.25, 2.5, 10.0]])
    conf = rf.base_config(start=lay["start"], stop=lay["stop"], dt=lay["dt"], forcing_file=d / "forcing_*.nc", grid_file=names[0],
                          release_file=d / "late.rls", out_file=d / "model_out.nc", advection="", time_reversal=bool(lay["reversed"]),
                          instance_variables=("pid", "X", "Y", "Z") + (("temp",) if scalar else ()))
    if scalar:
        conf["state"] = {"instance_variables": {"temp": "float"}, "default_values": {"temp": 0.0}}
        conf["forcing"]["extra_forcing"] = ["temp"]
    out = []

    def per_step(model, n):
        st, force = model.state, model.force
        if len(st) == 0:
            out.append({"step": n, "absent": True})
            return
        row = {"step": n, "u": [], "v": []}
        for f in FRACTIONS:
            U, V = force.velocity(st.X, st.Y, st.Z, fractional_step=f)
            row["u"].append(float(U[0]))
            row["v"].append(float(V[0]))
        row["uvar"] = float(force.variables["u"][0])
        if scalar:
            row["temp"] = float(force.variables["temp"][0])
        out.append(row)

    rl.run_conf(conf, per_step=per_step)
    (d / "model_out.nc").unlink(missing_ok=True)
    return out


def schedule(rng, nsteps, kind):
    """particle schedules: empty for the first m steps, or present / removed for a stretch / released again"""
    if nsteps < 2 or kind == "always":
        return None
    if kind == "late":
        m = rng.randint(1, nsteps - 1)
        return [0] * m + [1] * (nsteps - m)
    a = rng.randint(1, nsteps - 1)          # first step without a particle
    b = rng.randint(a + 1, max(a + 1, nsteps - 1))   # first step with a particle again (none when b = nsteps)
    return [1] * a + [0] * (b - a) + [1] * (nsteps - b)


_counter = itertools.count()


def _worker(arg):
    desc, root = arg
    try:
        return desc["bid"], evaluate(desc, Path(root) / f"p{os.getpid()}_{desc['bid']}")
    except (Exception, SystemExit) as e:  # noqa: BLE001
        return desc["bid"], {"ints": None, "oracle": f"unexpected exception {type(e).__name__}: {e}",
                             "nontrivial": None, "trace": traceback.format_exc()[-1500:]}


def _precompute(ctx):
    """the complete family is large: evaluate it with a pool of forked workers (each imports the same ladim)"""
    todo = list(_PENDING)
    _PENDING.clear()
    nproc = max(1, min(int(os.environ.get("C03_JOBS", "14")), os.cpu_count() or 1))
    root = ctx.subdir("pool")
    with multiprocessing.get_context("fork").Pool(nproc) as pool:
        for bid, res in pool.imap_unordered(_worker, [(d, str(root)) for d in todo], chunksize=16):
            _PRE[bid] = res


def eval_case(desc, ctx):
    if "scale" in desc:
        return c03_scale.eval_scale(desc, ctx.subdir(f"c03_scale_{next(_counter)}"))
    bid = desc.get("bid")
    if bid is not None and _PENDING and not ctx.quick:
        _precompute(ctx)
    if bid is not None and bid in _PRE:
        return _PRE.pop(bid)
    return evaluate(desc, ctx.subdir(f"c03_{next(_counter)}"))


def evaluate(desc, d):
    if "batch" in desc:
        lays, scalar, exact = desc["batch"], desc.get("scalar", True), desc.get("exact", True)
    else:
        lays, scalar, exact = [desc], desc.get("scalar", True), desc.get("exact", True)
    d.mkdir(parents=True, exist_ok=True)
    ints, problems, keys, summary = [], [], [], []
    try:
        for k, lay in enumerate(lays):
            got, bad = run_one(d, lay, scalar, exact, files_ready=k > 0)
            ints.append(encode(lay, scalar, exact, got))
            if bad:
                problems.append(f"layout {json.dumps({k_: v for k_, v in lay.items() if k_ != 'key'})} scalar={scalar}: {bad}")
            key = nontrivial_key(lay, scalar)
            if key:
                keys.append(key)
            if k < 2:
                summary.append({"start": lay["start"], "rev": lay["reversed"],
                                "present": lay.get("present"),
                                "u": [r.get("u") for r in got[:6]], "temp": [r.get("temp") for r in got[:6]]})
    finally:
        shutil.rmtree(d, ignore_errors=True)
    nfiles = len(lays[0]["files"])
    kind = ("exact" if exact else "general") + ("-scalar" if scalar else "-noscalar") + f"-{nfiles}file"
    if any(lay.get("present") for lay in lays):
        kind += "-emptysteps"
    return {"ints": ints, "oracle": "; ".join(problems[:3]) or None,
            "nontrivial": (tuple(keys) if keys else None), "kind": kind, "observed": summary,
            "layouts": len(lays), "nontrivial_layouts": len(keys)}


def extra_coverage(ctx, results):
    """cases of this property are batches of layouts; report the layout counts as well"""
    return {"layouts_run": sum(r.get("layouts", 0) for r in results),
            "nontrivial_layouts": sum(r.get("nontrivial_layouts", 0) for r in results),
            "complete_family": None if ctx.quick else
            "; ".join(f"{m} frames: spacings 1..{smax}" for m, smax in FAMILY)
            + "; 1..3 files (every split into consecutive blocks), every start offset, both directions"}
