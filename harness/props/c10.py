"""C10 — backward tracking = forward tracking in the time-mirrored, sign-flipped flow."""
from __future__ import annotations

import numpy as np

import c10_scale as sc
import romsfiles as rf
import run_ladim as rl
import setup_impl as su
import sim_impl as si

PROP = "C10"
THEOREM_FILE = "Props/C10.v"
CHECKER = "Corr.SysRun"
SHARD = 6
RULE = ("Paired real runs through ladim.main.main: a time-reversed run from S and the forward run over the mirrored time "
        "axis with sign-flipped velocity frames and mirrored release times. (a) EF scenarios with a frame at every step "
        "(depth-dependent, time-varying current, deaths, late releases): both runs compared exactly with the same "
        "executable Sim instance in Coq; (b) general layouts (several forcing files, irregular frame spacing, EF/RK2/RK4, "
        "discrete and continuous release): record-for-record comparison by the oracle, time coordinate S - n*dt, "
        "each release at its stated time. Non-trivial = velocity changes in time and at least two release times. "
        "(c) a fixed family of SCALE pairs (c10_scale: release tables of 1025 ... 130000 rows partly outside the window, "
        "large multiplicities, 600 release times over > 1000 steps with frames 1024 steps apart in 14 files, continuous "
        "release of thousands of rows), decided by an exact oracle on the whole output arrays of both runs.")
TRUSTED = ["Coq 8.16.1 kernel + vm_compute", "time/mirror lemmas about coq/Model/Time.v; system model coq/Model/Sim.v with its executable instance tied by this correspondence"]
ASSUMPTIONS = ["the reversed and the mirrored forward set-up compile to the same step-indexed environment (C03/C04/C13 component theorems + mirror lemmas)"]


def gen_cases(ctx):
    rng = ctx.rng
    # the scale family comes first and is fixed (not drawn from rng): see c10_scale.CASES
    out = sc.gen_scale_cases(quick=ctx.quick)
    for _ in range(6 if ctx.quick else 60):
        out.append({"k": "mirror-ef", "env": si.make_env(rng), "seed": rng.randrange(10**6)})
    for _ in range(8 if ctx.quick else 80):
        N = rng.randint(4, 12)
        steps = sorted(set([0, N] + [rng.randint(1, N - 1) for _ in range(rng.randint(0, 4))]))
        if rng.random() < 0.3:
            steps = list(range(N + 1))
        nfiles = rng.randint(1, min(3, len(steps)))
        cuts = sorted(rng.sample(range(1, len(steps)), nfiles - 1)) if nfiles > 1 else []
        rel = sorted({0} | {rng.randint(0, N - 1) for _ in range(rng.randint(0, 3))})
        out.append({"k": "mirror-general", "N": N, "frames": steps, "cuts": cuts, "adv": rng.choice(["EF", "RK2", "RK4"]),
                    "u": [[rng.choice([0.0, 0.5, 1.0, -0.5, 1.5]) for _ in range(si.NLEV)] for _ in steps],
                    "rel": rel, "continuous": rng.choice([0, 0, 1, 2]), "p": rng.choice([1, 2]), "seed": rng.randrange(10**6),
                    "offgrid": rng.random() < 0.4})
    # whole set-ups (Model/Setup.v): the run and the run of the mirrored files / table / clock, both against the
    # model compiled in Coq from the description of the files (and against Setup.mirror_setup of the description)
    for q in range(6 if ctx.quick else 60):
        out.append({"k": "setup", "setup": su.gen_setup(rng, rev=(q % 3 != 2)), "seed": rng.randrange(10**6)})
    return out


def eval_case(desc, ctx):
    d = ctx.subdir("c10")
    for f in d.glob("*"):
        f.unlink()
    if desc["k"] == "scale":
        return sc.eval_scale(desc, d)
    if desc["k"] == "setup":
        cases, problems, nt = su.eval_setup(desc["setup"], d, [(1, 0)])
        return {"ints": cases, "oracle": "; ".join(problems[:3]) or None, "nontrivial": (desc["seed"], "setup") if nt else None,
                "kind": "setup-mirror-" + ("rev" if desc["setup"]["rev"] else "fwd"), "observed": {"frames": desc["setup"]["fsteps"], "adv": su.ADV[int(desc["setup"].get("adv", 0))]}}
    if desc["k"] == "mirror-ef":
        env = desc["env"]
        fwd, _, _ = si.run_forward(d, env, "fwd")
        rev, S = si.run_reversed(d, env, "rev")
        ints = [0] + si.enc_env(env) + [2] + si.enc_run(0, 0, fwd) + si.enc_run(0, 0, rev)
        problems = compare(fwd, rev, S, 50000)
        nt = (desc["seed"],) if len({r[0] for r in env["rows"]}) > 1 and len({tuple(u) for u in env["utab"]}) > 1 else None
        return {"ints": ints, "oracle": "; ".join(problems[:3]) or None, "nontrivial": nt, "kind": "mirror-ef",
                "observed": {"records": len(rev)}}
    return eval_general(desc, d)


def compare(fwd, rev, S, t0):
    problems = []
    if len(fwd) != len(rev):
        problems.append(f"reversed run wrote {len(rev)} records, mirrored forward run {len(fwd)}")
    for a, b in zip(fwd, rev):
        if b["time"] != S - a["step"] * si.DT:
            problems.append(f"reversed record {a['step']}: time coordinate {b['time']}, expected S - n*dt = {S - a['step'] * si.DT}")
        ra = [(q, x, ag) for q, x, ag, _ in a["rows"]]; rb = [(q, x, ag) for q, x, ag, _ in b["rows"]]
        if len(ra) != len(rb) or any(p[0] != q[0] or abs(p[1] - q[1]) > 1e-12 or p[2] != q[2] for p, q in zip(ra, rb)):
            problems.append(f"record {a['step']}: reversed run {rb} != mirrored forward run {ra}")
    return problems


def eval_general(desc, d):
    N, frames, cuts, adv = desc["N"], desc["frames"], desc["cuts"], desc["adv"]
    DT = si.DT
    t0, S = 50000, 90000
    # interior frames may lie half a step off the model time grid (their step is the floor in both set-ups)
    off = [DT // 2 if (desc.get("offgrid") and 0 < i < len(frames) - 1) else 0 for i in range(len(frames))]
    bounds = [0] + cuts + [len(frames)]
    # forward set-up: frames at t0 + s*dt with value u; reversed: frames at S - s*dt with value -u
    for k in range(len(bounds) - 1):
        idx = list(range(bounds[k], bounds[k + 1]))
        si.write_forcing(d, f"ff_{k:02d}.nc", [t0 + frames[i] * DT + off[i] for i in idx], [desc["u"][i] for i in idx], [[1.0] * si.NLEV for _ in idx])
    ridx = list(range(len(frames)))[::-1]  # ascending time for the reversed axis
    rb = [0] + [len(frames) - c for c in cuts[::-1]] + [len(frames)]
    for k in range(len(rb) - 1):
        idx = ridx[rb[k]:rb[k + 1]]
        si.write_forcing(d, f"fr_{k:02d}.nc", [S - frames[i] * DT - off[i] for i in idx], [[-x for x in desc["u"][i]] for i in idx], [[1.0] * si.NLEV for _ in idx])
    rel = desc["rel"]
    rows_f = [[t0 + s * DT, 3.0 + 0.25 * j, 4.0, si.ZCLS[j % 3]] for j, s in enumerate(rel)]
    rows_r = [[S - s * DT, 3.0 + 0.25 * j, 4.0, si.ZCLS[j % 3]] for j, s in enumerate(rel)]
    rf.write_release(d / "rf.rls", rows_f); rf.write_release(d / "rr.rls", rows_r)
    env = {"p": desc["p"], "life": -1}
    cf = si.config(d, env, t0, t0 + N * DT, "of.nc", "rf.rls", "ff_*.nc", adv=adv)
    cr = si.config(d, env, S, S - N * DT, "or.nc", "rr.rls", "fr_*.nc", rev=True, adv=adv)
    for c in (cf, cr):
        c["grid"]["filename"] = str(d / ("ff_00.nc"))
        if desc["continuous"]:
            c["release"]["continuous"] = True
            c["release"]["release_frequency"] = desc["continuous"] * DT
    rl.run_main(cf, d); rl.run_main(cr, d)
    fwd = si.records([d / "of.nc"], t0); rev = si.records([d / "or.nc"], S, rev=True)
    problems = compare(fwd, rev, S, t0)
    # each release happens at its stated time (discrete mode): first appearance of pid j at step rel[j]
    if not desc["continuous"]:
        first = {}
        for r in rev:
            for q, *_ in r["rows"]:
                first.setdefault(q, r["step"])
        for j, s in enumerate(rel):
            due = -(-s // desc["p"]) * desc["p"]
            if due < N and first.get(j) != due and any(r["step"] == due for r in rev):
                problems.append(f"reversed run: particle of release row {j} (step {s}) first seen at step {first.get(j)}, expected in the record of step {due}")
    nt = (desc["seed"],) if len(rel) > 1 and len({tuple(u) for u in desc["u"]}) > 1 else None
    return {"ints": None, "oracle": "; ".join(problems[:3]) or None, "nontrivial": nt,
            "kind": f"mirror-general-{adv}-{len(bounds) - 1}files", "observed": {"records": len(rev)}}
