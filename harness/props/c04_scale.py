"""C04 at scale — release accounting for long / large releases (oracle only, too large for Coq literals).

The generated cases of c04.py are small (<= 9 steps, <= 4 file times, <= 3 rows per time, mult <= 5).  The cases of
this module drive the SAME real objects (ParticleReleaser + TimeKeeper + State, stepped `timer.update();
[state.compactify();] release.update()`) through release tables of realistic size:

  * long continuous releases (1000 ... 10000 release ticks, counted from the first file time; frequency dt, 2dt, 3dt),
    first file time long before the start of the window (late in the life of the release),
  * many file times (> 1000), many rows per file time (thousands), large mult (tens of thousands per row),
  * discrete tables with thousands of distinct release times, or tens of thousands of rows at one time,
  * forward and reversed, with and without periodic death of everything (removal before the next release).

The table is a deterministic function of a few parameters (so the case description stays small); every row carries
its own index in an integer column (`origin`), so that which row produced which particle, and in which order, is
decided exactly.  All values are dyadic: the release logic only moves them, comparisons are exact.

The oracle states the property for every step and every particle of the case, computed with numpy from the table:
number of particles entering per step, their pids, row of origin (order), position, extra values, release time.
"""
from __future__ import annotations

import numpy as np

import romsfiles as rf

EPOCH = rf.EPOCH
EXTRA_STEPS = 2
T0 = 5000 * 3600  # anchor of the start times, seconds after EPOCH


def _case(name, **kw):
    d = {"k": "scale", "name": name, "dt": 3600, "nsteps": 10, "rem": 0, "rev": False, "cont": True, "fmul": 1,
         "first_off": 0, "nf": 1, "gaps": [1], "rpt": [1], "mult": [1], "has_mult": True, "has_rt": True,
         "kill_every": 0, "pos": "xy", "header": "file"}
    d.update(kw)
    return d


def scale_cases(quick=True):
    """the fixed family.  The real releaser spends about 3 ms per release step (pandas), so in the quick tier only one
    long release is stepped from its first tick to the end; the others are windows of 30-160 steps placed late in the
    life of a long release (the expansion of the whole release from the first file time is still done by the code).
    The thorough tier steps releases of 4097, 5000 and 10000 ticks in full."""
    out = []
    # -- one long continuous release stepped in full: > 1000 release ticks, > 2000 steps, with deaths -------------
    out.append(_case("continuous-1040-ticks-freq-2dt-deaths", nsteps=2 * 1040, fmul=2, dt=1800, nf=3, gaps=[500, 510],
                     rpt=[3, 2, 4], mult=[1, 2, 1, 0, 1, 1, 3], kill_every=64))
    # -- late in the life of the release: the first file time lies far before the start of the window ---------
    out.append(_case("continuous-window-at-ticks-960-1080", nsteps=120, first_off=-960, dt=600, nf=3, gaps=[20, 1010],
                     rpt=[2, 3, 2], mult=[1, 2, 0, 5, 1]))
    out.append(_case("continuous-window-at-ticks-4060-4140-freq-2dt", nsteps=160, fmul=2, first_off=-2 * 4060, dt=60,
                     nf=2, gaps=[4100], rpt=[4, 3], mult=[1, 2, 1, 1]))
    out.append(_case("continuous-window-at-ticks-9980-10040-reversed", nsteps=60, first_off=-9980, rev=True, nf=3,
                     gaps=[5000, 5010], rpt=[2, 3, 2], mult=[1, 1, 2], header="names"))
    out.append(_case("continuous-window-at-ticks-19990-20050-reversed-lonlat-freq-3dt", nsteps=180, fmul=3, dt=300,
                     first_off=-3 * 19990, rev=True, nf=1, rpt=[5], mult=[1, 0, 2, 1, 1], pos="lonlat"))
    out.append(_case("continuous-window-at-ticks-40000-40040-no-mult-column", nsteps=40, dt=7, first_off=-40000, nf=2,
                     gaps=[40020], rpt=[3, 4], has_mult=False))
    out.append(_case("continuous-window-at-ticks-130000-130040", nsteps=40, dt=60, first_off=-130000, nf=40,
                     gaps=[3333], rpt=[1, 2, 3], mult=[1, 1, 2, 1]))
    # -- many file times --------------------------------------------------------------------------------------
    out.append(_case("continuous-1500-file-times-window-at-ticks-2000-2150", nsteps=150, first_off=-2000, dt=1200,
                     nf=1500, gaps=[1, 2], rpt=[2, 1, 3], mult=[1, 2, 1, 1, 0]))
    out.append(_case("discrete-4097-release-times-window-of-the-last-200-steps", cont=False, nsteps=200, dt=600,
                     first_off=-4950, nf=4097, gaps=[1, 1, 2, 1], rpt=[1, 2, 3], mult=[1, 2, 1, 0, 5]))
    # -- many rows per time, large mult -----------------------------------------------------------------------
    out.append(_case("continuous-3000-rows-per-time", nsteps=12, nf=2, gaps=[5], rpt=[3000, 2500], mult=[1, 2, 0, 1, 3]))
    out.append(_case("continuous-mult-20000-45000", nsteps=2, nf=1, rpt=[2], mult=[20000, 45000], has_rt=False))
    out.append(_case("discrete-70000-rows-at-one-time", cont=False, nsteps=20, first_off=2, nf=2, gaps=[10],
                     rpt=[70000, 20000], mult=[1, 2, 0, 1, 5, 1, 3]))
    out.append(_case("discrete-mult-130000", cont=False, nsteps=6, first_off=1, nf=2, gaps=[3], rpt=[3, 1],
                     mult=[130000, 1, 40000, 4097]))
    if quick:
        return out
    # -- thorough tier: long releases stepped in full -------------------------------------------------------------
    for ticks in (1000, 1024, 1025):
        out.append(_case(f"continuous-{ticks}-ticks", nsteps=ticks, nf=2, gaps=[ticks // 2 + 7], rpt=[3, 2],
                         mult=[1, 2, 0, 5, 1], dt=600))
    out.append(_case("continuous-2050-ticks-freq-3dt-reversed", nsteps=3 * 2050, fmul=3, dt=60, rev=True, nf=3,
                     gaps=[700, 1100], rpt=[2, 4, 3], mult=[2, 1, 1, 3]))
    out.append(_case("continuous-4097-ticks-freq-2dt-deaths", nsteps=2 * 4097, fmul=2, dt=1800, nf=5,
                     gaps=[1000, 1024, 1025, 500], rpt=[3, 1, 4, 2], mult=[1, 2, 1, 0, 1, 1, 3], kill_every=64))
    out.append(_case("continuous-5000-ticks-reversed", nsteps=5000, rev=True, nf=3, gaps=[2048, 2049], rpt=[2, 3, 2],
                     mult=[1, 1, 2], header="names"))
    out.append(_case("continuous-10000-ticks-40-file-times", nsteps=10000, dt=900, nf=40, gaps=[250], rpt=[1, 2, 3],
                     mult=[1, 1, 2, 1]))
    out.append(_case("discrete-4097-release-times", cont=False, nsteps=5000, dt=600, first_off=-3, nf=4097,
                     gaps=[1, 1, 2, 1], rpt=[1, 2, 3], mult=[1, 2, 1, 0, 5]))
    out.append(_case("discrete-1025-release-times-reversed-deaths", cont=False, nsteps=2100, rem=17, dt=60, rev=True,
                     first_off=0, nf=1025, gaps=[2, 3, 1], rpt=[2, 1], mult=[1, 3], kill_every=100))
    return out


def e2e_case():
    """a description in the format of c04.gen_e2e: a whole model run (Model.update loop, output file) whose window of
    60 steps starts 5000 release ticks after the first file time of a continuous release"""
    dt = 600
    start = T0
    first = start - 5000 * dt
    rows = []
    for j, t in enumerate((first, first + 5030 * dt)):
        for i in range(3 if j == 0 else 2):
            q = 3 * j + i
            rows.append([t, [1, 2, 0, 3, 1][q], 6.0 + 2.5 * q, 30.0 - 1.25 * q, 2.0 + 0.5 * q])
    return {"k": "e2e", "scale": "end-to-end-window-at-ticks-5000-5060", "idx": 900, "start": start,
            "stop": start + 60 * dt, "dt": dt, "rev": False, "cont": True, "freq": dt, "warm": False, "header": "file",
            "tsep": "T", "pos": "xy", "ll": [1, 0.0, 1, 0.0], "grid_always": False, "extras": [], "defaults": {},
            "has_rt": False, "order": ["release_time", "mult", "X", "Y", "Z"], "rows": rows, "outside": None,
            "kills": {}}


# ---- the table ---------------------------------------------------------------------------------------------
def _cycle(pattern, n):
    return np.resize(np.asarray(pattern, dtype=np.int64), n)


LL = (2, 0.5, 4, -1.25)  # linear stub ll2xy: X = 2 lon + 0.5, Y = 4 lat - 1.25 (exact on dyadic values)


def table(desc):
    """-> dict of numpy arrays: per file time (tidx, time, first row, number of rows), per row (time index, time, mult,
    the columns as written, and the values X, Y the particles must carry)"""
    dt, rev = desc["dt"], desc["rev"]
    sg = -1 if rev else 1
    start = T0 + (7 if desc["rem"] else 0)
    stop = start + sg * (desc["nsteps"] * dt + desc["rem"])
    unit = desc["fmul"] * dt if desc["cont"] else dt
    nf = desc["nf"]
    tidx = np.concatenate([[0], np.cumsum(_cycle(desc["gaps"], max(nf - 1, 0)))]).astype(np.int64)[:nf]
    first = start + sg * desc["first_off"] * dt
    ftime = first + sg * tidx * unit
    rpt = _cycle(desc["rpt"], nf)
    rstart = np.concatenate([[0], np.cumsum(rpt)[:-1]]).astype(np.int64)
    nrows = int(rpt.sum())
    ridx = np.arange(nrows, dtype=np.int64)
    rtime_i = np.repeat(np.arange(nf, dtype=np.int64), rpt)
    mult = _cycle(desc["mult"], nrows) if desc["has_mult"] else np.ones(nrows, dtype=np.int64)
    a = 1.0 + (ridx % 2048) / 64.0
    b = 1.0 + ((ridx * 5 + 3) % 2048) / 64.0
    z = (ridx % 160) / 8.0
    w = (ridx % 977) / 16.0 + 0.25
    if desc["pos"] == "lonlat":
        X, Y = LL[0] * a + LL[1], LL[2] * b + LL[3]
    else:
        X, Y = a, b
    return {"start": start, "stop": stop, "sg": sg, "unit": unit, "tidx": tidx, "ftime": ftime, "rpt": rpt,
            "rstart": rstart, "nrows": nrows, "rtime_i": rtime_i, "rtime": ftime[rtime_i], "mult": mult,
            "a": a, "b": b, "Z": z, "weight": w, "origin": ridx, "X": X, "Y": Y}


def order_of(desc):
    pos = ["lon", "lat"] if desc["pos"] == "lonlat" else ["X", "Y"]
    return ["release_time"] + (["mult"] if desc["has_mult"] else []) + pos + ["Z", "origin", "weight"]


def write_file(desc, tb, path):
    import pandas as pd

    stamps = np.datetime_as_string(EPOCH + tb["rtime"].astype("timedelta64[s]"), unit="s")
    pos = ["lon", "lat"] if desc["pos"] == "lonlat" else ["X", "Y"]
    cols = {"release_time": stamps, "mult": tb["mult"], pos[0]: tb["a"], pos[1]: tb["b"], "Z": tb["Z"],
            "origin": tb["origin"], "weight": tb["weight"]}
    order = order_of(desc)
    pd.DataFrame({c: cols[c] for c in order}).to_csv(path, sep=" ", index=False, header=(desc["header"] == "file"))


# ---- the property text at scale, from the table -------------------------------------------------------------
def expected(desc, tb, warm=False):
    """-> (start-up must be refused, row index per particle, release time per particle, step per particle), the
    particles in the order in which they must enter"""
    start, stop, sg, dt = tb["start"], tb["stop"], tb["sg"], desc["dt"]
    empty = np.zeros(0, dtype=np.int64)
    if not desc["cont"]:
        t = tb["rtime"]
        inwin = (sg * t < sg * stop) & (sg * t >= sg * start)
        rows = np.flatnonzero(inwin)
        if rows.size == 0:
            return True, empty, empty, empty
        prow = np.repeat(rows, tb["mult"][rows])
        prt = t[prow]
        return False, prow, prt, (sg * (prt - start)) // dt
    freq = tb["unit"]
    nfw = int(np.count_nonzero(sg * tb["ftime"] < sg * stop))  # file times before the stop time (a prefix)
    if nfw == 0:
        return True, empty, empty, empty
    first = int(tb["ftime"][0])
    span = sg * (stop - first)
    nticks = -(-span // freq)  # ticks k with first + sg k freq strictly before stop
    k = np.arange(nticks, dtype=np.int64)
    x = first + sg * k * freq
    k = k[sg * x >= sg * start]
    if k.size == 0:
        return True, empty, empty, empty
    x = first + sg * k * freq
    active = np.searchsorted(tb["tidx"][:nfw], k, side="right") - 1  # latest file time at or before the tick
    cnt = tb["rpt"][active]
    tot = int(cnt.sum())
    offs = np.concatenate([[0], np.cumsum(cnt)[:-1]]).astype(np.int64)
    rows = np.repeat(tb["rstart"][active], cnt) + (np.arange(tot, dtype=np.int64) - np.repeat(offs, cnt))
    rrt = np.repeat(x, cnt)
    m = tb["mult"][rows]
    prow = np.repeat(rows, m)
    prt = np.repeat(rrt, m)
    return False, prow, prt, (sg * (prt - start)) // dt


# ---- the real code ------------------------------------------------------------------------------------------
class StubGrid:
    def ll2xy(self, lon, lat):
        return LL[0] * lon + LL[1], LL[2] * lat + LL[3]


NAMES = ("X", "Y", "Z", "origin")  # instance variables observed at the moment of release


def run_real(desc, tb, ctx):
    from ladim.release import ParticleReleaser
    from ladim.state import State
    from ladim.timekeeper import TimeKeeper

    d = ctx.subdir("c04_scale")
    path = d / "release.rls"
    write_file(desc, tb, path)
    pvars = {"weight": float}
    if desc["has_rt"]:
        pvars["release_time"] = "time"
    state = State(instance_variables={"origin": int}, particle_variables=pvars)
    timer = TimeKeeper(start=rf.iso(tb["start"]), stop=rf.iso(tb["stop"]), dt=desc["dt"], time_reversal=desc["rev"])
    mods = {"time": timer, "state": state, "grid": StubGrid() if desc["pos"] == "lonlat" else None}
    kw = {}
    if desc["header"] == "names":
        kw["names"] = order_of(desc)
    if desc["cont"]:
        kw["continuous"] = True
        kw["release_frequency"] = tb["unit"]
    try:
        rel = ParticleReleaser(mods, str(path), **kw)
    except SystemExit:
        return {"exit": True}
    mods["release"] = rel
    nrun = int(timer.Nsteps) + EXTRA_STEPS
    counts = np.zeros(nrun, dtype=np.int64)
    chunks = {c: [] for c in NAMES + ("pid",)}
    problems = []
    ke = desc["kill_every"]
    for n in range(nrun):
        timer.update()
        if ke:
            state.compactify()  # the order of Model.update: clock, removal of the dead, release
        n0 = len(state)
        try:
            rel.update()
        except StopIteration:
            problems.append(f"StopIteration escaped from update() at step {n}")
            break
        k = len(state) - n0
        counts[n] = k
        if k:
            for c in chunks:
                chunks[c].append(np.array(state[c][n0:]))
            if not (bool(np.all(state.alive[n0:])) and bool(np.all(state.active[n0:]))):
                problems.append(f"step {n}: new particles not alive/active")
        if ke and n % ke == ke - 1 and len(state):
            state["alive"] = np.zeros(len(state), dtype=bool)
    got = {c: (np.concatenate(v) if v else np.zeros(0)) for c, v in chunks.items()}
    obs = {"exit": False, "nsteps": int(timer.Nsteps), "counts": counts, "got": got, "problems": problems,
           "npid": int(state.npid), "weight": np.array(state["weight"]),
           "left": {c: np.array(state[c]) for c in NAMES + ("pid",)}}
    if desc["has_rt"]:
        rt = np.asarray(state["release_time"])
        obs["rt"] = ((rt.astype("M8[s]") - EPOCH) / np.timedelta64(1, "s")).astype(np.int64) if rt.size else np.zeros(0, np.int64)
    return obs


def _first_bad(a, b):
    return int(np.flatnonzero(np.asarray(a) != np.asarray(b))[0])


def oracle(desc, tb, obs):
    name = desc["name"]
    ex, prow, prt, pstep = expected(desc, tb)
    if ex != obs["exit"]:
        return (f"scale case {name}: start-up {'refused' if obs['exit'] else 'accepted'} but the table has "
                f"{'no' if ex else 'some'} release in the simulated window")
    if ex:
        return None
    if obs["problems"]:
        return f"scale case {name}: {obs['problems'][0]}"
    nrun = len(obs["counts"])
    want_counts = np.bincount(pstep[pstep < nrun], minlength=nrun)
    unit, sg = tb["unit"], tb["sg"]
    if not np.array_equal(want_counts, obs["counts"]):
        n = _first_bad(want_counts, obs["counts"])
        tick = ""
        if desc["cont"]:
            x = tb["start"] + sg * n * desc["dt"]
            tick = f" (release tick {sg * (x - int(tb['ftime'][0])) // unit} counted from the first file time)"
        nbad = int(np.count_nonzero(want_counts != obs["counts"]))
        return (f"scale case {name}: step {n}{tick}: {int(obs['counts'][n])} particles released, the scheduled rows of "
                f"this step ask for {int(want_counts[n])}; {nbad} of {nrun} steps differ; {int(obs['counts'].sum())} "
                f"particles released in all, {int(want_counts.sum())} scheduled")
    total = int(want_counts.sum())
    got = obs["got"]
    if not np.array_equal(got["pid"], np.arange(total)):
        j = _first_bad(got["pid"], np.arange(total))
        return f"scale case {name}: the {j}-th particle released got pid {int(got['pid'][j])}"
    if obs["npid"] != total:
        return f"scale case {name}: npid {obs['npid']} after {total} particles released"
    if not np.array_equal(got["origin"], prow):
        j = _first_bad(got["origin"], prow)
        return (f"scale case {name}: particle pid {j} (step {int(pstep[j])}) comes from file row {int(got['origin'][j])}, "
                f"the property's order asks for row {int(prow[j])}")
    for c in ("X", "Y", "Z"):
        want = tb[c][prow]
        if not np.array_equal(got[c], want):
            j = _first_bad(got[c], want)
            return (f"scale case {name}: particle pid {j} (step {int(pstep[j])}, file row {int(prow[j])}) released with "
                    f"{c}={got[c][j]!r}, its row says {want[j]!r}")
    # every pid released still carries its row's particle variables at the end
    want = tb["weight"][prow]
    if not np.array_equal(obs["weight"], want):
        if len(obs["weight"]) != total:
            return f"scale case {name}: particle variable weight holds {len(obs['weight'])} particles, {total} released"
        j = _first_bad(obs["weight"], want)
        return f"scale case {name}: at the end pid {j} has weight {obs['weight'][j]!r}, its row (row {int(prow[j])}) says {want[j]!r}"
    if desc["has_rt"] and not np.array_equal(obs["rt"], prt):
        if len(obs["rt"]) != total:
            return f"scale case {name}: particle variable release_time holds {len(obs['rt'])} particles, {total} released"
        j = _first_bad(obs["rt"], prt)
        return (f"scale case {name}: pid {j} has release_time {rf.iso(int(obs['rt'][j]))}, it must enter at "
                f"{rf.iso(int(prt[j]))} (step {int(pstep[j])})")
    # the particles still present at the end: those released after the last removal, with their values
    ke = desc["kill_every"]
    if ke:
        last_kill = ((nrun // ke) * ke - 1) if nrun >= ke else -1
        keep = np.flatnonzero(pstep > last_kill)
        # a removal takes effect at the next step's compactify: the particles killed at the last step remain
        if last_kill == nrun - 1:
            prev = last_kill - ke
            keep = np.flatnonzero(pstep > prev)
    else:
        keep = np.arange(total)
    left = obs["left"]
    if not np.array_equal(left["pid"], keep):
        return (f"scale case {name}: at the end {len(left['pid'])} particles present (pids {left['pid'][:5].tolist()}...), "
                f"released and not removed are {len(keep)} (pids {keep[:5].tolist()}...)")
    for c, want in (("origin", prow[keep]), ("X", tb["X"][prow[keep]]), ("Y", tb["Y"][prow[keep]]), ("Z", tb["Z"][prow[keep]])):
        if not np.array_equal(left[c], want):
            j = _first_bad(left[c], want)
            return f"scale case {name}: at the end particle pid {int(keep[j])} carries {c}={left[c][j]!r}, its row says {want[j]!r}"
    return None


def eval_scale(desc, ctx):
    tb = table(desc)
    obs = run_real(desc, tb, ctx)
    msg = oracle(desc, tb, obs)
    kind = "scale-%s-%s" % ("continuous" if desc["cont"] else "discrete", "reversed" if desc["rev"] else "forward")
    summary = {"exit": obs["exit"]}
    if not obs["exit"]:
        c = obs["counts"]
        summary.update({"steps": int(len(c)), "release_steps": int(np.count_nonzero(c)), "released": int(c.sum()),
                        "rows_in_file": int(tb["nrows"]), "file_times": int(desc["nf"]),
                        "released_per_step_head": c[:12].tolist(), "released_per_step_tail": c[-12:].tolist()})
    return {"ints": None, "oracle": msg, "nontrivial": repr(("scale", desc["name"])), "kind": kind, "observed": summary}
