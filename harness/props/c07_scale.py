"""C07 at scale (oracle only): long runs, many split files, many records per file, long output periods, many
particles.  Deterministic cases, always present in the quick tier.

The real Output (ladim.out_netcdf.Output) is driven step by step as Model.update drives it, or the whole package is run
through ladim.main.main.  Observed: the run ends normally; the directory listing; every file opened and read.  The
oracle states the property for every file and every record of the large case:

  * the set of files is exactly the documented numbering (name.nc -> name_000.nc, name_001.nc, ... formatted with
    {:03d}, growing to four digits only when the number itself needs them; name_04.nc -> name_04.nc, name_05.nc, ...),
  * every file but the last has numrec records, the last between 1 and numrec,
  * the concatenated time axis is start + k*period for every k with k*period < N steps, in order, exactly once,
  * every record holds exactly the particles (pid) and values (X) the state had at that step (the driver gives each
    step its own dyadic X, so a record that is missing, repeated or written into another file shows),
  * particle variables are present in every file,
  * where an unsplit run is made too: concatenating the split files gives the records of the unsplit run.

All values compared are small integers or dyadic rationals stored as f8: the comparisons are exact by construction.
"""
from __future__ import annotations

import re
from pathlib import Path

import numpy as np
from netCDF4 import Dataset

import romsfiles as rf
import run_ladim as rl

TSTART = 100000  # seconds after rf.EPOCH


# ---- the cases ------------------------------------------------------------------------------------
def scale_cases(quick=True):
    """fixed list; sizes straddle round decimal numbers and powers of two in each dimension of scale this property has:
    number of files, number of records (in one file and in all), steps between two records, particles per record"""
    c = []

    def out(N, p, numrec, layout="sparse", proto="out.nc", npart=2, rev=False, dt=600, unsplit=False, pvars=True, ref=None):
        c.append({"k": "scale", "via": "out", "N": N, "p": p, "numrec": numrec, "layout": layout, "proto": proto,
                  "npart": npart, "rev": rev, "dt": dt, "unsplit": unsplit, "pvars": pvars, "ref": ref})

    # many files (the number field of the documented numbering is three digits wide and grows only when the number
    # itself needs more); prototypes with their own number keep its width and grow the same way
    out(600, 2, 1, rev=True, dt=300)                            # 300 files, period of two steps, reversed (the run of
    #                                                             more than 1000 files is made through main, below)
    out(363, 3, 1, proto="r_7.nc", ref=-946684800)              # 121 files r_7 .. r_127: width 1 grows to 2, then 3
    out(80, 1, 2, proto="a_b_9990.nc", pvars=False)             # 40 files a_b_9990 .. a_b_10029: width 4 grows to 5
    out(300, 1, 3, proto="x_95.nc", unsplit=True)               # 100 files x_95 .. x_194
    # many records in one file, records per file around 1000 / 1024
    out(2049, 1, 1024, rev=True)                                # 2 full files + one record in the third
    # long periods: more than 1000 steps between two records, N not a multiple of the period
    out(40001, 1500, 2, dt=60)                                  # 27 records, 14 files (last with one)
    out(70000, 4097, 0, dt=60, layout="dense")                  # 18 records, unsplit
    out(10000, 1024, 3, rev=True, dt=60, layout="dense", unsplit=True)  # 10 records, 4 files
    # many particles per record: > 100000 stored instances in a file
    out(7, 1, 2, npart=70000, unsplit=True)                     # 4 files, 140000 instances per file
    out(5, 2, 2, npart=4097, layout="dense", unsplit=True)      # 3 records, 2 files
    # the whole package: a run of more than two thousand steps, more than a thousand files, one record per file, and the
    # same run unsplit
    c.append({"k": "scale", "via": "main", "N": 2050, "p": 2, "numrec": 1, "layout": "sparse", "proto": "o.nc",
              "rev": False, "dt": 600, "unsplit": True, "late": 2001})  # 1025 files o_000 .. o_1024
    return c


# ---- observation ----------------------------------------------------------------------------------
def want_names(proto, nfiles):
    """the documented numbering"""
    stem, suffix = Path(proto).stem, Path(proto).suffix
    m = re.search(r"_(\d+)$", stem)
    start = int(m.group(1)) if m else 0
    width = len(m.group(1)) if m else 3
    prefix = stem[: m.start()] if m else stem
    return [f"{prefix}_{start + i:0{width}d}{suffix}" for i in range(nfiles)]


def read_file(path, layout, ivars=("X",)):
    """-> dict: t (absolute seconds after EPOCH, float array), count, pid / values per record (flat for sparse, 2-D for
    dense), pv (number of entries of the particle variable or None)"""
    with Dataset(path) as nc:  # readable = closed properly
        nc.set_auto_mask(False)
        tv = nc.variables["time"]
        ref = np.datetime64(tv.units.split("since")[1].strip().replace(" ", "T"), "s")
        off = float((ref - rf.EPOCH) / np.timedelta64(1, "s"))
        r = {"t": np.asarray(tv[:], dtype=float) + off}
        if layout == "sparse":
            r["count"] = np.asarray(nc.variables["particle_count"][:]).astype(np.int64)
            r["pid"] = np.asarray(nc.variables["pid"][:]).astype(np.int64)
        for v in ivars:
            r[v] = np.asarray(nc.variables[v][:], dtype=float)
        r["pv"] = len(nc.variables["weight"][:]) if "weight" in nc.variables else None
    return r


def listing(d):
    return sorted(f.name for f in d.iterdir())


# ---- drivers --------------------------------------------------------------------------------------
def xval(k, npart):
    """the X of every particle at step k: dyadic, different for every (step, particle) of a case"""
    return float(k) + np.arange(npart, dtype=float) / 2.0 ** 20


def drive_output(d, desc, numrec):
    """drive the real Output as Model.update does; returns a crash message or None"""
    from ladim.out_netcdf import Output
    from ladim.state import State
    from ladim.timekeeper import TimeKeeper

    N, p, rev, DT, npart = desc["N"], desc["p"], desc["rev"], desc["dt"], desc["npart"]
    tstop = TSTART - N * DT if rev else TSTART + N * DT
    refopt = desc.get("ref")
    tk = TimeKeeper(start=rf.iso(TSTART), stop=rf.iso(tstop), dt=DT, time_reversal=rev,
                    reference=None if refopt is None else rf.iso(refopt))
    pvars = desc.get("pvars", True)
    st = State(particle_variables={"weight": float} if pvars else None)
    st.append(X=xval(0, npart), Y=2.0, Z=3.0, **({"weight": np.arange(npart, dtype=float) + 0.5} if pvars else {}))
    ivars = {"X": {"encoding": {"datatype": "f8"}, "attributes": {}}, "pid": {"encoding": {"datatype": "i4"}, "attributes": {}}}
    pv = {"weight": {"encoding": {"datatype": "f8"}, "attributes": {}}} if pvars else None
    out = None
    try:
        out = Output({"time": tk, "state": st, "grid": None}, d / desc["proto"], p * DT, ivars, pv, layout=desc["layout"], numrec=numrec)
        base = np.arange(npart, dtype=float) / 2.0 ** 20
        for k in range(tk.Nsteps):
            tk.update()
            st["X"] = base + float(k)  # every step has its own values: a record written at a step that is not due shows
            out.update()
        out.close()
    except Exception as e:  # noqa: BLE001
        try:
            out.close()
        except Exception:  # noqa: BLE001
            pass
        return f"{type(e).__name__}: {e}"
    return None


def drive_main(d, desc, numrec, workdir):
    """ladim.main.main on a synthetic ROMS file, zero current: three particles from the start, a fourth released late
    in the run; files into d"""
    N, p, rev, DT = desc["N"], desc["p"], desc["rev"], desc["dt"]
    tstop = TSTART - N * DT if rev else TSTART + N * DT
    if not (workdir / "f.nc").exists():
        rf.write_roms(workdir / "f.nc", imax=8, jmax=6, N=2, times=[min(TSTART, tstop), max(TSTART, tstop) + DT])
        late = TSTART + desc["late"] * DT * (-1 if rev else 1)
        rf.write_release(workdir / "r.rls", [[TSTART, 3.0, 3.0, 1.0, 2.5], [TSTART, 3.25, 2.5, 1.0, 3.5], [TSTART, 4.5, 3.0, 1.0, 4.5],
                                             [late, 2.75, 3.0, 1.0, 5.5]])
    conf = rf.base_config(start=TSTART, stop=tstop, dt=DT, forcing_file=workdir / "f.nc", release_file=workdir / "r.rls",
                          out_file=d / desc["proto"], output_period=p * DT, numrec=numrec, layout=desc["layout"],
                          time_reversal=rev, names=["release_time", "X", "Y", "Z", "weight"], instance_variables=("pid", "X"))
    conf["state"] = {"particle_variables": {"weight": "float"}}
    conf["output"]["particle_variables"] = {"weight": {"encoding": {"datatype": "f8"}, "attributes": {}}}
    try:
        rl.run_main(conf, workdir, name=f"ladim_{numrec}.yaml")
    except BaseException as e:  # noqa: BLE001
        return f"{type(e).__name__}: {e}"
    return None


# ---- the case -------------------------------------------------------------------------------------
def tag(desc):
    return (f"scale case via={desc['via']} N={desc['N']} steps, period={desc['p']} steps, numrec={desc['numrec']}, "
            f"{desc['layout']}, {'reversed' if desc['rev'] else 'forward'}, prototype {desc['proto']}, "
            f"{desc.get('npart', 4)} particles")


def eval_scale(desc, ctx):
    N, p, numrec, rev, DT, layout, proto = desc["N"], desc["p"], desc["numrec"], desc["rev"], desc["dt"], desc["layout"], desc["proto"]
    via = desc["via"]
    top = ctx.subdir(f"c07_scale_{via}_{N}_{p}_{numrec}")
    import shutil

    for f in top.glob("*"):
        shutil.rmtree(f) if f.is_dir() else f.unlink()
    d = top / "split"
    d.mkdir()
    nrec = -(-N // p)  # records due: steps 0, p, 2p, ... < N
    due = np.arange(nrec, dtype=np.int64) * p
    problems = []
    crashed = drive_output(d, desc, numrec) if via == "out" else drive_main(d, desc, numrec, top)
    observed = {"crashed": crashed}
    if crashed:
        problems.append(f"run did not end normally: {crashed}")
    else:
        # --- the set of files
        if numrec > 0:
            nfiles = max(1, -(-nrec // numrec))
            wnames = want_names(proto, nfiles)
        else:
            nfiles, wnames = 1, [proto]
        names = listing(d)
        observed.update(nfiles=len(names), first=names[:2], last=names[-2:])
        if sorted(wnames) != names:
            missing = [n for n in wnames if n not in set(names)]
            extra = sorted(set(names) - set(wnames))
            problems.append(f"{len(names)} files, the documented numbering gives {len(wnames)} ({wnames[0]} .. {wnames[-1]}): "
                            f"{len(missing)} missing (e.g. {missing[:2]}), {len(extra)} not in the numbering (e.g. {extra[:2]})")
        # --- every file, in the order of the documented numbering (files outside it are reported above)
        parts, pnames, sizes, unread = [], [], [], []
        for n in wnames:
            if not (d / n).exists():
                continue
            try:
                parts.append(read_file(d / n, layout))
            except Exception as e:  # noqa: BLE001
                unread.append(f"{n}: {type(e).__name__}")
                continue
            pnames.append(n)
            sizes.append(len(parts[-1]["t"]))
        if unread:
            problems.append(f"{len(unread)} files not readable, e.g. {unread[:2]}")
        if parts:
            sizes = np.array(sizes)
            if numrec > 0 and len(parts) == nfiles:
                wsizes = np.full(nfiles, numrec)
                wsizes[-1] = nrec - numrec * (nfiles - 1)
                if not np.array_equal(sizes, wsizes):
                    i = int(np.flatnonzero(sizes != wsizes)[0]) if len(sizes) == len(wsizes) else -1
                    problems.append(f"records per file: file {wnames[i]} has {sizes[i]} records, due {wsizes[i]} (numrec={numrec})")
            t = np.concatenate([q["t"] for q in parts])
            rel = (TSTART - t) if rev else (t - TSTART)
            wt = due.astype(float) * DT
            if len(t) != nrec or not np.array_equal(rel, wt):
                if len(t) == nrec:
                    i = int(np.flatnonzero(rel != wt)[0])
                    how = f"record {i} is at step {rel[i] / DT:g}, due step {due[i]}"
                else:
                    how = f"first steps {(rel[:3] / DT).tolist()}, last {(rel[-3:] / DT).tolist()}"
                problems.append(f"{len(t)} records in the documented files, {nrec} due (steps 0, {p}, .. {due[-1]}); {how}")
            elif via == "out":
                # --- contents of every record: the state at that step
                npart = desc["npart"]
                base = np.arange(npart, dtype=float) / 2.0 ** 20
                wX = due.astype(float)[:, None] + base[None, :]
                if layout == "sparse":
                    count = np.concatenate([q["count"] for q in parts])
                    pid = np.concatenate([q["pid"] for q in parts])
                    X = np.concatenate([q["X"] for q in parts])
                    if not np.array_equal(count, np.full(nrec, npart)):
                        i = int(np.flatnonzero(count != npart)[0])
                        problems.append(f"record {i} has particle_count {count[i]}, the state had {npart}")
                    elif len(pid) != nrec * npart or not np.array_equal(pid.reshape(nrec, npart), np.broadcast_to(np.arange(npart), (nrec, npart))):
                        problems.append(f"pid of the records: {len(pid)} values, not {nrec} times 0..{npart - 1}")
                    elif len(X) != nrec * npart or not np.array_equal(X.reshape(nrec, npart), wX):
                        bad = np.flatnonzero((X.reshape(nrec, npart) != wX).any(axis=1)) if len(X) == nrec * npart else [-1]
                        problems.append(f"X of record {int(bad[0])} (step {int(due[int(bad[0])])}) is not the state's at that step; {len(bad)} such records")
                else:
                    X = np.concatenate([q["X"].reshape(len(q["t"]), -1) for q in parts], axis=0) if len({q["X"].reshape(len(q["t"]), -1).shape[1] for q in parts}) == 1 else np.zeros((0, 0))
                    if X.shape != wX.shape or not np.array_equal(X, wX):
                        bad = np.flatnonzero((X != wX).any(axis=1)) if X.shape == wX.shape else [-1]
                        problems.append(f"dense X has shape {X.shape}, due {wX.shape}; first record that differs from the state at its step: {int(bad[0])}")
                if desc.get("pvars", True):
                    bad = [n for n, q in zip(pnames, parts) if not q["pv"]]
                    if bad:
                        problems.append(f"particle variable missing in {len(bad)} files, e.g. {bad[:2]}")
            else:
                bad = [n for n, q in zip(pnames, parts) if not q["pv"]]
                if bad:
                    problems.append(f"particle variable missing in {len(bad)} files, e.g. {bad[:2]}")
        elif not problems:
            problems.append("no output file")
        # --- the same run unsplit: concatenation of the split files = the unsplit file
        if desc.get("unsplit") and numrec > 0:
            du = top / "unsplit"
            du.mkdir()
            cr = drive_output(du, desc, 0) if via == "out" else drive_main(du, desc, 0, top)
            if cr:
                problems.append(f"the unsplit run did not end normally: {cr}")
            elif listing(du) != [proto]:
                problems.append(f"the unsplit run wrote {listing(du)[:3]}, not {proto}")
            else:
                u = read_file(du / proto, layout)
                keys = ["t", "count", "pid", "X"] if layout == "sparse" else ["t", "X"]
                for key in keys:
                    if not parts:
                        break
                    if layout == "dense" and key == "X":
                        # a file of the split run is as wide as the particles released so far, the unsplit one as all
                        w = u["X"].shape[1] if u["X"].ndim == 2 else 0
                        rows = [q["X"] for q in parts]
                        if all(r_.ndim == 2 and r_.shape[1] <= w for r_ in rows):
                            cat = np.concatenate([np.pad(r_, ((0, 0), (0, w - r_.shape[1])), constant_values=np.nan) for r_ in rows], axis=0)
                            uu = u["X"]
                            if any(r_.shape[1] < w for r_ in rows):  # compare only what both have
                                uu = np.where(np.isnan(cat), np.nan, uu)
                            same = np.array_equal(cat, uu, equal_nan=True)
                        else:
                            cat, same = None, False
                    else:
                        cat = np.concatenate([q[key] for q in parts])
                        same = np.array_equal(cat, u[key])
                    if not same:
                        problems.append(f"concatenating '{key}' of the split files ({0 if cat is None else len(cat)} values) does not give the "
                                        f"unsplit run's ({len(u[key])} values)")
                        break
                if via == "main" and not problems:
                    # the late release is in the records (the run is observed late in its life, not only at its start)
                    if int(u["count"][0]) != 3 or int(u["count"][-1]) != 4:
                        problems.append(f"particle counts of the unsplit run from {int(u['count'][0])} to {int(u['count'][-1])}, "
                                        "released 3 at the start and 1 late")
    shutil.rmtree(top, ignore_errors=True)  # thousands of files: not kept until the end of the check
    msg = None
    if problems:
        msg = tag(desc) + ": " + "; ".join(problems[:3])
    return {"ints": None, "oracle": msg, "nontrivial": ("scale", via, N, p, numrec, layout, rev, proto),
            "kind": f"scale-{via}", "observed": observed}
