"""C12 — deterministic SCALE cases of the quick tier (oracle only: too large for a Coq literal).

The generated streams of c12.py use a handful of particles, six columns and two to four updates.  The cases here run
the REAL ladim code at realistic size and decide the property text for EVERY particle / cell / update of the case:

  scale-z2s      ladim.ROMS.z2s on 1000 .. 262145 particles (sizes straddling powers of two and round decimal
                 numbers) scattered in random order over a 40 x 30 .. 131 x 67 grid with strongly varying bottom
                 depth, levels from the real s_stretch + sdepth (N up to 60, Vtransform 1 / 2, Vstretching 1 / 2 / 4);
                 depths from above the surface to below the bottom, on a level, cells incl. exact .5 ties;
                 particle orders: random, reversed cell order, clustered.
  scale-forcing  Grid + State + Forcing built from a synthetic ROMS file: Forcing.update with thousands of particles
                 that change column between the updates, whose number grows (releases) and shrinks (removal of dead
                 particles) between the updates; K / A held by the forcing object against the column the particle
                 is in NOW.
  scale-life     the same through > 1000 consecutive updates (time step a tenth of the forcing frame interval: most
                 updates fall BETWEEN two frames), particles moving every step.
  scale-levels   sdepth / Grid.z_r, Grid.z_w on bathymetries of 10^4 .. 10^5 cells, 1 m .. 5000 m: strict increase,
                 range, end points and interleaving in every cell.

Lookup oracle (the property's last sentence, vectorised): 1 <= K <= N-1, 0 <= A <= 1 and
|A z[K-1] + (1-A) z[K] - clamp(-Z, z[0], z[N-1])| <= 1e-9 (1 + |clamp|) in the particle's own column; on an exact
.5 tie either neighbouring column is accepted (as in c12.oracle_lookup / eval_z2s).
"""
from __future__ import annotations

import numpy as np

import romsfiles as rf

SLACK = 1e-12
LOOKUP_TOL = 1e-9

Z2S_SIZES = [1000, 1024, 1025, 4096, 4097, 5000, 9999, 10000, 10001, 16384, 20000, 32769, 40000, 70000, 130000, 262145]

# (imax, jmax, N, Vtransform, Vstretching, theta_s, theta_b, hc)
SETUPS = [
    (40, 30, 35, 1, 1, 5.0, 0.4, 10.0),
    (97, 61, 20, 2, 4, 7.0, 2.0, 250.0),
    (131, 67, 60, 2, 2, 6.0, 1.5, 100.0),
    (33, 17, 2, 1, 1, 3.0, 0.0, 0.0),
]


def gen_scale_cases(ctx):
    """fixed list, independent of the seed; placed first in gen_cases' output"""
    out = []
    for n, P in enumerate(Z2S_SIZES):
        out.append({"k": "scale", "what": "z2s", "P": P, "order": ["random", "revcell", "cluster"][n % 3]})
    for P, grow, vt in [(1025, 4097, 1), (5000, 5001, 2), (12000, 9000, 1), (40000, 30000, 2), (70000, 60001, 1)]:
        out.append({"k": "scale", "what": "forcing", "P": P, "grow": grow, "vt": vt})
    out.append({"k": "scale", "what": "life", "P": 257, "steps": 1250, "vt": 2})
    out.append({"k": "scale", "what": "levels"})
    return out


# ------------------------------------------------------------------------------------------------
# vectorised oracles
# ------------------------------------------------------------------------------------------------
def bathymetry(imax, jmax, rng=None):
    """20 m .. ~5000 m, no two neighbouring cells of equal depth"""
    jj, ii = np.meshgrid(np.arange(jmax), np.arange(imax), indexing="ij")
    H = 20.0 + 4200.0 * (ii / imax) ** 2 + 600.0 * jj / jmax + 180.0 * np.sin(0.7 * ii + 0.3 * jj) ** 2
    if rng is not None:
        H = H + rng.uniform(0.0, 5.0, H.shape)
    return np.minimum(H, 5000.0)


def _cands(x):
    """nearest integer(s) of x: (first, second, second_is_valid); two candidates only on an exact .5 tie"""
    f = np.floor(x)
    r = x - f
    first = np.where(r > 0.5, f + 1, f).astype(np.int64)
    tie = r == 0.5
    second = np.where(tie, f + 1, first).astype(np.int64)
    return first, second, tie


def lookup_problem(z_rho, X, Y, Z, K, A, what):
    """None, or one line naming the worst particle.  z_rho (N, jmax, imax); X, Y in the index space of z_rho"""
    N = z_rho.shape[0]
    P = len(Z)
    K, A = np.asarray(K), np.asarray(A)
    if K.shape != (P,) or A.shape != (P,):
        return f"{what}: {P} particles but K has shape {K.shape} and A shape {A.shape}"
    if not np.issubdtype(K.dtype, np.integer):
        if not (np.all(np.isfinite(K)) and np.all(K == np.floor(K))):
            return f"{what}: K is not an array of whole numbers (dtype {K.dtype})"
        K = K.astype(np.int64)
    A = A.astype(float)
    badk = np.flatnonzero((K < 1) | (K > N - 1))
    if len(badk):
        n = int(badk[0])
        return f"{what}: {len(badk)} of {P} particles with K outside 1..{N - 1}; particle {n}: X={float(X[n])!r} Y={float(Y[n])!r} Z={float(Z[n])!r} K={int(K[n])}"
    bada = np.flatnonzero(~((A >= 0.0) & (A <= 1.0)))
    if len(bada):
        n = int(bada[0])
        return f"{what}: {len(bada)} of {P} particles with weight outside [0, 1]; particle {n}: X={float(X[n])!r} Y={float(Y[n])!r} Z={float(Z[n])!r} A={float(A[n])!r}"
    i1, i2, _ = _cands(X)
    j1, j2, _ = _cands(Y)
    jm, im = z_rho.shape[1:]
    best_err = None
    ok = np.zeros(P, dtype=bool)
    got1 = want1 = None
    for jc in (j1, j2):
        for ic in (i1, i2):
            jc_, ic_ = np.clip(jc, 0, jm - 1), np.clip(ic, 0, im - 1)
            inside = (jc == jc_) & (ic == ic_)
            got = A * z_rho[K - 1, jc_, ic_] + (1.0 - A) * z_rho[K, jc_, ic_]
            want = np.clip(-Z, z_rho[0, jc_, ic_], z_rho[-1, jc_, ic_])
            err = np.abs(got - want)
            good = inside & (err <= LOOKUP_TOL * (1.0 + np.abs(want)))
            ok |= good
            if got1 is None:
                got1, want1, best_err = got, want, np.where(inside, err, np.inf)
    bad = np.flatnonzero(~ok)
    if len(bad):
        e = np.where(np.isfinite(best_err[bad]), best_err[bad], -1.0)
        n = int(bad[int(np.argmax(e))])
        return (f"{what}: {len(bad)} of {P} particles whose weighted level depth differs from the depth clamped to the "
                f"levels of their column; worst: particle {n} X={float(X[n])!r} Y={float(Y[n])!r} Z={float(Z[n])!r} "
                f"K={int(K[n])} A={float(A[n])!r} -> A*z[K-1]+(1-A)*z[K]={float(got1[n])!r}, clamped depth {float(want1[n])!r}")
    return None


def levels_problems(zr, zw, H, what, N):
    """level depths increase strictly bottom to surface within [-h, 0]; w starts at -h, ends at 0, interleaves with rho;
    zr (N, ...), zw (N+1, ...), H (...): every cell"""
    zr, zw, H = np.asarray(zr, dtype=float), np.asarray(zw, dtype=float), np.asarray(H, dtype=float)
    if zr.shape != (N, *H.shape) or zw.shape != (N + 1, *H.shape):
        return [f"{what}: z_r {zr.shape}, z_w {zw.shape} for N={N} and cells {H.shape}"]
    if not (np.all(np.isfinite(zr)) and np.all(np.isfinite(zw))):
        return [f"{what}: non-finite level depths"]
    pb = []

    def first(cond):  # cond: boolean per cell, True = violated
        idx = np.argwhere(cond)
        c = tuple(int(v) for v in idx[0])
        return f"in {len(idx)} of {H.size} cells, e.g. cell {c} h={float(H[c])!r}"

    tol = SLACK * H
    c = np.any(np.diff(zr, axis=0) <= 0, axis=0) if N > 1 else np.zeros(H.shape, bool)
    if c.any():
        pb.append(f"{what}: z_r not strictly increasing {first(c)}")
    c = np.any(np.diff(zw, axis=0) <= 0, axis=0)
    if c.any():
        pb.append(f"{what}: z_w not strictly increasing {first(c)}")
    lo = np.minimum(zr.min(axis=0), zw.min(axis=0))
    hi = np.maximum(zr.max(axis=0), zw.max(axis=0))
    c = (lo < -H - tol) | (hi > tol)
    if c.any():
        pb.append(f"{what}: levels leave [-h, 0] {first(c)}")
    c = (np.abs(zw[0] + H) > tol) | (np.abs(zw[-1]) > tol)
    if c.any():
        pb.append(f"{what}: z_w does not run from -h to 0 {first(c)}")
    c = np.any(zw[:-1] >= zr, axis=0) | np.any(zr >= zw[1:], axis=0)
    if c.any():
        pb.append(f"{what}: w-levels do not interleave with rho-levels {first(c)}")
    return pb


# ------------------------------------------------------------------------------------------------
# particles
# ------------------------------------------------------------------------------------------------
def particles(rng, P, H, order, x0=0.0, y0=0.0, margin=0.49):
    """P particles over the cells of H (jmax, imax; index space shifted by x0, y0), depths from above the surface
    to below the bottom; a tenth on exact .5 ties (dyadic), a tenth exactly at the bottom / surface boundary values"""
    jm, im = H.shape
    X = rng.uniform(-margin, im - 1 + margin, P)
    Y = rng.uniform(-margin, jm - 1 + margin, P)
    t = P // 10
    X[:t] = np.clip(np.floor(X[:t]) + 0.5, 0.5, im - 1.5)
    Y[t // 2: t + t // 2] = np.clip(np.floor(Y[t // 2: t + t // 2]) + 0.5, 0.5, jm - 1.5)
    if order == "cluster":  # most particles in a few cells (patches of a release), the rest everywhere
        c = rng.random(P) < 0.8
        cx, cy = rng.integers(0, im, 7), rng.integers(0, jm, 7)
        w = rng.integers(0, 7, P)
        X = np.where(c, np.clip(cx[w] + rng.uniform(-0.45, 0.45, P), -margin, im - 1 + margin), X)
        Y = np.where(c, np.clip(cy[w] + rng.uniform(-0.45, 0.45, P), -margin, jm - 1 + margin), Y)
    perm = rng.permutation(P)
    X, Y = X[perm], Y[perm]
    if order == "revcell":  # descending cell order (a sort by cell is NOT the identity, nor is it for "random")
        key = np.around(Y) * im + np.around(X)
        o = np.argsort(-key, kind="stable")
        X, Y = X[o], Y[o]
    I = np.clip(np.around(X).astype(int), 0, im - 1)
    J = np.clip(np.around(Y).astype(int), 0, jm - 1)
    Z = H[J, I] * rng.uniform(-0.05, 1.05, P)
    Z[rng.integers(0, P, P // 50)] = 0.0
    return X + x0, Y + y0, Z


# ------------------------------------------------------------------------------------------------
# cases
# ------------------------------------------------------------------------------------------------
_LEVELS = {}


def _levels(n):
    """z_rho of set-up n from the real s_stretch / sdepth (cached per process: inputs of the lookup, checked by
    scale-levels and the other streams)"""
    if n not in _LEVELS:
        from ladim.ROMS import s_stretch, sdepth

        imax, jmax, N, vt, vs, ts, tb, hc = SETUPS[n]
        H = bathymetry(imax, jmax)
        C = s_stretch(N, ts, tb, stagger="rho", Vstretching=vs)
        _LEVELS[n] = (H, np.ascontiguousarray(sdepth(H, hc, C, stagger="rho", Vtransform=vt)))
    return _LEVELS[n]


def eval_scale_z2s(desc):
    from ladim.ROMS import z2s

    P, order = desc["P"], desc["order"]
    pb = []
    for n, (imax, jmax, N, vt, vs, ts, tb, hc) in enumerate(SETUPS):
        H, z_rho = _levels(n)
        rng = np.random.default_rng([12, P, n])
        X, Y, Z = particles(rng, P, H, order)
        # levels hit exactly: a few particles sit on a level of their column
        m = rng.integers(0, P, P // 20)
        I, J = np.around(X[m]).astype(int), np.around(Y[m]).astype(int)
        Z[m] = -z_rho[rng.integers(0, N, len(m)), J, I]
        K, A = z2s(z_rho, X.copy(), Y.copy(), Z.copy())
        what = (f"scale case z2s with {P} particles ({order} order) over a {imax}x{jmax} grid, N={N}, "
                f"Vtransform={vt}, Vstretching={vs}")
        p = lookup_problem(z_rho, X, Y, Z, K, A, what)
        if p:
            pb.append(p)
    return {"ints": None, "oracle": "; ".join(pb[:2]) or None, "nontrivial": ("scale-z2s", P), "kind": "scale-z2s",
            "observed": {"particles": P, "order": order, "setups": len(SETUPS)}}


def _forcing_world(ctx, tag, imax, jmax, N, vt, times, dt, stop, seed):
    from ladim.ROMS import Forcing, Grid
    from ladim.state import State
    from ladim.timekeeper import TimeKeeper

    rng = np.random.default_rng(seed)
    h = np.round(bathymetry(imax, jmax, rng))
    hc = 10.0 if vt == 1 else 60.0
    path = ctx.subdir("c12scale") / f"{tag}.nc"
    rf.write_roms(path, imax=imax, jmax=jmax, N=N, times=times, h=h, hc=hc, Vtransform=vt, u=0.0, v=0.0)
    tk = TimeKeeper(start=rf.iso(0), stop=rf.iso(stop), dt=dt)
    st = State()
    g = Grid(filename=str(path))
    mods = {"time": tk, "state": st, "grid": g}
    return rng, h, path, tk, st, g, mods, Forcing


def _check_forcing(g, st, fo, what):
    zr = np.asarray(g.z_r, dtype=float)
    X, Y, Z = (np.asarray(st.X, dtype=float), np.asarray(st.Y, dtype=float), np.asarray(st.Z, dtype=float))
    return lookup_problem(zr, X - g.i0, Y - g.j0, Z, fo.K, fo.A, what)


def eval_scale_forcing(desc, ctx):
    """Forcing.update on a state of realistic size: particles change column between the updates (shuffled positions,
    own depth kept), their number grows by a release and shrinks by the removal of dead particles"""
    P, grow, vt = desc["P"], desc["grow"], desc["vt"]
    imax, jmax, N = 30, 24, 9
    rng, h, path, tk, st, g, mods, Forcing = _forcing_world(ctx, f"f_{P}", imax, jmax, N, vt, [0, 600, 1200, 1800, 2400, 3000],
                                                           600, 3000, [12, 7, P])
    pb = []
    try:
        Hin = h[g.j0:g.j1, g.i0:g.i1]
        X, Y, Z = particles(rng, P, Hin, "random", x0=g.i0, y0=g.j0, margin=0.0)
        st.append(X=X, Y=Y, Z=Z)
        fo = Forcing(mods, filename=str(path))
        mods["forcing"] = fo
        for s_ in range(5):
            note = "first update"
            if s_ in (1, 4):  # every particle moves to another column, depth and count unchanged
                perm = rng.permutation(len(st))
                st["X"], st["Y"] = np.asarray(st.X)[perm], np.asarray(st.Y)[perm]
                note = "positions shuffled among the particles"
            elif s_ == 2:  # a release: the particle count grows
                X2, Y2, Z2 = particles(rng, grow, Hin, "cluster", x0=g.i0, y0=g.j0, margin=0.0)
                st.append(X=X2, Y=Y2, Z=Z2)
                note = f"release of {grow} more particles"
            elif s_ == 3:  # dead particles are removed: the count shrinks, the survivors shift position in the arrays
                alive = rng.random(len(st)) < 0.6
                st["alive"] = alive
                st.compactify()
                note = f"{int((~alive).sum())} dead particles removed"
            tk.update()
            fo.update()
            p = _check_forcing(g, st, fo, f"scale case Forcing.update no. {s_ + 1} with {len(st)} particles ({note}; start {P}, "
                                          f"{imax}x{jmax} file grid, N={N}, Vtransform={vt})")
            if p:
                pb.append(p)
        fo.close()
    finally:
        path.unlink(missing_ok=True)
    return {"ints": None, "oracle": "; ".join(pb[:2]) or None, "nontrivial": ("scale-forcing", P), "kind": "scale-forcing",
            "observed": {"start": P, "release": grow, "end": int(len(st))}}


def eval_scale_life(desc, ctx):
    """> 1000 consecutive updates, time step a tenth of the frame interval; the particles move at every step"""
    P, steps, vt = desc["P"], desc["steps"], desc["vt"]
    imax, jmax, N, dt = 12, 10, 6, 60
    frames = list(range(0, dt * steps + 601, 600))
    rng, h, path, tk, st, g, mods, Forcing = _forcing_world(ctx, "life", imax, jmax, N, vt, frames, dt, dt * steps, [12, 9, P])
    pb, checked = [], 0
    try:
        Hin = h[g.j0:g.j1, g.i0:g.i1]
        X, Y, Z = particles(rng, P, Hin, "random", x0=g.i0, y0=g.j0, margin=0.0)
        st.append(X=X, Y=Y, Z=Z)
        fo = Forcing(mods, filename=str(path))
        mods["forcing"] = fo
        for s_ in range(steps):
            if s_ > 0:
                sh = 1 + s_ % 5
                st["X"], st["Y"] = np.roll(np.asarray(st.X), sh), np.roll(np.asarray(st.Y), sh)
                if s_ % 97 == 0:  # now and then some particles sink / rise as well
                    st["Z"] = np.roll(np.asarray(st.Z), 3)
            tk.update()
            fo.update()
            p = _check_forcing(g, st, fo, f"scale case long run: Forcing.update no. {s_ + 1} of {steps} (dt {dt} s, forcing frames "
                                          f"every 600 s, {P} particles moving every step)")
            checked += 1
            if p:
                pb.append(p)
                if len(pb) >= 2:
                    break
        fo.close()
    finally:
        path.unlink(missing_ok=True)
    return {"ints": None, "oracle": "; ".join(pb[:2]) or None, "nontrivial": ("scale-life", steps), "kind": "scale-life",
            "observed": {"particles": P, "updates": checked}}


def eval_scale_levels(desc, ctx):
    """level clauses in EVERY cell of large bathymetries, 1 m .. 5000 m"""
    from ladim.ROMS import Grid, s_stretch, sdepth

    rng = np.random.default_rng([12, 3])
    pb, cells = [], 0
    for (jm, im, N, vt, vs, ts, tb) in [(257, 513, 20, 1, 1, 5.0, 0.4), (129, 257, 60, 2, 4, 7.0, 2.0),
                                         (200, 300, 35, 2, 2, 6.0, 1.5), (100, 1000, 1, 1, 1, 3.0, 0.0)]:
        H = np.exp(rng.uniform(np.log(1.0), np.log(5000.0), (jm, im)))
        H.flat[:4] = [1.0, 5000.0, 1.0, 5000.0]
        hc = 1.0 if vt == 1 else 250.0
        Cr = s_stretch(N, ts, tb, stagger="rho", Vstretching=vs)
        Cw = s_stretch(N, ts, tb, stagger="w", Vstretching=vs)
        zr = sdepth(H, hc, Cr, stagger="rho", Vtransform=vt)
        zw = sdepth(H, hc, Cw, stagger="w", Vtransform=vt)
        pb += levels_problems(zr, zw, H, f"scale case sdepth on {jm}x{im} cells (N={N}, Vtransform={vt}, Vstretching={vs}, "
                                         f"theta_s={ts}, theta_b={tb}, hc={hc})", N)
        cells += H.size
    # Grid objects from a file with a large bathymetry: stretching from the file and from Vinfo
    jm, im = 203, 302
    h = np.exp(rng.uniform(np.log(1.0), np.log(5000.0), (jm, im)))
    path = ctx.subdir("c12scale") / "biggrid.nc"
    try:
        N = 30
        Cr = s_stretch(N, 6.0, 0.8, stagger="rho", Vstretching=4)
        Cw = s_stretch(N, 6.0, 0.8, stagger="w", Vstretching=4)
        rf.write_roms(path, imax=im, jmax=jm, N=N, times=[0], h=h, hc=20.0, Cs_r=Cr, Cs_w=Cw, Vtransform=2, grid_only=True)
        g = Grid(filename=str(path))
        pb += levels_problems(g.z_r, g.z_w, h[1:-1, 1:-1], f"scale case Grid from a file of {jm}x{im} cells (N={N}, Vtransform=2)", N)
        cells += (jm - 2) * (im - 2)
        sub = (5, 290, 7, 150)
        g = Grid(filename=str(path), subgrid=sub, Vinfo={"N": 42, "hc": 1.0, "theta_s": 5.0, "theta_b": 0.4})
        pb += levels_problems(g.z_r, g.z_w, h[sub[2]:sub[3], sub[0]:sub[1]],
                              f"scale case Grid from Vinfo (N=42, Vtransform=1, hc=1) on subgrid {sub} of {jm}x{im} cells", 42)
        cells += (sub[3] - sub[2]) * (sub[1] - sub[0])
    finally:
        path.unlink(missing_ok=True)
    return {"ints": None, "oracle": "; ".join(pb[:3]) or None, "nontrivial": ("scale-levels",), "kind": "scale-levels",
            "observed": {"cells": int(cells)}}


def eval_scale(desc, ctx):
    w = desc["what"]
    if w == "z2s":
        return eval_scale_z2s(desc)
    if w == "forcing":
        return eval_scale_forcing(desc, ctx)
    if w == "life":
        return eval_scale_life(desc, ctx)
    if w == "levels":
        return eval_scale_levels(desc, ctx)
    raise ValueError(f"unknown scale case {w}")
