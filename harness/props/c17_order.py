"""C17 under other, equally legal ARRANGEMENTS of the inputs: a deterministic family of metamorphic pairs.

The property (the compiled sampling kernels never read outside the forcing arrays, for every position the model itself
produces) is decided by c17.eval_sim / c17.eval_boundscheck exactly as for the other simulations (index-recording arrays
in-process, NUMBA_BOUNDSCHECK=1 end to end); this module only writes the set-ups and runs them.  Every case is a PAIR:
the same small simulation (fast flow towards a boundary, particles within reach of it, at the surface / at the bottom /
below the bottom) is written once in the usual arrangement (A) and once in another arrangement (B) that must not
matter.  Both runs are judged by the same oracle, and the particle positions they write must agree (the same real
arithmetic on the same numbers; compared per particle with the tolerance 1e-9 grid cells / metres).

What is rearranged (ARR below):
  vinfo    key order of the explicit grid.Vinfo mapping (N, hc, theta_s, theta_b [, Vstretching, Vtransform]); in A the
           order of the docstring
  relcols  order of the release-file columns (where release_time, mult, X, Y, Z stand)
  header   column names in release.names of the configuration (A) / as a header line of the file (B)
  rowrev   rows with equal release time in reverse order (the particle identifiers are then mapped back)
  extra    order of forcing.extra_forcing (temp, salt)
  confrev  order of the sections of the configuration, of the keys in every section and of the output variables reversed
  cfg      B is given as a v2 dictionary / written as a YAML file in that key order and run through ladim.main.main
  ncrev    the variables of the NetCDF forcing file(s) created in reverse order, u / v / temp / salt stored as f4 in B
  units    forcing in three files; in B every file has its own time unit and reference time (hours / seconds / days)
"""
from __future__ import annotations

import copy
from pathlib import Path

import numpy as np

import romsfiles as rf

DIRS = [(1, 0), (-1, 0), (0, 1), (0, -1), (1, 1), (-1, -1), (1, -1), (-1, 1)]
SEED0 = 171700
DT, DX, NSTEPS = 600, 1000.0, 4
SPAN = NSTEPS + 2
TOL = 1e-9

VUSUAL = ("N", "hc", "theta_s", "theta_b")
VALL = ("N", "hc", "theta_s", "theta_b", "Vstretching", "Vtransform")
RUSUAL = ("release_time", "X", "Y", "Z")

# name, options of arrangement B (A: usual), scenario (adv, dir, speed, sub)
ARR = [
    dict(name="Vinfo keys hc, N, theta_s, theta_b", vinfo=("hc", "N", "theta_s", "theta_b"), adv="RK4", dir=0, speed=1.8, sub=1),
    dict(name="Vinfo keys theta_b, theta_s, hc, N; YAML through main", vinfo=("theta_b", "theta_s", "hc", "N"), cfg="yaml", adv="RK2", dir=2, speed=2.6, sub=0),
    dict(name="Vinfo keys Vtransform, Vstretching, theta_s, N, theta_b, hc", vinfo=("Vtransform", "Vstretching", "theta_s", "N", "theta_b", "hc"),
         vfull=1, adv="RK4", dir=5, speed=1.8, sub=1),
    dict(name="Vinfo keys N, theta_s, hc, theta_b, Vtransform, Vstretching; configuration reversed", vinfo=("N", "theta_s", "hc", "theta_b", "Vtransform", "Vstretching"),
         vfull=1, confrev=1, adv="EF", dir=1, speed=0.8, sub=0),
    dict(name="release columns Z, Y, X, release_time", relcols=("Z", "Y", "X", "release_time"), adv="RK4", dir=2, speed=1.8, sub=1),
    dict(name="release columns mult, Y, release_time, Z, X as a header line", relcols=("mult", "Y", "release_time", "Z", "X"), mult=1, header=1,
         adv="RK2", dir=0, speed=2.6, sub=0),
    dict(name="rows of equal release time reversed, header line", rowrev=1, header=1, timed=1, adv="RK4", dir=1, speed=1.8, sub=1),
    dict(name="extra_forcing salt, temp; configuration sections, keys and output variables reversed", extra=("salt", "temp"), confrev=1,
         adv="RK4", dir=5, speed=2.6, sub=1),
    dict(name="configuration reversed, YAML through main, release columns X, Z, release_time, Y", confrev=1, cfg="yaml", relcols=("X", "Z", "release_time", "Y"),
         adv="RK2", dir=2, speed=1.8, sub=0),
    dict(name="NetCDF variables in reverse order, f4 storage", ncrev=1, adv="RK4", dir=0, speed=2.6, sub=1),
    dict(name="three forcing files with their own time units and reference times", units=1, adv="RK2", dir=5, speed=1.8, sub=0),
    dict(name="three forcing files, own time units, NetCDF variables reversed, Vinfo keys hc, theta_b, N, theta_s, rows reversed",
         units=1, ncrev=1, vinfo=("hc", "theta_b", "N", "theta_s"), rowrev=1, adv="RK4", dir=2, speed=0.8, sub=1),
]


class ArrangementsDisagree(Exception):
    pass


def order_descs():
    """the descriptions (k = "sim"): fixed, the same in every run and in both tiers"""
    return [{"k": "sim", "seed": SEED0 + n, "adv": a["adv"], "dir": a["dir"], "speed": a["speed"], "diffusion": False, "order": n}
            for n, a in enumerate(ARR)]


def describe(desc):
    return f" ARRANGEMENT case {desc['order']} (usual arrangement against: {ARR[desc['order']]['name']}; seed {desc['seed']})"


# ------------------------------------------------------------------------------------ files
def _reversed_conf(conf):
    """the same configuration with the sections, the keys of every section and the entries below them in reverse order"""
    def rev(x):
        if isinstance(x, dict):
            return {k: rev(x[k]) for k in reversed(list(x))}
        return x
    return rev(conf)


def _rewrite_nc(path, f4names):
    """the same NetCDF file with the variables created in reverse order (and some of them stored as f4)"""
    from netCDF4 import Dataset

    src = Path(path)
    tmp = src.with_suffix(".tmp")
    with Dataset(src) as a, Dataset(tmp, "w", format="NETCDF4") as b:
        a.set_auto_maskandscale(False)
        for name in reversed(list(a.dimensions)):
            dim = a.dimensions[name]
            b.createDimension(name, None if dim.isunlimited() else len(dim))
        for name in reversed(list(a.variables)):
            v = a.variables[name]
            w = b.createVariable(name, "f4" if name in f4names else v.dtype, v.dimensions)
            w.set_auto_maskandscale(False)
            for att in v.ncattrs():
                w.setncattr(att, v.getncattr(att))
            w[...] = v[...]
    tmp.replace(src)


def write_order_scenario(d, desc):
    """files + run plan (arrangement A, arrangement B) of one case, all derived from the description"""
    a = ARR[desc["order"]]
    rng = np.random.default_rng(desc["seed"])
    imax0, jmax0, N = int(rng.integers(12, 17)), int(rng.integers(10, 15)), int(rng.integers(3, 6))
    h = rng.uniform(40, 200, size=(jmax0, imax0))
    if a["sub"]:
        while True:
            i0 = int(rng.integers(1, imax0 - 6)); i1 = int(rng.integers(i0 + 5, imax0))
            j0 = int(rng.integers(1, jmax0 - 6)); j1 = int(rng.integers(j0 + 5, jmax0))
            if i0 != j0:
                break
        sub = g = (i0, i1, j0, j1)
    else:
        sub = None
        g = (1, imax0 - 1, 1, jmax0 - 1)
    dxs, dys = DIRS[a["dir"]]
    speed = a["speed"] * DX / DT
    lev = 1.0 + 0.125 * np.arange(N)[:, None, None]
    u1 = dxs * speed * lev * np.ones((N, jmax0, imax0 - 1))
    v1 = dys * speed * lev * np.ones((N, jmax0 - 1, imax0))
    # values that an f4 variable stores exactly
    temp = rng.integers(0, 80, size=(N, jmax0, imax0)) / 8.0
    salt = 30.0 + rng.integers(0, 40, size=(N, jmax0, imax0)) / 8.0

    def stored(x):          # with ncrev arrangement B stores f4: both arrangements get values that f4 holds exactly
        return x.astype("f4").astype("f8") if a.get("ncrev") else x

    if a.get("units"):
        groups = [[0, 2], [3, 4], [SPAN - 1, SPAN]]
        fac = {0: 1.0, 2: 1.25, 3: 0.75, 4: 1.0, SPAN - 1: 1.25, SPAN: 0.75}
    else:
        groups = [[0, SPAN]]
        fac = {0: 1.0, SPAN: 1.0}
    # time units of arrangement B: hours since two hours before the epoch / seconds / days since the day after
    unitsB = [dict(time_unit="h", time_ref_shift=-7200), dict(), dict(time_unit="d", time_ref_shift=86400)]

    def forcing(sd, arr):
        sd.mkdir(parents=True, exist_ok=True)
        names = []
        for f, ks in enumerate(groups):
            name = sd / ("f.nc" if len(groups) == 1 else f"f_{f:03d}.nc")
            kw = unitsB[f] if (arr == "B" and a.get("units")) else {}
            rf.write_roms(name, imax=imax0, jmax=jmax0, N=N, times=[k * DT for k in ks], u=stored(np.stack([fac[k] * u1 for k in ks])),
                          v=stored(np.stack([fac[k] * v1 for k in ks])), h=h, dx=DX,
                          extra={"temp": np.stack([temp] * len(ks)), "salt": np.stack([salt] * len(ks))}, **kw)
            if arr == "B" and a.get("ncrev"):
                _rewrite_nc(name, ("u", "v", "temp", "salt"))
            names.append(name)
        return names, (names[0] if len(names) == 1 else sd / "f_*.nc")

    t_start, t_stop = DT, (NSTEPS + 1) * DT

    # particles inside the valid region, most of them within reach of the boundary the flow points to
    xlo, xhi, ylo, yhi = g[0] + 0.5, g[1] - 1.5, g[2] + 0.5, g[3] - 1.5
    rows = []
    for p in range(10):
        def coord(lo, hi, sgn):
            r = rng.random()
            reach = float(rng.choice([0.001, 0.05, 0.3, 0.7, 1.2, 2.0])) + a["speed"] * (p % 3)
            if sgn > 0 and r < 0.75:
                return max(hi - reach, lo + 0.001)
            if sgn < 0 and r < 0.75:
                return min(lo + reach, hi - 0.001)
            return float(rng.uniform(lo + 0.001, hi - 0.001))
        X, Y = coord(xlo, xhi, dxs), coord(ylo, yhi, dys)
        hh = float(h[round(Y), round(X)])
        Z = float(rng.choice([0.0, hh, hh + 3.0, rng.uniform(0, hh)]))
        when = t_start + (DT * [0, 0, 0, 1, 1, 2][p % 6] if a.get("timed") else 0)
        rows.append({"release_time": int(when), "X": X, "Y": Y, "Z": Z, "mult": 1})
    rows.sort(key=lambda r: r["release_time"])      # stable

    def release(sd, arr):
        cols = list(RUSUAL) + (["mult"] if a.get("mult") else [])
        rr = list(rows)
        pidmap = list(range(len(rows)))           # pidmap[p] = row (= pid in arrangement A) of the particle with pid p
        header = False
        if arr == "B":
            cols = list(a.get("relcols", cols))
            header = bool(a.get("header"))
            if a.get("rowrev"):
                pidmap = sorted(range(len(rows)), key=lambda n: (rows[n]["release_time"], -n))
                rr = [rows[n] for n in pidmap]
        with (sd / "r.rls").open("w") as f:
            if header:
                f.write(" ".join(cols) + "\n")
            for r in rr:
                f.write(" ".join(rf.iso(r[c]) if c == "release_time" else (repr(r[c]) if isinstance(r[c], float) else str(r[c])) for c in cols) + "\n")
        return cols, header, pidmap

    def conf_of(sd, arr):
        names, pattern = forcing(sd, arr)
        cols, header, pidmap = release(sd, arr)
        extra = list(a["extra"]) if (arr == "B" and a.get("extra")) else ["temp", "salt"]
        conf = rf.base_config(start=t_start, stop=t_stop, dt=DT, forcing_file=pattern, grid_file=names[0], release_file=sd / "r.rls",
                              out_file=sd / "out.nc", names=cols, advection=a["adv"], subgrid=sub,
                              instance_variables=("pid", "X", "Y", "Z", "temp", "salt"))
        if header:
            del conf["release"]["names"]
        conf["state"] = {"instance_variables": {v: "float" for v in extra}, "default_values": {v: 0.0 for v in extra}}
        conf["forcing"]["extra_forcing"] = extra
        if a.get("vinfo"):
            vals = {"N": N, "hc": 20, "theta_s": 6.0, "theta_b": 0.25, "Vstretching": 1, "Vtransform": 1}
            keys = a["vinfo"] if arr == "B" else (VALL if a.get("vfull") else VUSUAL)
            conf["grid"]["Vinfo"] = {k: vals[k] for k in keys}
        if arr == "B" and a.get("confrev"):
            conf = _reversed_conf(conf)
        leg = {"dir": str(sd), "out": str(sd / "out.nc"), "pidmap": pidmap}
        if arr == "B" and a.get("cfg") == "yaml":
            import yaml
            (sd / "ladim.yaml").write_text(yaml.safe_dump(conf, sort_keys=False))
            leg["file"] = str(sd / "ladim.yaml")
        else:
            leg["conf"] = conf
        return leg

    plan = {"dir": str(d), "legs": [conf_of(d / "A", "A"), conf_of(d / "B", "B")]}
    return plan, {"sub": sub, "g": g, "shape": (imax0, jmax0, N), "rows": rows}


# ------------------------------------------------------------------------------------ running
def _positions(leg):
    """output file -> per record {pid in arrangement A: (X, Y, Z, temp, salt)}"""
    import run_ladim as rl

    res = rl.read_sparse(leg["out"], absolute=True)
    recs = []
    for r in res["records"]:
        v = r["vars"]
        recs.append((r["time"], {leg["pidmap"][int(p)]: tuple(float(v[n][k]) for n in ("X", "Y", "Z", "temp", "salt")) for k, p in enumerate(v["pid"])}))
    return recs


def run_order(plan, desc):
    """both arrangements through their entry points, then the comparison of what they wrote"""
    import shutil

    import c17_opts as opts

    try:
        for leg in plan["legs"]:
            if "conf" in leg:
                opts._run_dict(leg["conf"], None)
            else:
                opts._run_main(leg["file"], leg["dir"])
        A, B = (_positions(leg) for leg in plan["legs"])
        name = ARR[desc["order"]]["name"]
        if len(A) != len(B):
            raise ArrangementsDisagree(f"{len(A)} output records in the usual arrangement, {len(B)} with [{name}]")
        for k, ((ta, ra), (tb, rb)) in enumerate(zip(A, B)):
            if ta != tb or sorted(ra) != sorted(rb):
                raise ArrangementsDisagree(f"record {k}: time {ta} particles {sorted(ra)} in the usual arrangement, time {tb} particles {sorted(rb)} with [{name}]")
            for p in sorted(ra):
                if not np.allclose(ra[p], rb[p], rtol=0.0, atol=TOL):
                    raise ArrangementsDisagree(f"record {k} particle {p}: (X, Y, Z, temp, salt) = {ra[p]} in the usual arrangement, {rb[p]} with [{name}]")
    finally:
        for leg in plan["legs"]:
            shutil.rmtree(leg["dir"], ignore_errors=True)
