"""C11 — random-walk diffusion: the real Tracker on stub modules with an injected, seeded generator.

Small runs (a few particles, 1..50 steps) are replayed in Coq against Model/Diffusion.v draw by draw;
point clouds (2*10^4 .. 10^6 particles) are judged statistically by the oracle only; c11_scale.py adds fixed cases at
realistic scale (10^3 .. 2.6*10^5 particles in a step, >1000 steps, ladim.main) with independence at ALL lags;
c11_order.py adds fixed cases in which the same set-up is ARRANGED in other legal ways (active and inactive particles
interleaved in the state, order of rows and columns of the release file, header line or names, spellings).
"""
from __future__ import annotations

import bisect
import math

import numpy as np

import c11_order
import c11_scale


PROP = "C11"
THEOREM_FILE = "Props/C11.v"
CHECKER = "Corr.C11"
SHARD = 12
RULE = ("Real ladim.tracker.Tracker with real TimeKeeper and State, stub land-free grid (per-particle metric dx != dy) "
        "and stub forcing (still water or constant per-particle velocity, optional vertical velocity), "
        "tracker.rng = default_rng(seed) injected. D, Dz log-uniform in 1e-9..1e3, dt 1..1e5 s, dx, dy 1e-3..1e5 m, "
        "1..50 steps, modes none/horizontal/vertical/both/both+vertical advection, particle number growing during "
        "the run. Small runs: every displacement and the generator position after every step compared with the Coq "
        "model; clouds: moments of the displacement. Non-trivial = distinct (mode, D, Dz, dt, steps, particle "
        "numbers, seed) with at least one coefficient positive.")
TRUSTED = ["Coq 8.16.1 kernel + vm_compute", "hand-written model coq/Model/Diffusion.v tied by this correspondence",
           "numpy.random.Generator.normal yields independent N(0,1) variates (numpy's contract; only sampled "
           "statistically here) and the generator state after k normals does not depend on how the calls are chunked",
           "float rounding not modelled: tolerance 1e-9 relative to the magnitudes entering each displacement"]
ASSUMPTIONS = ["dt is a whole number of seconds > 0 (TimeKeeper), dx, dy > 0, D, Dz >= 0 (negative = off)",
               "particles stay away from the surface and the bottom (start depth >= 16 standard deviations of the "
               "whole walk), so the reflection of C15 does not enter the displacement",
               "statistical clauses are tests at 6 sigma, not proofs"]

MODES = ["none", "h", "v", "hv", "hv+w", "none+w", "h+w", "v+w"]
START, STOP = "2020-01-01 00:00:00", "2023-01-01 00:00:00"


def fl(x):
    """a finite float as [mantissa, binary exponent], x == mantissa * 2**exponent exactly (Corr/C11.v: mkF)"""
    n, d = float(x).as_integer_ratio()
    e = 1 - d.bit_length()
    while n != 0 and n % 2 == 0 and e >= 0:
        n //= 2
        e += 1
    return [n, e]


def short(x, bits=12):
    """x rounded to a float with a `bits`-bit mantissa (keeps the rationals in Coq small)"""
    if x == 0.0:
        return 0.0
    m, e = math.frexp(x)
    return math.ldexp(round(m * (1 << bits)), e - bits)


# ---- stub modules ------------------------------------------------------------------------------
LANE = 16.0  # particle p starts in lane p: X = LANE * p + LANE / 2
MULT = np.array([1.0, 2.0, 0.5])


def metric_at(dxt, dyt, X, Y):
    """The stub grid's metric: a function of POSITION only (as a real grid's is): the lane of X selects the
    base spacing, the row of Y / the column of X a power-of-two factor.  Positions may be astronomically
    large (metric 1e-3 m with D = 1e3); every step of the computation below is exact in floats."""
    X, Y = np.asarray(X, dtype=float), np.asarray(Y, dtype=float)
    lane = np.mod(np.floor(X / LANE), float(len(dxt))).astype(int)
    ry = np.mod(np.floor(np.abs(Y)), 3.0).astype(int)
    rx = np.mod(np.floor(np.abs(X)), 3.0).astype(int)
    return dxt[lane] * MULT[ry], dyt[lane] * MULT[rx]


class StubGrid:
    xmin, xmax, ymin, ymax = -1.0e30, 1.0e30, -1.0e30, 1.0e30

    def __init__(self, dx, dy, h):
        self.dx, self.dy, self.h = dx, dy, h

    def metric(self, X, Y):
        return metric_at(self.dx, self.dy, X, Y)

    def ingrid(self, X, Y):
        return np.ones(len(X), dtype=bool)

    def atsea(self, X, Y):
        return np.ones(len(X), dtype=bool)

    def depth(self, X, Y):
        return self.h[: len(X)].copy()


class StubForcing:
    def __init__(self, u, v, w, state):
        self.u, self.v, self.w, self.state = u, v, w, state

    @property
    def variables(self):
        return {"w": self.w[: len(self.state)].copy()}

    def velocity(self, X, Y, Z, fractional_step=0.0):
        n = len(X)
        return self.u[:n].copy(), self.v[:n].copy()


def make_tracker(D, Dz, dt, vadv, adv, dx, dy, h, u, v, w, seed):
    from ladim.state import State
    from ladim.timekeeper import TimeKeeper
    from ladim.tracker import Tracker

    state = State()
    tk = TimeKeeper(start=START, stop=STOP, dt=int(dt))
    modules = {"time": tk, "state": state, "grid": StubGrid(dx, dy, h), "forcing": StubForcing(u, v, w, state)}
    tr = Tracker(advection="EF" if adv else "", diffusion=D, vertdiff=Dz, vertical_advection=vadv, modules=modules)
    tr.rng = np.random.default_rng(seed)
    # another simulation set up in the same process, with other coefficients, alive while this one runs
    state2 = State()
    mods2 = {"time": TimeKeeper(start=START, stop=STOP, dt=int(dt)), "state": state2, "grid": StubGrid(dx, dy, h),
             "forcing": StubForcing(u, v, w, state2)}
    tr.neighbour = Tracker(advection="", diffusion=4.0 * D + 1.0, vertdiff=0.25 * Dz if Dz > 0 else 0.5, vertical_advection=False, modules=mods2)
    return tr, state


def mode_flags(mode):
    return ("h" in mode.split("+")[0], "v" in mode.split("+")[0], mode.endswith("+w"))


# ---- generators ----------------------------------------------------------------------------------
def logu(rng, lo, hi):
    return short(10.0 ** rng.uniform(lo, hi))


def gen_params(rng, mode):
    hon, von, vadv = mode_flags(mode)
    D = logu(rng, -9, 3) if hon else 0.0
    Dz = logu(rng, -9, 3) if von else 0.0
    if rng.random() < 0.25:  # the ends of the range and the tiny values a tolerance test would drop
        D = rng.choice([1e-9, 1e-8, 3e-9, 1e3, 1.0]) if hon else 0.0
        Dz = rng.choice([1e-9, 1e-8, 5e-9, 1e3, 1.0]) if von else 0.0
    dt = rng.choice([1, 2, 3, 7, 10, 60, 600, 3600, 86400, 100000, rng.randint(2, 100000)])
    return D, Dz, dt, vadv


def gen_cases(ctx):
    rng = ctx.rng
    # first, at a fixed position and not drawn from rng: the property at realistic scale (c11_scale.py) — 1000..262145
    # particles in one step, a growing cloud, more than a thousand steps, 40000 particles through ladim.main
    out = c11_scale.scale_cases(ctx.quick)
    # next, also fixed: the same set-up in other legal arrangements (c11_order.py) — active / inactive particles interleaved,
    # rows and columns of the release file permuted, header line or names, spellings of times and numbers
    out += c11_order.order_cases(ctx.quick)
    nsmall = 170 if ctx.quick else 1800
    for i in range(nsmall):
        mode = MODES[i % len(MODES)] if i < 4 * len(MODES) else rng.choice(MODES[1:5] + MODES[1:5] + MODES)
        D, Dz, dt, vadv = gen_params(rng, mode)
        steps = rng.choice([1, 1, 2, 3, 5, 8, 13, 20, 35, 50])
        budget = 120 if ctx.quick else 240
        nmax = max(1, min(rng.choice([1, 2, 3, 4, 6, 9]), budget // steps))
        n0 = rng.randint(1, nmax)
        ns, n = [], n0
        for _ in range(steps):
            if n < nmax and rng.random() < 0.3:
                n += rng.randint(1, nmax - n)
            ns.append(n)
        adv = rng.random() < 0.4
        out.append({"k": "small", "mode": mode, "D": D, "Dz": Dz, "dt": dt, "steps": steps, "ns": ns,
                    "dx": [logu(rng, -3, 5) for _ in range(nmax)], "dy": [logu(rng, -3, 5) for _ in range(nmax)],
                    "adv": adv,
                    "uf": [rng.choice([0.0, 0.5, -0.5, 2.0, -2.0]) if adv else 0.0 for _ in range(nmax)],
                    "vf": [rng.choice([0.0, 0.5, -0.5, 2.0, -2.0]) if adv else 0.0 for _ in range(nmax)],
                    "wf": [rng.choice([0.0, 0.5, -0.5, 3.0, -3.0]) if vadv else 0.0 for _ in range(nmax)],
                    "seed": rng.randrange(2**32)})
    # the real ROMS grid with a spacing that differs from cell to cell: wide, tall, whole and subgrid
    for k, (imax, jmax, sub) in enumerate([(30, 8, None), (8, 26, None), (28, 9, (12, 27, 1, 8)), (9, 24, (1, 8, 10, 23))] * (1 if ctx.quick else 4)):
        out.append({"k": "romsgrid", "imax": imax, "jmax": jmax, "sub": sub, "D": [1.0, 10.0, 0.1, 100.0][k % 4], "dt": [600, 60, 3600, 300][k % 4],
                    "dx0": [800.0, 4000.0, 160.0, 20000.0][k % 4], "seed": rng.randrange(2**31)})
    out.append({"k": "warmcloud", "D": 2.0, "dt": 60, "dx": 100.0, "n": 20000, "ncold": 6, "nwarm": 5, "start_rec": 2})
    ncloud = 16 if ctx.quick else 48
    for i in range(ncloud):
        mode = ["h", "v", "hv", "hv+w", "none", "none+w", "h+w", "v+w"][i % 8]
        D, Dz, dt, vadv = gen_params(rng, mode)
        if ctx.quick:
            N, steps = 20000, rng.choice([1, 2, 5, 10, 25, 50])
        else:
            N = rng.choice([100000, 100000, 300000, 1000000])
            steps = rng.choice([1, 2, 5, 10, 25, 50]) if N < 1000000 else rng.choice([1, 3, 10, 20])
        out.append({"k": "cloud", "mode": mode, "D": D, "Dz": Dz, "dt": dt, "steps": steps, "N": N,
                    "dx0": logu(rng, -3, 5), "dy0": logu(rng, -3, 5), "wf": rng.choice([0.5, -0.5, 3.0]) if vadv else 0.0,
                    "seed": rng.randrange(2**32)})
    return out


# ---- small runs -------------------------------------------------------------------------------
def scales(D, Dz, dt):
    sd = math.sqrt(2 * D / dt) if D > 0 else 0.0
    sdz = math.sqrt(2 * Dz / dt) if Dz > 0 else 0.0
    return sd, sdz


def advance_to(ref, target_state, bound):
    """draw normals one at a time from `ref` until its state equals target_state; returns the draws or None"""
    got = []
    for _ in range(bound + 1):
        if ref.bit_generator.state == target_state:
            return got
        got.append(float(ref.normal()))
    return got if ref.bit_generator.state == target_state else None


def run_small(desc, seed):
    D, Dz, dt = desc["D"], desc["Dz"], desc["dt"]
    hon, von, vadv = mode_flags(desc["mode"])
    nmax, steps = len(desc["dx"]), desc["steps"]
    sd, sdz = scales(D, Dz, dt)
    dx, dy = np.array(desc["dx"]), np.array(desc["dy"])
    # advective velocities on the scale of the diffusive ones (or an arbitrary scale when that is off)
    us = short(sd) if sd > 0 else 0.0078125
    ws = short(sdz) if sdz > 0 else 0.0009765625
    u, v = np.array(desc["uf"]) * us, np.array(desc["vf"]) * us
    w = np.array(desc["wf"]) * ws
    cz = sdz * dt
    z0 = 16.0 * cz * math.sqrt(steps) + 2.0 * steps * np.abs(w) * dt
    z0 = np.where(z0 > 0, z0, 5.0)
    h = 4.0 * z0 + 10.0
    tr, state = make_tracker(D, Dz, dt, vadv, desc["adv"], dx, dy, h, u, v, w, seed)
    ref = np.random.default_rng(seed)
    rec = {"steps": [], "xi": [], "lost": False, "u": u, "v": v, "w": w, "dx": dx, "dy": dy, "sd": sd, "sdz": sdz}
    n = 0
    for s in range(steps):
        ns = desc["ns"][s]
        if ns > n:
            state.append(X=LANE * np.arange(n, ns) + LANE / 2, Y=np.full(ns - n, 0.5), Z=z0[n:ns].copy())
            n = ns
        before = (state.X.copy(), state.Y.copy(), state.Z.copy())
        mdx, mdy = metric_at(dx, dy, before[0], before[1])
        tr.update()
        after = (state.X.copy(), state.Y.copy(), state.Z.copy())
        got = advance_to(ref, tr.rng.bit_generator.state, 4 * n + 8)
        if got is None:
            rec["lost"] = True
            got = []
            ref = np.random.default_rng()
            ref.bit_generator.state = tr.rng.bit_generator.state
        rec["steps"].append({"n": n, "cnt": len(got), "before": before, "after": after, "dx": mdx, "dy": mdy})
        rec["xi"].extend(got)
    rec["final_state"] = tr.rng.bit_generator.state
    return rec


def encode_small(desc, rec):
    D, Dz, dt = desc["D"], desc["Dz"], desc["dt"]
    _, _, vadv = mode_flags(desc["mode"])
    nmax = len(desc["dx"])
    ints = fl(D) + fl(Dz) + fl(float(dt)) + fl(rec["sd"]) + fl(rec["sdz"]) + [1 if vadv else 0]
    uu = rec["u"] if desc["adv"] else np.zeros(nmax)
    vv = rec["v"] if desc["adv"] else np.zeros(nmax)
    ints += [len(rec["xi"])]
    for x in rec["xi"]:
        ints += fl(x)
    ints += [len(rec["steps"])]
    for st in rec["steps"]:
        ints += [st["n"], st["cnt"]]
        for p in range(st["n"]):
            for a in (st["dx"], st["dy"], uu, vv, rec["w"]):
                ints += fl(float(a[p]))
            for d in range(3):
                ints += fl(float(st["before"][d][p])) + fl(float(st["after"][d][p]))
    return ints


def oracle_small(desc, rec):
    """The property text on a small run: every diffusive displacement, in metres, is sqrt(2*D*dt) times a draw
    of the generator, a different draw for every (step, particle, direction); a direction whose coefficient is
    zero moves exactly with the water."""
    D, Dz, dt = desc["D"], desc["Dz"], desc["dt"]
    _, _, vadv = mode_flags(desc["mode"])
    if rec["lost"]:
        return "the generator state after a step cannot be reached by drawing standard normals from the seeded generator"
    xi = rec["xi"]
    order = sorted(range(len(xi)), key=lambda j: xi[j])
    sx = [xi[j] for j in order]
    used = {}
    for s, st in enumerate(rec["steps"]):
        for p in range(st["n"]):
            for d, name in enumerate("XYZ"):
                a0, a1 = float(st["before"][d][p]), float(st["after"][d][p])
                if d < 2:
                    metric = float((st["dx"], st["dy"])[d][p])  # the grid's metric where the particle is
                    vel = float((rec["u"], rec["v"])[d][p]) if desc["adv"] else 0.0
                    advd = vel * dt / metric
                    coef = D
                else:
                    metric, advd, coef = 1.0, (float(rec["w"][p]) * dt if vadv else 0.0), Dz
                mag = abs(a0) + abs(a1) + abs(advd)
                dm = (a1 - a0 - advd) * metric  # metres
                if coef <= 0:
                    if abs(dm) > 1e-9 * mag * metric:
                        return f"step {s} particle {p} {name}: coefficient 0 but displacement {dm} m beyond the water's"
                    continue
                z = dm / math.sqrt(2 * coef * dt)
                tolz = 1e-7 * (1 + abs(z)) + 1e-9 * mag * metric / math.sqrt(2 * coef * dt)
                j = bisect.bisect_left(sx, z)
                best = None
                for q in (j - 1, j):
                    if 0 <= q < len(sx) and (best is None or abs(sx[q] - z) < abs(sx[best] - z)):
                        best = q
                if best is None or abs(sx[best] - z) > tolz:
                    return (f"step {s} particle {p} {name}: displacement {dm} m is {z} standard deviations sqrt(2*{coef}*{dt}); "
                            f"no draw of the generator has that value (nearest {None if best is None else sx[best]})")
                key = order[best]
                if key in used:
                    return f"draw {key} is shared by {used[key]} and {(s, p, name)}: displacements not independent"
                used[key] = (s, p, name)
    return None


def eval_small(desc, ctx):
    rec = run_small(desc, desc["seed"])
    oracle = oracle_small(desc, rec)
    hon, von, vadv = mode_flags(desc["mode"])
    D, Dz = desc["D"], desc["Dz"]
    if oracle is None and D <= 0 and Dz <= 0:
        fresh = np.random.default_rng(desc["seed"]).bit_generator.state
        if rec["final_state"] != fresh:
            oracle = "coefficients are zero but the generator was advanced"
        else:
            rec2 = run_small(desc, desc["seed"] ^ 0x5A5A5A5A)
            for a, b in zip(rec["steps"], rec2["steps"]):
                if not all(np.array_equal(x, y) for x, y in zip(a["after"], b["after"])):
                    oracle = "coefficients are zero but two runs with different seeds differ"
                    break
    ints = encode_small(desc, rec)
    last = rec["steps"][-1]
    nontriv = None
    if D > 0 or Dz > 0:
        nontriv = (desc["mode"], D, Dz, desc["dt"], desc["steps"], tuple(desc["ns"]), desc["seed"])
    return {"ints": ints, "oracle": oracle, "nontrivial": nontriv,
            "kind": f"small-{desc['mode']}" + ("-adv" if desc["adv"] else ""),
            "observed": {"draws_per_step": [st["cnt"] for st in rec["steps"]][:12], "draws": len(rec["xi"]),
                         "last_positions": [[float(a[p]) for a in last["after"]] for p in range(min(last["n"], 3))]}}


# ---- clouds ------------------------------------------------------------------------------------
def eval_cloud(desc, ctx):
    D, Dz, dt, steps, N = desc["D"], desc["Dz"], desc["dt"], desc["steps"], desc["N"]
    hon, von, vadv = mode_flags(desc["mode"])
    sd, sdz = scales(D, Dz, dt)
    p = np.arange(N)
    dx = desc["dx0"] * (1.0 + np.arange(4) / 4.0)  # the grid's spacing by lane (metric_at)
    dy = desc["dy0"] * (1.0 + np.arange(4) / 2.0)
    ws = short(sdz) if sdz > 0 else 0.0009765625
    w = np.full(N, desc["wf"] * ws)
    cz = sdz * dt
    z0 = np.full(N, 16.0 * cz * math.sqrt(steps) + 2.0 * steps * abs(desc["wf"] * ws) * dt)
    z0 = np.where(z0 > 0, z0, 5.0)
    h = 4.0 * z0 + 10.0
    zero = np.zeros(N)

    def run(seed):
        tr, state = make_tracker(D, Dz, dt, vadv, False, dx, dy, h, zero, zero, w, seed)
        state.append(X=LANE * (p % 4) + LANE / 2, Y=np.full(N, 0.5), Z=z0.copy())
        return tr, state

    tr, state = run(desc["seed"])
    state0 = tr.rng.bit_generator.state
    sig2 = {"X": 2 * D * dt, "Y": 2 * D * dt, "Z": 2 * Dz * dt}  # the property's variance per step, metres^2
    problems = []
    prev = None
    rootN = math.sqrt(N)

    def chk(what, value, bound):
        if not abs(value) <= bound:
            problems.append(f"{what}: {value:.6g} outside +-{bound:.6g} (6 sigma)")

    tot = {"X": np.zeros(N), "Y": np.zeros(N), "Z": np.zeros(N)}
    for s in range(steps):
        b = (state.X.copy(), state.Y.copy(), state.Z.copy())
        mdx, mdy = metric_at(dx, dy, b[0], b[1])  # the spacing where each particle is at this step
        tr.update()
        d = {"X": (state.X - b[0]) * mdx, "Y": (state.Y - b[1]) * mdy,
             "Z": (state.Z - b[2]) - (w * dt if vadv else 0.0)}
        for name in "XYZ":
            tot[name] += d[name]
        for name in "XYZ":
            v2, e = sig2[name], d[name]
            if v2 <= 0:
                lim = 1e-9 * (np.abs(b["XYZ".index(name)]).max() + abs(desc["wf"] * ws) * dt)
                if np.abs(e).max() > lim:
                    problems.append(f"step {s} {name}: coefficient 0 but particles moved by up to {np.abs(e).max()} m")
                continue
            chk(f"step {s} mean {name}", e.mean(), 6 * math.sqrt(v2) / rootN)
            chk(f"step {s} variance {name} minus 2*D*dt={v2:.6g}", (e * e).mean() - v2, 6 * v2 * math.sqrt(2.0 / N))
            chk(f"step {s} covariance of neighbouring particles {name}", (e[:-1] * e[1:]).mean(), 6 * v2 / rootN)
            if prev is not None:
                chk(f"covariance of steps {s - 1},{s} in {name}", (e * prev[name]).mean(), 6 * v2 / rootN)
        for a, c in (("X", "Y"), ("X", "Z"), ("Y", "Z")):
            if sig2[a] > 0 and sig2[c] > 0:
                bound = 6 * math.sqrt(sig2[a] * sig2[c]) / rootN
                chk(f"step {s} covariance {a}{c}", (d[a] * d[c]).mean(), bound)
                if prev is not None:
                    chk(f"covariance {a}(step {s}) {c}(step {s - 1})", (d[a] * prev[c]).mean(), bound)
                    chk(f"covariance {c}(step {s}) {a}(step {s - 1})", (d[c] * prev[a]).mean(), bound)
        prev = d
        if len(problems) > 5:
            break
    t = steps * dt
    summary = {}
    for name in "XYZ":
        v2 = sig2[name] * steps  # 2*D*t
        e = tot[name]
        summary[name] = {"mean": float(e.mean()), "var": float((e * e).mean()), "2Dt": v2}
        if v2 > 0:
            chk(f"cloud mean {name} after t={t}s", e.mean(), 6 * math.sqrt(v2) / rootN)
            chk(f"cloud variance {name} minus 2*D*t={v2:.6g}", (e * e).mean() - v2, 6 * v2 * math.sqrt(2.0 / N))
    if sig2["X"] > 0:
        chk("cloud covariance XY", (tot["X"] * tot["Y"]).mean(), 6 * sig2["X"] * steps / rootN)
    if D <= 0 and Dz <= 0:
        if tr.rng.bit_generator.state != state0:
            problems.append("coefficients are zero but the generator was advanced")
        tr2, state2 = run(desc["seed"] ^ 0x5A5A5A5A)
        for s in range(steps):
            tr2.update()
        if not (np.array_equal(state2.X, state.X) and np.array_equal(state2.Y, state.Y) and np.array_equal(state2.Z, state.Z)):
            problems.append("coefficients are zero but two runs with different seeds differ")
    nontriv = (desc["mode"], D, Dz, dt, steps, N, desc["seed"]) if (D > 0 or Dz > 0) else None
    return {"ints": None, "oracle": "; ".join(problems[:4]) if problems else None, "nontrivial": nontriv,
            "kind": f"cloud-{desc['mode']}", "observed": summary}


def eval_romsgrid(desc, ctx):
    """oracle only: the real ROMS grid (wide or tall, whole or subgrid) whose spacing differs from cell to cell; the
    random displacement of every particle, in grid units, is its own draw times sqrt(2 D dt) over the spacing of the
    cell the particle is in (nearest rho point)"""
    import romsfiles as rf
    import tracker_impl as ti
    from ladim.ROMS import Grid

    imax, jmax, D, dt, sub, seed = desc["imax"], desc["jmax"], desc["D"], desc["dt"], desc["sub"], desc["seed"]
    d = ctx.subdir("c11")
    f = d / f"grid_{seed}.nc"
    dxg = desc["dx0"] * (1.0 + 0.0625 * np.arange(imax))[None, :] * (1.0 + 0.125 * np.arange(jmax))[:, None]
    # every other grid has cells that are not square (pn != pm): the code takes ONE length scale per cell, 1/pm, for
    # both directions (the property speaks of 2*D*dt/dx^2), and that is what the oracle expects
    dyg = dxg * [1.0, 4.0, 1.0, 0.25][(imax + jmax) % 4] if desc.get("aniso", True) else dxg
    rf.write_roms(f, imax=imax, jmax=jmax, N=2, times=[0], dx=dxg, dy=dyg, grid_only=True)
    grid = Grid(f, subgrid=list(sub) if sub else None)
    f.unlink()
    i0, i1, j0, j1 = (sub if sub else (1, imax - 1, 1, jmax - 1))
    prng = np.random.default_rng(seed + 1)
    n = 12
    X = np.concatenate([prng.uniform(i0 + 0.6, i1 - 1.6, n - 2), [i1 - 1.6, i0 + 0.6]])
    Y = np.concatenate([prng.uniform(j0 + 0.6, j1 - 1.6, n - 2), [j0 + 0.6, j1 - 1.6]])
    zero = np.zeros(n)
    tr, st, _ = ti.make_tracker(grid, ti.StubForcing(U=zero, V=zero), dt, "EF", diffusion=D)
    tr.rng = np.random.default_rng(seed)
    st.append(X=X.copy(), Y=Y.copy(), Z=5.0)
    tr.update()
    ref = np.random.default_rng(seed)
    xi, eta = ref.normal(size=n), ref.normal(size=n)
    own = dxg[np.round(Y).astype(int), np.round(X).astype(int)]
    amp = math.sqrt(2 * D * dt)
    problems = []
    for p in range(n):
        for name, got, want in (("X", float(st.X[p]) - X[p], xi[p] * amp / own[p]), ("Y", float(st.Y[p]) - Y[p], eta[p] * amp / own[p])):
            if not st.alive[p]:
                continue
            if abs(got - want) > 1e-9 * (1 + abs(want)):
                problems.append(f"particle at ({X[p]:.3f},{Y[p]:.3f}) of a {imax}x{jmax} grid (subgrid {sub}): random {name} step {got} grid units, "
                                f"its draw times sqrt(2*D*dt)/dx of its own cell ({own[p]:.4g} m) is {want}")
    return {"ints": None, "oracle": "; ".join(problems[:2]) or None, "nontrivial": ("romsgrid", imax, jmax, bool(sub)), "kind": "romsgrid",
            "observed": {"grid": [imax, jmax], "sub": sub}}


def eval_warmcloud(desc, ctx):
    """oracle only, through ladim.main: a cloud released in one point spreads with variance 2*D*t — ALSO across a warm
    start whose configuration still carries the `time.start` of the cold run's set-up (a time that is in the restart
    file, but not its last record): the restarted run continues from the LAST record, and every record it writes shows
    a cloud of variance 2*D*(record time - release time)"""
    import run_ladim as rl
    import romsfiles as rf

    d = ctx.subdir("c11warm")
    for f in d.glob("*"):
        f.unlink()
    D, dt, dx, n, ncold, nwarm = desc["D"], desc["dt"], desc["dx"], desc["n"], desc["ncold"], desc["nwarm"]
    T = (ncold + nwarm + 2) * dt
    rf.write_roms(d / "f.nc", imax=60, jmax=40, N=2, times=[0, T], u=0.0, v=0.0, h=100.0, dx=dx)
    rf.write_release(d / "r.rls", [[0, n, 30.0, 20.0, 5.0]])
    cold = rf.base_config(start=0, stop=ncold * dt, dt=dt, forcing_file=d / "f.nc", release_file=d / "r.rls", out_file=d / "cold.nc",
                          names=("release_time", "mult", "X", "Y", "Z"), advection="", output_period=dt)
    cold["tracker"]["diffusion"] = D
    rl.run_main(cold, d)
    warm = rf.base_config(start=desc["start_rec"] * dt, stop=(ncold + nwarm) * dt, dt=dt, forcing_file=d / "f.nc", release_file=d / "r.rls",
                          out_file=d / "warm.nc", names=("release_time", "mult", "X", "Y", "Z"), advection="", output_period=dt)
    warm["tracker"]["diffusion"] = D
    warm["warm_start"] = {"filename": str(d / "cold.nc"), "variables": []}
    rl.run_main(warm, d)
    problems, obs = [], []
    for name in ("cold.nc", "warm.nc"):
        for r in rl.read_sparse(d / name, absolute=True)["records"]:
            t = float(r["time"])
            X, Y = np.asarray(r["vars"]["X"], dtype=float), np.asarray(r["vars"]["Y"], dtype=float)
            if len(X) < n // 2 or t == 0:
                continue
            var = 0.5 * (X.var() + Y.var()) * dx * dx
            want = 2 * D * t
            obs.append([name, t, float(var), want])
            if abs(var - want) > 6 * want * math.sqrt(1.0 / len(X)):  # variance of a pooled 2N-sample variance: want*sqrt(1/N)
                problems.append(f"{name}: record at t = {t:.0f} s after the release: cloud variance {var:.1f} m2, 2*D*t = {want:.1f} m2 (D = {D})")
    if not any(o[0] == "warm.nc" for o in obs):
        problems.append("the restarted run wrote no record with the cloud")
    return {"ints": None, "oracle": "; ".join(problems[:2]) or None, "nontrivial": ("warmcloud", D, dt), "kind": "warm-cloud", "observed": obs[-4:]}


def eval_case(desc, ctx):
    if desc["k"] == "scale":
        return c11_scale.eval_scale(desc, ctx)
    if desc["k"] == "scalemain":
        return c11_scale.eval_scalemain(desc, ctx)
    if desc["k"] == "order":
        return c11_order.eval_order(desc, ctx)
    if desc["k"] == "ordermain":
        return c11_order.eval_ordermain(desc, ctx)
    if desc["k"] == "warmcloud":
        return eval_warmcloud(desc, ctx)
    if desc["k"] == "romsgrid":
        return eval_romsgrid(desc, ctx)
    if desc["k"] == "cloud":
        return eval_cloud(desc, ctx)
    return eval_small(desc, ctx)
