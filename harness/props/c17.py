"""C17 — compiled sampling kernels never read outside the forcing arrays.

The compiled kernels cannot be observed, so:
  * kernel cases: the kernels' own Python bodies (`trilinear.py_func`, `z2s_kernel.py_func`, the nearest
    sampler) are run on an index-recording ndarray subclass; the recorded index set is compared in Coq with
    the model's read list (Model/Interp.v) and must lie in bounds; positions include the extremes of the clip
    box (0.01, imax - 1.01) and a few negative controls outside it (where model and numpy must both object);
  * sim cases: whole simulations (real Model: release, Forcing, Tracker with EF/RK2/RK4, sub-rectangles with
    i0 != j0, variable bathymetry, fast flow towards the open boundary, optional diffusion) run in-process with
    `ROMS.trilinear` / `ROMS.z2s_kernel` replaced by wrappers that run the Python bodies on recording arrays;
  * boundscheck cases (both tiers; thorough runs several batches): the same scenarios end to end in a subprocess
    with NUMBA_BOUNDSCHECK=1 (set before numba is imported) where an IndexError raised by a compiled kernel is
    the violation.
  * scale cases (both tiers, always the same, first in the list; c17_scale.py): the sim scenarios with 1000 ... 130000
    particles, a state whose size changes in every step, 700-column / 700-row grids with 35 levels, and (bounds-checked
    only) runs of more than 1000 steps over 13-14 forcing files.  In-process the kernels' Python bodies are run once per
    DISTINCT argument row of a call (the particles are copies of 16 release positions) and the verdict is attributed to
    every particle of the row through the inverse index; under NUMBA_BOUNDSCHECK=1 the compiled kernels see all particles.
  * option-combination cases (both tiers, always the same, right after the scale cases; c17_opts.py): 21 small simulations
    forming a pairwise-covering table over time reversal, EF/RK2/RK4, subgrid, horizontal / vertical diffusion, forcing in one /
    three files with time interpolation, f8 / f4 / packed forcing, release once / continuous / at several times, entry point
    (v2 dictionary, v2 YAML, v2 TOML, v1 YAML through ladim.main.main), float64 / float32 / warm-started state, a killing IBM,
    extra forcing, flow direction and speed (in a reversed run the file stores the negated flow); judged in-process on the
    recording arrays and again with the compiled kernels under NUMBA_BOUNDSCHECK=1.
  * arrangement cases (both tiers, always the same, right after the option combinations; c17_order.py): 12 metamorphic pairs,
    the same small simulation in the usual arrangement of its inputs and in another, equally legal one (key order of grid.Vinfo,
    order of the release-file columns, header line / release.names, order of rows with equal release time, order of
    extra_forcing, of the configuration's sections / keys / output variables, dictionary / YAML entry, order and storage type
    of the NetCDF variables, per-file time units of a three-file forcing); both runs judged as above (in-process and under
    NUMBA_BOUNDSCHECK=1) and the positions they write must agree.
Oracle = the property text: an index < 0 or >= extent (or numpy's IndexError) is a read outside the array.
"""
from __future__ import annotations

import json
import math
import os
import subprocess
import sys
from pathlib import Path

import numpy as np

import romsfiles as rf
import c17_scale as scale
import c17_opts as opts
import c17_order as order
from coqbridge import fl

PROP = "C17"
THEOREM_FILE = "Props/C17.v"
CHECKER = "Corr.C17"
SHARD = 60
RULE = ("kernel cases: trilinear / sample3DUV (both methods) / nearest / z2s Python bodies on index-recording "
        "arrays, shapes (N, jmax, imax+1), (N, jmax+1, imax), (N, jmax, imax) with imax, jmax from 2, positions over the "
        "clip box incl. 0.01 and imax-1.01, integers and half-integers, depths above/in/below the level range, negative "
        "controls outside the box; sim cases: whole simulations with EF/RK2/RK4, flow of 0.3-2.6 cells per step towards "
        "each boundary, sub-rectangles with i0 != j0, diffusion; scale cases: the same with 1000-130000 particles, a state that "
        "grows and shrinks every step, 700-wide / 700-tall grids with 35 levels, 1100-1300 steps over 13-14 forcing files; "
        "option-combination cases: 21 fixed simulations covering every legal pair of {time reversal, EF/RK2/RK4, subgrid, diffusion, vertical "
        "diffusion, 1/3 forcing files, f8/f4/packed forcing, release once/continuous/timed, v2 dict/v2 YAML/v2 TOML/v1 YAML entry, "
        "float64/float32/warm-started state, killing IBM, extra forcing, 4 flow directions, 3 speeds}; arrangement cases: 12 fixed pairs (usual arrangement / another legal one: Vinfo key order, release columns, header line, "
        "row order, extra_forcing order, configuration order, YAML entry, NetCDF variable order and storage, per-file time units), same verdicts and equal positions. Non-trivial = distinct (kind, seed) whose reads touch "
        "the first or last row/column of an array, or a simulation in which a stage position was clipped.")
TRUSTED = ["Coq 8.16.1 kernel + vm_compute", "hand-written model coq/Model/Interp.v tied by this correspondence",
           "the kernels' .py_func bodies are the source numba compiles (numba itself trusted)",
           "numpy's IndexError / NUMBA_BOUNDSCHECK as out-of-range detectors"]
ASSUMPTIONS = ["N >= 2 (a one-level file gives K = 1: known edge, outside the theorem's hypothesis 1 <= K <= N-1)",
               "particles are released inside the valid region (release positions are user input, not produced by the model)",
               "the effect of an out-of-range read in compiled code (garbage / crash) is not modelled"]


# ------------------------------------------------------------------------------------ recording arrays
class Rec(np.ndarray):
    """ndarray that logs every element read as a full index tuple of the ORIGINAL array, however the code spells
    the access: F[k, j, i], F[k][j, i], F[k][j][i], (F[k - 1], F[k]) first and [j, i] later ...  A partial
    index (fewer indices than dimensions) only produces a view that remembers its leading indices."""

    def __new__(cls, a, log, prefix=()):
        obj = np.asarray(a).view(cls)
        obj._log = log
        obj._prefix = tuple(prefix)
        return obj

    def __array_finalize__(self, obj):
        self._log = getattr(obj, "_log", None)
        self._prefix = getattr(obj, "_prefix", ())

    def __getitem__(self, idx):
        base = np.asarray(self)
        if self._log is None:
            return base.__getitem__(idx)
        tup = idx if isinstance(idx, tuple) else (idx,)
        plain = all(not isinstance(x, slice) and x is not Ellipsis and x is not None for x in tup)
        if plain and len(tup) < base.ndim and all(np.ndim(x) == 0 for x in tup):
            return Rec(base.__getitem__(idx), self._log, self._prefix + tuple(tup))  # partial: remember, log later
        self._log.append(self._prefix + tuple(tup))
        return base.__getitem__(idx)


def triples_of(log):
    """index tuples (ints or equally long arrays) -> list of (k, j, i) integer triples"""
    out = []
    for idx in log:
        if not isinstance(idx, tuple) or len(idx) != 3:
            raise ValueError(f"unexpected index {idx!r}")
        if any(isinstance(x, slice) for x in idx):
            raise ValueError(f"unexpected slice {idx!r}")
        if all(np.ndim(x) == 0 for x in idx):
            out.append(tuple(int(x) for x in idx))
        else:
            arrs = np.broadcast_arrays(*[np.asarray(x) for x in idx])
            out.extend(tuple(int(v) for v in t) for t in zip(*[a.ravel() for a in arrs]))
    return out


def outside(shape, t):
    return any(x < 0 or x >= n for x, n in zip(t, shape))


def uniq(tr):
    return sorted(set(tr))


class patched:
    """run with ROMS.trilinear / ROMS.z2s_kernel replaced"""

    def __init__(self, **repl):
        self.repl = repl

    def __enter__(self):
        from ladim import ROMS
        self.saved = {k: getattr(ROMS, k) for k in self.repl}
        for k, v in self.repl.items():
            setattr(ROMS, k, v)

    def __exit__(self, *a):
        from ladim import ROMS
        for k, v in self.saved.items():
            setattr(ROMS, k, v)


# ------------------------------------------------------------------------------------ generation
def gen_cases(ctx):
    rng = ctx.rng
    nt, nuv, nz, nn, ns = (70, 70, 40, 30, 18) if ctx.quick else (700, 700, 400, 300, 120)
    out = []
    # the scale family: fixed descriptions, always first
    scale_both, scale_bc = scale.scale_descs()
    out.extend(scale_both)
    # the option-combination family: fixed descriptions (a pairwise-covering table), always right after the scale family
    opt_descs = opts.opts_descs()
    out.extend(opt_descs)
    # the arrangement family: fixed descriptions (metamorphic pairs), always right after the option combinations
    ord_descs = order.order_descs()
    out.extend(ord_descs)
    for _ in range(nt):
        out.append({"k": "tri", "seed": rng.randrange(10**9)})
    for n in range(nuv):
        out.append({"k": "uv", "seed": rng.randrange(10**9), "meth": n % 3 // 2})
    for _ in range(nz):
        out.append({"k": "z2s", "seed": rng.randrange(10**9)})
    for _ in range(nn):
        out.append({"k": "near", "seed": rng.randrange(10**9)})
    for _ in range(12 if ctx.quick else 150):
        out.append({"k": "clip", "seed": rng.randrange(10**9)})
    advs = ["RK4", "RK4", "RK2", "EF", "RK4", "RK2"]
    for n in range(ns):
        out.append({"k": "sim", "seed": rng.randrange(10**9), "adv": advs[n % len(advs)], "dir": n % 8,
                    "speed": [1.8, 0.8, 2.6, 0.3, 1.3, 0.6][(n // 2) % 6], "diffusion": (n % 5 == 4)})
    # state positions in float32 (what a warm start from an f4 output file gives) on grids with more than 33
    # columns / rows, fast flow towards the far boundary
    for n in range(6 if ctx.quick else 40):
        out.append({"k": "sim", "seed": rng.randrange(10**9), "adv": ["RK4", "RK2"][n % 2], "dir": [0, 2, 4][n % 3],
                    "speed": [1.8, 0.8, 2.6, 1.3][n % 4], "diffusion": False, "f32": True, "big": ["x", "y", "xy"][n % 3]})
    # directed: integer positions, flow of exactly 1 or 2 cells per step: stage positions land exactly on
    # xmin / xmax / ymin / ymax
    for n in range(8 if ctx.quick else 48):
        out.append({"k": "sim", "seed": rng.randrange(10**9), "adv": ["RK4", "RK2", "RK4", "EF"][n % 4], "dir": n % 8,
                    "speed": [1, 2][(n // 8) % 2] if ctx.quick is False else [1, 2][(n // 4) % 2], "diffusion": False, "exact": True})
    # the same scenarios with the COMPILED kernels under NUMBA_BOUNDSCHECK=1 (subprocess; a few seconds per batch)
    batch = [c for c in out if c["k"] == "sim" and not c.get("scale") and not c.get("opts") and "order" not in c]
    for b in range(0, len(batch), 40):
        # the scale scenarios (all particles through the compiled kernels) and the option combinations ride in the first batch
        out.append({"k": "boundscheck", "scenarios": (scale_both + scale_bc + opt_descs + ord_descs if b == 0 else []) + batch[b:b + 40]})
    return out


def box_position(rng, ext, control=False):
    """a local coordinate in [0.01, ext - 1.01] (or, as a negative control, outside of it)"""
    lo, hi = 0.01, ext - 1.01
    if control:
        return float(rng.choice([-1.5, -2.25, ext - 0.4, ext + 0.3, ext + 1.75, hi + 1.0, -1.01]))
    c = rng.random()
    if c < 0.15:
        return lo
    if c < 0.30:
        return hi
    if c < 0.45:
        return float(rng.integers(1, ext - 1)) if ext > 2 else lo
    if c < 0.60:
        v = [x + 0.5 for x in range(0, ext - 1) if lo <= x + 0.5 <= hi]
        return float(v[rng.integers(len(v))]) if v else hi
    return float(rng.uniform(lo, hi))


def finish(kind, seed, ints, ok, shape_reads, expect_ok, where, observed):
    """common verdict: shape_reads = list of (shape, triples)"""
    bad = [(s, t) for s, tr in shape_reads for t in tr if outside(s, t)]
    oracle = None
    if expect_ok and (bad or not ok):
        what = f"index {bad[0][1]} outside array of shape {bad[0][0]}" if bad else "IndexError raised by the kernel body"
        oracle = f"{what}: {where}"
    edge = any(t[1] in (0, s[1] - 1) or t[2] in (0, s[2] - 1) for s, tr in shape_reads for t in tr)
    return {"ints": ints, "oracle": oracle, "nontrivial": (kind, seed) if (edge and expect_ok) else None,
            "kind": kind + ("" if expect_ok else "-control"), "observed": observed}


# ------------------------------------------------------------------------------------ kernel cases
def eval_tri(desc):
    from ladim.ROMS import trilinear

    rng = np.random.default_rng(desc["seed"])
    N, jn, im = int(rng.integers(2, 5)), int(rng.integers(2, 7)), int(rng.integers(2, 8))
    control = rng.random() < 0.15
    which = int(rng.integers(0, 3)) if control else -1     # negative control: bad x, bad y or bad level
    # in-range positions keep trilinear's i+1, j+1 inside: 0.01 <= x <= im - 1.01
    x = box_position(rng, im, which == 0)
    y = box_position(rng, jn, which == 1)
    k = int(rng.choice([0, N, N + 1])) if which == 2 else int(rng.integers(1, N))
    F = rng.normal(size=(N, jn, im))
    log = []
    ok = 1
    try:
        trilinear.py_func(Rec(F, log), np.array([x]), np.array([y]), np.array([k], dtype=np.int64), np.array([0.3]))
    except IndexError:
        ok = 0
    tr = triples_of(log)
    if any(outside(F.shape, t) for t in tr):
        ok = 0
    ints = [1, N, jn, im] + fl(x) + fl(y) + [k, ok] + [v for t in uniq(tr) for v in t]
    return finish("tri", desc["seed"], ints, ok, [(F.shape, tr)], not control,
                  f"trilinear on shape {F.shape} at x={x} y={y} k={k}", {"ok": ok, "reads": uniq(tr)[:8]})


def eval_uv(desc):
    from ladim import ROMS

    rng = np.random.default_rng(desc["seed"])
    N, jmax, imax = int(rng.integers(2, 5)), int(rng.integers(2, 7)), int(rng.integers(2, 8))
    meth = desc["meth"]
    control = rng.random() < 0.12
    x = box_position(rng, imax, control)
    y = box_position(rng, jmax, False)
    k = int(rng.integers(1, N))
    U, V = rng.normal(size=(N, jmax, imax + 1)), rng.normal(size=(N, jmax + 1, imax))
    lu, lv = [], []
    ok = 1
    with patched(trilinear=ROMS.trilinear.py_func):
        try:
            ROMS.sample3DUV(Rec(U, lu), Rec(V, lv), np.array([x]), np.array([y]), np.array([k], dtype=np.int64),
                            np.array([0.5]), method="bilinear" if meth == 0 else "nearest")
        except IndexError:
            ok = 0
    tu, tv = triples_of(lu), triples_of(lv)
    if any(outside(U.shape, t) for t in tu) or any(outside(V.shape, t) for t in tv):
        ok = 0
    uu, vv = uniq(tu), uniq(tv)
    ints = [2, meth, N, jmax, imax] + fl(x) + fl(y) + [k, ok, len(uu)] + [v for t in uu for v in t] + [v for t in vv for v in t]
    return finish("uv-" + ("bilinear" if meth == 0 else "nearest"), desc["seed"], ints, ok, [(U.shape, tu), (V.shape, tv)], not control,
                  f"sample3DUV on U{U.shape} V{V.shape} at x={x} y={y} k={k}", {"ok": ok, "u": uu[:8], "v": vv[:8]})


def eval_z2s(desc):
    from ladim import ROMS

    rng = np.random.default_rng(desc["seed"])
    N, jn, im = int(rng.integers(2, 6)), int(rng.integers(2, 7)), int(rng.integers(2, 8))
    control = rng.random() < 0.12
    x = box_position(rng, im, control)
    y = box_position(rng, jn, False)
    H = rng.uniform(10, 200, size=(jn, im))
    S = -1.0 + (0.5 + np.arange(N)) / N
    z_rho = S[:, None, None] * H[None, :, :]
    hh = float(H[min(max(round(y), 0), jn - 1), min(max(round(x), 0), im - 1)])
    Z = float(rng.choice([0.0, 1e-3, hh, hh + 10.0, rng.uniform(0, hh), -float(z_rho[0, 0, 0])]))
    log = []
    ok = 1
    K = None
    with patched(z2s_kernel=ROMS.z2s_kernel.py_func):
        try:
            K, A = ROMS.z2s(Rec(z_rho, log), np.array([x]), np.array([y]), np.array([Z]))
        except IndexError:
            ok = 0
    cols = []
    for idx in log:
        if not (isinstance(idx, tuple) and len(idx) == 3):
            raise ValueError(f"unexpected read {idx!r} in z2s_kernel")
        if not isinstance(idx[0], slice) and not 0 <= int(idx[0]) < N:  # a single level of the column, read by number
            ok = 0
        cols.append((0, int(idx[1]), int(idx[2])))
    if any(outside((1, jn, im), t) for t in cols):
        ok = 0
    ints = [3, jn, im] + fl(x) + fl(y) + [ok] + ([cols[0][1], cols[0][2]] if cols else [])
    res = finish("z2s", desc["seed"], ints, ok, [((1, jn, im), cols)], not control,
                 f"z2s on shape {z_rho.shape} at x={x} y={y} Z={Z}", {"ok": ok, "column": cols[:1], "K": None if K is None else int(K[0])})
    if res["oracle"] is None and not control and K is not None and not (1 <= int(K[0]) <= N - 1 and 0.0 <= float(A[0]) <= 1.0):
        res["oracle"] = f"z2s returned K={int(K[0])} A={float(A[0])} for N={N}: level K or K-1 is outside the {N}-level arrays (x={x} y={y} Z={Z})"
    return res


def eval_near(desc):
    from ladim import ROMS

    rng = np.random.default_rng(desc["seed"])
    N, jn, im = int(rng.integers(2, 5)), int(rng.integers(2, 7)), int(rng.integers(2, 8))
    control = rng.random() < 0.12
    x = box_position(rng, im, control)
    y = box_position(rng, jn, False)
    k = int(rng.integers(0, N))
    F = rng.normal(size=(N, jn, im))
    log = []
    ok = 1
    try:
        ROMS.sample3D(Rec(F, log), np.array([x]), np.array([y]), np.array([k], dtype=np.int64), np.array([0.5]), method="nearest")
    except IndexError:
        ok = 0
    tr = triples_of(log)
    if any(outside(F.shape, t) for t in tr):
        ok = 0
    ints = [4, N, jn, im] + fl(x) + fl(y) + [k, ok] + [v for t in uniq(tr) for v in t]
    return finish("near", desc["seed"], ints, ok, [(F.shape, tr)], not control,
                  f"nearest sampler on shape {F.shape} at x={x} y={y} k={k}", {"ok": ok, "reads": uniq(tr)})


def eval_clip(desc):
    """the jitted ladim.tracker.clip on positions exactly at, just inside and just outside the limits"""
    from ladim import tracker as _tr

    clip = getattr(_tr, "clip", None)
    if clip is None:
        # the helper is an internal of the tracker: an implementation that clips inside another kernel has no
        # such function; the clipped stage positions are then observed through the reads of the simulations only
        return {"ints": None, "oracle": None, "nontrivial": None, "kind": "clip-helper-absent", "observed": None}

    rng = np.random.default_rng(desc["seed"])
    if rng.random() < 0.6:      # the tracker's own limits of some sub-rectangle
        i0, j0 = int(rng.integers(1, 30)), int(rng.integers(1, 30))
        i1, j1 = i0 + int(rng.integers(3, 40)), j0 + int(rng.integers(3, 40))
        lim = [float(i0) + 0.01, float(i1 - 1) - 0.01, float(j0) + 0.01, float(j1 - 1) - 0.01]
    else:
        a, b = sorted(float(v) for v in rng.uniform(-5, 60, size=2))
        c, e = sorted(float(v) for v in rng.uniform(-5, 60, size=2))
        lim = [a, b + 0.5, c, e + 0.5]

    def values(lo, hi, n):
        special = [lo, hi, np.nextafter(lo, -np.inf), np.nextafter(lo, np.inf), np.nextafter(hi, -np.inf), np.nextafter(hi, np.inf),
                   lo - 0.01, hi + 0.01, math.floor(lo), math.ceil(hi), lo - 1.0, hi + 1.0, hi + 1e-6, lo - 1e-6, 0.5 * (lo + hi)]
        return [float(special[rng.integers(len(special))]) if rng.random() < 0.7 else float(rng.uniform(lo - 3, hi + 3)) for _ in range(n)]

    P = 12
    bx, by = values(lim[0], lim[1], P), values(lim[2], lim[3], P)
    X, Y = np.array(bx), np.array(by)
    clip(X, Y, lim[0], lim[1], lim[2], lim[3])
    ints = [5, 0, 0, 0, 0, 0] + fl(lim[0]) + fl(lim[1]) + fl(lim[2]) + fl(lim[3]) + [P]
    oracle = None
    for n in range(P):
        ints += fl(bx[n]) + fl(by[n]) + fl(float(X[n])) + fl(float(Y[n]))
        for nm, b, a, lo, hi in (("x", bx[n], float(X[n]), lim[0], lim[1]), ("y", by[n], float(Y[n]), lim[2], lim[3])):
            # property text: a clipped position lies within the limits and a position within the limits is not moved
            if oracle is None and (not (lo <= a <= hi) or (lo <= b <= hi and a != b)):
                oracle = f"clip({nm}={b}, limits {lo}..{hi}) = {a}"
    return {"ints": ints, "oracle": oracle, "nontrivial": ("clip", desc["seed"]), "kind": "clip",
            "observed": {"limits": lim, "before": bx[:4], "after": [float(v) for v in X[:4]]}}


# ------------------------------------------------------------------------------------ whole simulations
DIRS = [(1, 0), (-1, 0), (0, 1), (0, -1), (1, 1), (-1, -1), (1, -1), (-1, 1)]


def write_scenario(d, desc):
    """files + configuration of one simulation, all derived from the description"""
    if desc.get("scale"):
        return scale.write_scale_scenario(d, desc)
    if desc.get("opts"):      # for these `conf` is a run plan (one or two legs, dictionary or configuration file), see c17_opts
        return opts.write_opts_scenario(d, desc)
    if "order" in desc:       # `conf` is a run plan: the usual arrangement of the inputs and another one, see c17_order
        return order.write_order_scenario(d, desc)
    rng = np.random.default_rng(desc["seed"])
    imax0, jmax0, N = int(rng.integers(12, 17)), int(rng.integers(10, 15)), int(rng.integers(2, 5))
    dt, dx, nsteps = 600, 1000.0, 4
    exact = bool(desc.get("exact"))
    if exact:
        dt, dx = 512, 512.0            # u = 1 m/s is exactly one cell per step
    big = desc.get("big", "")
    if "x" in big:
        imax0 = int(rng.integers(36, 44))
    if "y" in big:
        jmax0 = int(rng.integers(36, 44))
    h = rng.uniform(30, 200, size=(jmax0, imax0))
    if rng.random() < 0.25:
        sub = None
        g = (1, imax0 - 1, 1, jmax0 - 1)
    else:
        while True:
            i0 = int(rng.integers(1, imax0 - 6)); i1 = int(rng.integers(i0 + 5, imax0))
            j0 = int(rng.integers(1, jmax0 - 6)); j1 = int(rng.integers(j0 + 5, jmax0))
            if "x" in big:
                i1 = int(rng.integers(max(i0 + 5, 34), imax0))       # xmax = i1 - 1 >= 33
            if "y" in big:
                j1 = int(rng.integers(max(j0 + 5, 34), jmax0))
            if i0 != j0 or rng.random() < 0.2:
                break
        sub = g = (i0, i1, j0, j1)
    dxs, dys = DIRS[desc["dir"]]
    speed = desc["speed"] * dx / dt       # cells per step -> m/s
    lev = 1.0 + (0.0 if exact else 0.15) * np.arange(N)[:, None, None]
    u = np.stack([dxs * speed * lev * np.ones((N, jmax0, imax0 - 1))] * 2)
    v = np.stack([dys * speed * lev * np.ones((N, jmax0 - 1, imax0))] * 2)
    rf.write_roms(d / "f.nc", imax=imax0, jmax=jmax0, N=N, times=[0, dt * (nsteps + 1)], u=u, v=v, h=h, dx=dx,
                  extra={"temp": rng.uniform(0, 10, size=(2, N, jmax0, imax0))})
    # particles inside the valid region, most of them within reach of the boundary the flow points to
    xlo, xhi, ylo, yhi = g[0] + 0.5, g[1] - 1.5, g[2] + 0.5, g[3] - 1.5
    rows = []
    for _ in range(14):
        def coord(lo, hi, sgn):
            r = rng.random()
            if exact:      # cell centres 1, 2, 3 ... cells from the limit of the velocity domain (lo - 1/2, hi + 1/2)
                m = int(rng.integers(1, 5))
                inside = list(range(math.ceil(lo + 0.001), math.floor(hi - 0.001) + 1))   # released inside the valid region
                if sgn > 0 and r < 0.8 and round(hi + 0.5) - m in inside:
                    return float(round(hi + 0.5) - m)
                if sgn < 0 and r < 0.8 and round(lo - 0.5) + m in inside:
                    return float(round(lo - 0.5) + m)
                return float(inside[int(rng.integers(len(inside)))])
            reach = float(rng.choice([0.001, 0.05, 0.3, 0.7, 1.2, 2.0]))
            if desc.get("f32"):      # still inside after the first (float64) step, within reach afterwards
                reach += desc["speed"] * int(rng.integers(0, 3))
            if sgn > 0 and r < 0.7:
                return max(hi - reach, lo + 0.001)
            if sgn < 0 and r < 0.7:
                return min(lo + reach, hi - 0.001)
            return float(rng.uniform(lo + 0.001, hi - 0.001))
        X, Y = coord(xlo, xhi, dxs), coord(ylo, yhi, dys)
        hh = float(h[round(Y), round(X)])
        Z = float(rng.choice([0.0, hh, hh + 3.0, rng.uniform(0, hh)]))
        rows.append([0, X, Y, Z])
    rf.write_release(d / "r.rls", rows)
    conf = rf.base_config(start=0, stop=dt * nsteps, dt=dt, forcing_file=d / "f.nc", release_file=d / "r.rls",
                          out_file=d / "out.nc", advection=desc["adv"], subgrid=sub,
                          instance_variables=("pid", "X", "Y", "Z", "temp"))
    conf["state"] = {"instance_variables": {"temp": "float"}, "default_values": {"temp": 0.0}}
    conf["forcing"]["extra_forcing"] = ["temp"]
    if desc.get("diffusion"):
        conf["tracker"]["diffusion"] = 50.0
    return conf, {"sub": sub, "g": g, "shape": (imax0, jmax0, N), "rows": rows}


def run_scenario(conf, desc):
    """the loop of ladim.main on the configuration; with "f32" the state's positions are cast to float32 after
    every step (a warm start from an output file with f4 positions assigns such arrays)"""
    import run_ladim as rl

    if desc.get("opts"):      # entry point (Model on a dictionary / ladim.main.main on a v2 YAML, v2 TOML or v1 YAML file) chosen by the case
        return opts.run_opts(conf, desc)
    if "order" in desc:       # both arrangements, then the comparison of the positions they wrote
        return order.run_order(conf, desc)

    def cast(model, k):
        st = model.state
        st.variables["X"] = st.X.astype("f4")
        st.variables["Y"] = st.Y.astype("f4")

    return rl.run_conf(conf, per_step=cast if desc.get("f32") else None)


def eval_sim(desc, ctx):
    from ladim import ROMS, tracker

    big = bool(desc.get("scale"))       # scale case: vectorised bookkeeping, one kernel-body evaluation per distinct row
    d = ctx.subdir(f"c17_{desc['seed']}")
    conf, info = write_scenario(d, desc)
    calls = []          # (kind, shape, x, y, k, triples, ok, particles with these arguments, first of them, particles in the call)
    clips = []          # (limits, before x, before y, after x, after y, something was moved) — at scale a sample of the particles
    badclips = []
    tri0, z2s0, clip0 = ROMS.trilinear, ROMS.z2s_kernel, getattr(tracker, "clip", None)
    # clipped stage positions must stay where i+1, j+1 are inside the arrays: xmin <= x < xmax (strictly below)
    g = info["g"]
    gx0, gx1, gy0, gy1 = float(g[0]), float(g[1] - 1), float(g[2]), float(g[3] - 1)

    def groups(*cols):
        n = len(cols[0])
        if big:         # every particle is accounted for: particle p has the arguments of distinct row inv[p]
            return scale.row_groups(*cols)
        return np.arange(n), np.arange(n), np.ones(n, dtype=np.int64)      # particle by particle

    def rec_clip(X, Y, xmin, xmax, ymin, ymax):
        bx, by = np.array(X, dtype=float), np.array(Y, dtype=float)
        clip0(X, Y, xmin, xmax, ymin, ymax)
        ax, ay = np.array(X, dtype=float), np.array(Y, dtype=float)
        n = len(bx)
        outside_dom = ~((gx0 <= ax) & (ax < gx1) & (gy0 <= ay) & (ay < gy1))
        moved = (bx != ax) | (by != ay)
        if outside_dom.any() and not badclips:
            p = int(np.flatnonzero(outside_dom)[0])
            badclips.append(f"clipped stage position ({float(ax[p])}, {float(ay[p])}) (unclipped ({float(bx[p])}, {float(by[p])})) is not inside the velocity domain "
                            f"{gx0} <= x < {gx1}, {gy0} <= y < {gy1}"
                            + (f" [particle {p} of the {n} in the state; {int(outside_dom.sum())} particles of this stage]" if big else ""))
        keep = np.arange(n)
        if big and n > 12:
            keep = np.unique(np.concatenate([np.flatnonzero(outside_dom)[:3], np.flatnonzero(moved)[:6], [0, n - 1]]).astype(np.int64))
        clips.append(((float(xmin), float(xmax), float(ymin), float(ymax)), [float(v) for v in bx[keep]], [float(v) for v in by[keep]],
                      [float(v) for v in ax[keep]], [float(v) for v in ay[keep]], bool(moved.any())))

    def rec_tri(F, X, Y, K, A):
        X, Y, K, A = np.array(X, dtype=float), np.array(Y, dtype=float), np.array(K), np.asarray(A, dtype=float)
        first, inv, mult = groups(X, Y, K, A)
        R = np.zeros(len(first))
        for gi, p in enumerate(first):      # row by row so that every read is attributed
            p = int(p)
            log, ok = [], 1
            try:
                R[gi] = tri0.py_func(Rec(F, log), X[p:p + 1], Y[p:p + 1], K[p:p + 1], A[p:p + 1])[0]
            except IndexError:
                ok = 0
            tr = triples_of(log)
            if any(outside(F.shape, t) for t in tr):
                ok = 0
            calls.append(("tri", F.shape, float(X[p]), float(Y[p]), int(K[p]), uniq(tr), ok, int(mult[gi]), p, len(X)))
        return R[inv]

    def rec_z2s(I, J, Z, z_rho):
        Zf = np.asarray(Z, dtype=float)
        first, inv, mult = groups(np.asarray(I), np.asarray(J), Zf)
        Kout, Aout = np.ones(len(first), dtype=np.int64), np.ones(len(first))
        for gi, p in enumerate(first):
            p = int(p)
            log, ok = [], 1
            try:
                kk, aa = z2s0.py_func(I[p:p + 1], J[p:p + 1], Zf[p:p + 1], Rec(z_rho, log))
                Kout[gi], Aout[gi] = kk[0], aa[0]
            except IndexError:
                ok = 0
            cols = [(0, int(ix[1]), int(ix[2])) for ix in log]
            if any(outside((1,) + z_rho.shape[1:], t) for t in cols):
                ok = 0
            calls.append(("z2s", z_rho.shape, float(I[p]), float(J[p]), 0, cols, ok, int(mult[gi]), p, len(I)))
        return Kout[inv], Aout[inv]

    crash = None
    if clip0 is not None:
        tracker.clip = rec_clip
    try:
        with patched(trilinear=rec_tri, z2s_kernel=rec_z2s):
            try:
                run_scenario(conf, desc)
            except BaseException as e:  # noqa: BLE001
                crash = f"{type(e).__name__}: {e}"
    finally:
        if clip0 is not None:
            tracker.clip = clip0
    for f in d.glob("*"):
        try:
            f.unlink()
        except OSError:
            pass
    where = (f"advection={desc['adv']} flow {desc['speed']} cells/step direction {DIRS[desc['dir']]} subgrid={info['sub']} grid={info['shape']}"
             + (" float32 state positions" if desc.get("f32") else "") + (" integer positions" if desc.get("exact") else "")
             + (scale.describe(desc) if big else "") + (opts.describe(desc) if desc.get("opts") else "")
             + (order.describe(desc) if "order" in desc else ""))
    oracle = None
    badclip = badclips[0] if badclips else None
    bad = [c for c in calls if not c[6]]
    if bad:
        kind, shape, x, y, k, tr = bad[0][:6]
        worst = [t for t in tr if outside(shape if kind == "tri" else (1,) + shape[1:], t)]
        oracle = (f"{'trilinear' if kind == 'tri' else 'z2s_kernel'} read outside its array of shape {shape} at kernel position x={x} y={y} k={k}"
                  f" (index {worst[0] if worst else 'beyond the extent (IndexError)'})"
                  + (f" for {bad[0][7]} of the {bad[0][9]} particles of the call, the first of them particle {bad[0][8]}" if big else "")
                  + f": {where}")
    elif badclip:
        oracle = f"{badclip}: {where}"
    elif crash:
        oracle = f"simulation crashed: {crash}: {where}"
    # Coq cases: a sample of the calls, the ones at the array edges first
    def edge(c):
        shape = c[1]
        return any(t[1] in (0, shape[1] - 1) or t[2] in (0, shape[2] - 1) for t in c[5])
    chosen = bad[:6] + [c for c in calls if c[6] and edge(c)][:18] + [c for c in calls if c[6] and not edge(c)][:6]
    ints = []
    for kind, shape, x, y, k, tr, ok in (c[:7] for c in chosen):
        if kind == "tri":
            ints.append([1, shape[0], shape[1], shape[2]] + fl(x) + fl(y) + [k, ok] + [v for t in tr for v in t])
        else:
            ints.append([3, shape[1], shape[2]] + fl(x) + fl(y) + [ok] + ([tr[0][1], tr[0][2]] if tr else []))
    # calls that actually clipped something first
    for lim, bx, by, ax, ay, _ in ([c for c in clips if c[5]] + [c for c in clips if not c[5]])[:2]:
        c5 = [5, 1, g[0], g[1], g[2], g[3]] + fl(lim[0]) + fl(lim[1]) + fl(lim[2]) + fl(lim[3]) + [len(bx)]
        for n in range(len(bx)):
            c5 += fl(bx[n]) + fl(by[n]) + fl(ax[n]) + fl(ay[n])
        ints.append(c5)
    # a stage position was clipped if a kernel position sits exactly on the box edge (local 0.01 / ext - 1.01)
    def onbox(v):
        return any(abs((v % 1) - f) < 1e-9 for f in (0.51, 0.01, 0.49, 0.99))
    clipped = any(c[0] == "tri" and (onbox(c[2]) or onbox(c[3])) for c in calls)
    most = max([c[9] for c in calls], default=0)
    return {"ints": ints or None, "oracle": oracle, "nontrivial": ("sim", desc["seed"]) if clipped else None,
            "kind": f"sim-{desc['adv']}" + ("-diffusion" if desc.get("diffusion") else "") + ("-float32" if desc.get("f32") else "")
                    + ("-integer" if desc.get("exact") else "") + ("-scale" if big else "") + ("-options" if desc.get("opts") else "") + ("-arrangement" if "order" in desc else ""),
            "observed": {"kernel_calls": len(calls), "outside": len(bad), "clip_calls": len(clips), "crash": crash, "subgrid": info["sub"], "clipped": clipped,
                         **({"particles_in_largest_call": most, "particles_accounted_for": int(sum(c[7] for c in calls))} if big else {})}}


BOUNDSCHECK_SCRIPT = r"""
import os, sys, json, logging
os.environ["NUMBA_BOUNDSCHECK"] = "1"          # before numba is imported
sys.path.insert(0, sys.argv[1]); sys.path.insert(0, sys.argv[2])
from pathlib import Path
import c17, run_ladim as rl
class Ctx:
    def __init__(self, w): self.w = Path(w)
    def subdir(self, n):
        d = self.w / n; d.mkdir(parents=True, exist_ok=True); return d
ctx = Ctx(sys.argv[3])
out = []
for desc in json.loads(Path(sys.argv[4]).read_text()):
    d = ctx.subdir(f"bc_{desc['seed']}")
    conf, info = c17.write_scenario(d, desc)
    try:
        c17.run_scenario(conf, desc)
        out.append({"seed": desc["seed"], "result": "ok"})
    except IndexError as e:
        out.append({"seed": desc["seed"], "result": "IndexError: " + str(e)[:200], "sub": info["sub"]})
    except BaseException as e:
        out.append({"seed": desc["seed"], "result": type(e).__name__ + ": " + str(e)[:200], "sub": info["sub"]})
import numba
print("RESULT " + json.dumps({"boundscheck": os.environ.get("NUMBA_BOUNDSCHECK"), "numba": numba.__version__, "runs": out}))
"""


def eval_boundscheck(desc, ctx):
    d = ctx.subdir("c17_boundscheck")
    script = d / "run_bc.py"
    script.write_text(BOUNDSCHECK_SCRIPT)
    sc = d / f"scenarios_{abs(hash(json.dumps(desc['scenarios'], sort_keys=True))) % 10**8}.json"
    sc.write_text(json.dumps(desc["scenarios"]))
    here = Path(__file__).resolve().parent
    env = dict(os.environ)
    env["NUMBA_BOUNDSCHECK"] = "1"
    env["NUMBA_DISABLE_JIT"] = "0"
    p = subprocess.run([sys.executable, "-W", "ignore", str(script), str(here), str(here.parent / "lib"), str(d), str(sc)],
                       capture_output=True, text=True, env=env, timeout=1500)
    line = [ln for ln in p.stdout.splitlines() if ln.startswith("RESULT ")]
    if not line:
        return {"ints": None, "oracle": f"bounds-checked subprocess failed: {(p.stdout + p.stderr)[-600:]}", "nontrivial": None,
                "kind": "boundscheck", "observed": None}
    res = json.loads(line[0][7:])
    bad = [r for r in res["runs"] if r["result"] != "ok"]
    oracle = None
    if bad:
        dsc = [s for s in desc["scenarios"] if s["seed"] == bad[0]["seed"]][0]
        oracle = (f"end-to-end run with NUMBA_BOUNDSCHECK=1: {bad[0]['result']} (advection={dsc['adv']} flow {dsc['speed']} cells/step "
                  f"direction {DIRS[dsc['dir']]} subgrid={bad[0].get('sub')} seed={dsc['seed']}{scale.describe(dsc) if dsc.get('scale') else ''}{opts.describe(dsc) if dsc.get('opts') else ''}{order.describe(dsc) if 'order' in dsc else ''})")
    return {"ints": None, "oracle": oracle, "nontrivial": ("boundscheck", len(res["runs"])), "kind": "boundscheck",
            "observed": {"runs": len(res["runs"]), "failed": len(bad), "boundscheck": res["boundscheck"]}}


def eval_case(desc, ctx):
    k = desc["k"]
    if k == "tri":
        return eval_tri(desc)
    if k == "uv":
        return eval_uv(desc)
    if k == "z2s":
        return eval_z2s(desc)
    if k == "near":
        return eval_near(desc)
    if k == "clip":
        return eval_clip(desc)
    if k == "sim":
        return eval_sim(desc, ctx)
    return eval_boundscheck(desc, ctx)
